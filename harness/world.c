/* world.c - the closed, deterministic world: any number of libcoap contexts
 * ("nodes") under a virtual clock, a seeded PRNG, a scripted network and a
 * scripted allocator (wraps.c), driven over stdin with one command per line;
 * everything observable is written to stdout as one JSON object per line, and
 * each command is terminated by {"e":"done"}.
 *
 * Events are emitted at this boundary only (callbacks registered through the
 * public API and the wrapped socket layer), never from inside libcoap.
 */
#include "world.h"
#include <ctype.h>
#include <stdarg.h>

volatile long vf_cur_case = -1;
void vf_install_death_report(void) {}
void __sanitizer_set_death_callback(void (*cb)(void)) __attribute__((weak));

/* ------------------------------------------------------------ events --- */
static char evbuf[1 << 20];
static size_t evlen;
static int evfirst;

static void
ev_putc(char c) {
  if (evlen + 1 < sizeof(evbuf))
    evbuf[evlen++] = c;
}

static void
ev_puts(const char *s) {
  while (*s)
    ev_putc(*s++);
}

void
ev_begin(const char *name) {
  evlen = 0;
  evfirst = 0;
  ev_puts("{\"e\":\"");
  ev_puts(name);
  ev_puts("\"");
  ev_int("t", (long)vf_now_ms);
  if (vf_cur_node >= 0)
    ev_int("n", vf_cur_node);
}

static void
ev_key(const char *k) {
  ev_puts(",\"");
  ev_puts(k);
  ev_puts("\":");
}

void
ev_int(const char *k, long v) {
  char b[32];
  ev_key(k);
  snprintf(b, sizeof(b), "%ld", v);
  ev_puts(b);
}

void
ev_str(const char *k, const char *v) {
  ev_key(k);
  ev_putc('"');
  for (; v && *v; v++) {
    if (*v == '"' || *v == '\\') {
      ev_putc('\\');
      ev_putc(*v);
    } else if ((unsigned char)*v < 0x20 || (unsigned char)*v > 0x7e) {
      char b[8];
      snprintf(b, sizeof(b), "\\u%04x", (unsigned char)*v);
      ev_puts(b);
    } else
      ev_putc(*v);
  }
  ev_putc('"');
}

void
ev_hex(const char *k, const uint8_t *p, size_t n) {
  static const char hx[] = "0123456789abcdef";
  size_t i;
  ev_key(k);
  ev_putc('"');
  for (i = 0; i < n && p; i++) {
    ev_putc(hx[p[i] >> 4]);
    ev_putc(hx[p[i] & 15]);
  }
  ev_putc('"');
}

static void
fmt_addr(char *buf, size_t n, const coap_address_t *a) {
  char ip[INET6_ADDRSTRLEN] = "?";
  if (a->addr.sa.sa_family == AF_INET) {
    inet_ntop(AF_INET, &a->addr.sin.sin_addr, ip, sizeof(ip));
    snprintf(buf, n, "%s:%u", ip, ntohs(a->addr.sin.sin_port));
  } else if (a->addr.sa.sa_family == AF_INET6) {
    inet_ntop(AF_INET6, &a->addr.sin6.sin6_addr, ip, sizeof(ip));
    snprintf(buf, n, "[%s]:%u", ip, ntohs(a->addr.sin6.sin6_port));
  } else
    snprintf(buf, n, "af%d", a->addr.sa.sa_family);
}

void
ev_addr(const char *k, const coap_address_t *a) {
  char b[80];
  fmt_addr(b, sizeof(b), a);
  ev_str(k, b);
}

void
ev_end(void) {
  ev_putc('}');
  ev_putc('\n');
  fwrite(evbuf, 1, evlen, stdout);
}

static int
parse_addr(const char *s, coap_address_t *a) {
  char ip[80];
  const char *colon;
  coap_address_init(a);
  if (s[0] == '[') {
    const char *e = strchr(s, ']');
    if (!e || e[1] != ':')
      return 0;
    memcpy(ip, s + 1, (size_t)(e - s - 1));
    ip[e - s - 1] = 0;
    a->addr.sin6.sin6_family = AF_INET6;
    a->size = sizeof(struct sockaddr_in6);
    if (inet_pton(AF_INET6, ip, &a->addr.sin6.sin6_addr) != 1)
      return 0;
    a->addr.sin6.sin6_port = htons((uint16_t)atoi(e + 2));
    return 1;
  }
  colon = strrchr(s, ':');
  if (!colon)
    return 0;
  memcpy(ip, s, (size_t)(colon - s));
  ip[colon - s] = 0;
  a->addr.sin.sin_family = AF_INET;
  a->size = sizeof(struct sockaddr_in);
  if (inet_pton(AF_INET, ip, &a->addr.sin.sin_addr) != 1)
    return 0;
  a->addr.sin.sin_port = htons((uint16_t)atoi(colon + 1));
  return 1;
}

/* ------------------------------------------------------------ PRNG ----- */
static uint64_t prng_state = 88172645463325252ULL;
static int prng_pin = -1; /* >=0: every byte drawn is this value */
static long prng_draws;

static int
vf_prng(void *buf, size_t len) {
  uint8_t *p = (uint8_t *)buf;
  size_t i;
  for (i = 0; i < len; i++) {
    prng_state ^= prng_state << 13;
    prng_state ^= prng_state >> 7;
    prng_state ^= prng_state << 17;
    p[i] = prng_pin >= 0 ? (uint8_t)prng_pin : (uint8_t)(prng_state >> 24);
  }
  prng_draws++;
  return 1;
}

/* ------------------------------------------------------------ nodes ---- */
#define MAX_SESS 128
#define MAX_RES 64

typedef struct ropt_t {
  uint16_t num;
  uint8_t *v;
  size_t len;
} ropt_t;

typedef struct rcfg_t {
  int node;
  char path[160];
  int code;      /* -1: default for the method; 0: leave unset */
  int body_kind; /* 0 none 1 echo 2 fixed 3 gen 4 counter 5 stored */
  uint8_t *fixed;
  size_t fixed_len;
  size_t gen_len;
  uint32_t gen_seed;
  int large;  /* use coap_add_data_large_response */
  int sep_ms; /* >=0: separate response after this delay (0: when the application says
                 `trigger`) */
  int busy_ms; /* the handler takes this long: virtual time passes inside the library call */
  int store;
  uint8_t *stored;
  size_t stored_len;
  long counter;
  ropt_t ropts[8];
  int nropts;
  int sref; /* take and keep a session reference in the handler */
  int dyn;  /* unknown-resource handler: create the resource on PUT */
  int dynres; /* created by the unknown-resource handler: DELETE removes the resource */
  int maxage;
  int rtype; /* >=0: set this message type on the response */
  coap_resource_t *res;
} rcfg_t;

typedef struct csess_t {
  int used;
  coap_session_t *s;
} csess_t;

typedef struct node_t {
  int used;
  coap_context_t *ctx;
  csess_t cs[MAX_SESS];      /* client sessions by scenario id */
  rcfg_t *rc[MAX_RES];
  int nrc;
  int fail_verdict_all;
  uint8_t failtok[16][16];
  size_t failtoklen[16];
  int nfailtok;
  int reenter; /* callbacks re-enter the API */
  /* `chain`: a handler invoked for token trig submits a new request on the same session */
  struct {
    uint8_t trig[16], tok[16];
    size_t triglen, toklen;
    int type, used;
  } chain[32];
  int nchain;
  /* untimed async entries waiting for `trigger` */
  struct {
    long sid;
    uint8_t tok[16];
    size_t toklen;
  } pend[32];
  int npend;
  coap_session_t *held[64]; /* server sessions the application holds a reference to */
  int nheld;
  /* parameters applied to every new server session (0 = library default) */
  int srv_ack_timeout_ms, srv_arf_milli, srv_max_retransmit, srv_nstart, srv_mtu;
} node_t;

static node_t nodes[VF_MAX_NODES];

/* server sessions get ids by pointer while they live */
static struct {
  coap_session_t *p;
  long id;
} sessmap[1024];
static int vf_full_payload = 0; /* `fullpayload 1`: events carry whole payloads */
static long next_sess_id = 1000;

static long
sess_id(coap_session_t *s) {
  int i, freei = -1;
  node_t *nd;
  if (!s)
    return -1;
  /* client sessions: scenario id */
  for (i = 0; i < VF_MAX_NODES; i++) {
    int k;
    nd = &nodes[i];
    if (!nd->used)
      continue;
    for (k = 0; k < MAX_SESS; k++)
      if (nd->cs[k].used && nd->cs[k].s == s)
        return k;
  }
  for (i = 0; i < 1024; i++) {
    if (sessmap[i].p == s)
      return sessmap[i].id;
    if (!sessmap[i].p && freei < 0)
      freei = i;
  }
  if (freei < 0)
    return -2;
  sessmap[freei].p = s;
  sessmap[freei].id = next_sess_id++;
  return sessmap[freei].id;
}

static coap_session_t *
sess_by_id(long id) {
  int i;
  for (i = 0; i < 1024; i++)
    if (sessmap[i].p && sessmap[i].id == id)
      return sessmap[i].p;
  return NULL;
}

static void
sess_forget(coap_session_t *s) {
  int i;
  for (i = 0; i < 1024; i++)
    if (sessmap[i].p == s)
      sessmap[i].p = NULL;
}

/* ------------------------------------------------------------ helpers -- */
static uint64_t
fnv64(const uint8_t *p, size_t n) {
  uint64_t h = 1469598103934665603ULL;
  size_t i;
  for (i = 0; i < n; i++) {
    h ^= p[i];
    h *= 1099511628211ULL;
  }
  return h;
}

static uint8_t
gen_byte(uint32_t seed, size_t i) {
  uint32_t x = (uint32_t)i * 2654435761u + seed * 40503u;
  x ^= x >> 15;
  x *= 2246822519u;
  x ^= x >> 13;
  return (uint8_t)(x ^ (i >> 8));
}

static uint8_t *
gen_body(uint32_t seed, size_t len) {
  uint8_t *b = (uint8_t *)malloc(len ? len : 1);
  size_t i;
  for (i = 0; i < len; i++)
    b[i] = gen_byte(seed, i);
  return b;
}

static void
ev_opts(const char *k, const coap_pdu_t *pdu) {
  coap_opt_iterator_t oi;
  coap_opt_t *o;
  static const char hx[] = "0123456789abcdef";
  int first = 1;
  ev_key(k);
  ev_putc('"');
  coap_option_iterator_init(pdu, &oi, COAP_OPT_ALL);
  while ((o = coap_option_next(&oi))) {
    char b[16];
    const uint8_t *v = coap_opt_value(o);
    size_t n = coap_opt_length(o), i;
    if (!first)
      ev_putc(';');
    first = 0;
    snprintf(b, sizeof(b), "%u=", (unsigned)oi.number);
    ev_puts(b);
    for (i = 0; i < n; i++) {
      ev_putc(hx[v[i] >> 4]);
      ev_putc(hx[v[i] & 15]);
    }
  }
  ev_putc('"');
}

static void
ev_payload(const coap_pdu_t *pdu) {
  size_t len = 0, off = 0, tot = 0;
  const uint8_t *data = NULL;
  char b[32];
  if (coap_get_data_large(pdu, &len, &data, &off, &tot)) {
    ev_int("plen", (long)len);
    ev_int("poff", (long)off);
    ev_int("ptot", (long)tot);
    snprintf(b, sizeof(b), "%016llx", (unsigned long long)fnv64(data, len));
    ev_str("pfnv", b);
    if (len <= 96 || (vf_full_payload && len <= 65536))
      ev_hex("phex", data, len);
    else {
      ev_hex("phead", data, 16);
      ev_hex("ptail", data + len - 16, 16);
    }
  } else {
    ev_int("plen", -1);
  }
}

static void
ev_pdu(const coap_pdu_t *pdu) {
  coap_bin_const_t tok = coap_pdu_get_token(pdu);
  ev_int("type", coap_pdu_get_type(pdu));
  ev_int("code", coap_pdu_get_code(pdu));
  ev_int("mid", coap_pdu_get_mid(pdu));
  ev_hex("tok", tok.s, tok.length);
  ev_opts("opts", pdu);
  ev_payload(pdu);
}

static int
node_of_ctx(coap_context_t *ctx) {
  int i;
  for (i = 0; i < VF_MAX_NODES; i++)
    if (nodes[i].used && nodes[i].ctx == ctx)
      return i;
  return -1;
}

/* ------------------------------------------------------------ callbacks - */
static void
released(coap_session_t *session, void *app_ptr) {
  (void)session;
  ev_begin("released");
  ev_int("id", (long)(intptr_t)app_ptr & 0xffffff);
  ev_end();
  /* the body buffers are owned by the harness: allocated with malloc */
}

static long next_body_id = 1;
typedef struct body_t {
  long id;
  uint8_t *data;
} body_t;

static void
released_body(coap_session_t *session, void *app_ptr) {
  body_t *b = (body_t *)app_ptr;
  (void)session;
  ev_begin("released");
  ev_int("id", b->id);
  ev_end();
  free(b->data);
  free(b);
}

static int
default_code(int method) {
  switch (method) {
  case 1:
    return COAP_RESPONSE_CODE(205);
  case 2:
    return COAP_RESPONSE_CODE(204);
  case 3:
    return COAP_RESPONSE_CODE(204);
  case 4:
    return COAP_RESPONSE_CODE(202);
  case 5:
    return COAP_RESPONSE_CODE(205);
  default:
    return COAP_RESPONSE_CODE(204);
  }
}

static void hnd_generic(coap_resource_t *resource, coap_session_t *session,
                        const coap_pdu_t *request, const coap_string_t *query,
                        coap_pdu_t *response);

static rcfg_t *
new_rcfg(int node, const char *path) {
  rcfg_t *rc = (rcfg_t *)calloc(1, sizeof(rcfg_t));
  node_t *nd = &nodes[node];
  rc->node = node;
  snprintf(rc->path, sizeof(rc->path), "%s", path);
  rc->code = -1;
  rc->sep_ms = -1;
  rc->maxage = -1;
  rc->rtype = -1;
  if (nd->nrc < MAX_RES)
    nd->rc[nd->nrc++] = rc;
  return rc;
}

static void
hnd_generic(coap_resource_t *resource, coap_session_t *session, const coap_pdu_t *request,
            const coap_string_t *query, coap_pdu_t *response) {
  rcfg_t *rc = (rcfg_t *)coap_resource_get_userdata(resource);
  int method = coap_pdu_get_code(request);
  coap_string_t *up = coap_get_uri_path(request);
  node_t *nd = &nodes[rc->node];
  int i;
  size_t len = 0, off = 0, tot = 0;
  const uint8_t *data = NULL;
  int code;

  ev_begin("req");
  ev_str("res", rc->path);
  ev_int("sess", sess_id(session));
  ev_pdu(request);
  if (up)
    ev_hex("upath", up->s, up->length);
  if (query)
    ev_hex("query", query->s, query->length);
  ev_int("rmid", coap_pdu_get_mid(response));
  ev_end();
  if (up)
    coap_delete_string(up);
  if (rc->busy_ms > 0)
    vf_now_ms += (uint64_t)rc->busy_ms;

  if (rc->dyn && (method == 2 || method == 3)) {
    /* unknown-resource handler: create an observable resource for this path */
    coap_string_t *p = coap_get_uri_path(request);
    if (p) {
      coap_str_const_t *name = coap_new_str_const(p->s, p->length);
      coap_resource_t *r = name ? coap_resource_init(name, COAP_RESOURCE_FLAGS_RELEASE_URI |
                                                     rc->large) : NULL;
      char pb[160];
      rcfg_t *n2;
      if (!r) {
        if (name)
          coap_delete_str_const(name);
        coap_delete_string(p);
        coap_pdu_set_code(response, COAP_RESPONSE_CODE(500));
        return;
      }
      snprintf(pb, sizeof(pb), "%.*s", (int)p->length, (const char *)p->s);
      n2 = new_rcfg(rc->node, pb);
      n2->body_kind = 4;
      n2->res = r;
      n2->dynres = 1;
      coap_resource_set_userdata(r, n2);
      for (i = 1; i <= 7; i++)
        coap_register_request_handler(r, (coap_request_t)i, hnd_generic);
      coap_resource_set_get_observable(r, 1);
      coap_add_resource(nd->ctx, r);
      coap_delete_string(p);
      coap_pdu_set_code(response, COAP_RESPONSE_CODE(201));
      ev_begin("dyncreated");
      ev_str("res", pb);
      ev_end();
      return;
    }
  }

  if (rc->dynres && method == 4) {
    /* like the DELETE handler of the coap-server example */
    rc->res = NULL;
    rc->path[0] = 0;
    coap_delete_resource(NULL, resource);
    coap_pdu_set_code(response, COAP_RESPONSE_CODE(202));
    return;
  }

  if (rc->sref && nd->nheld < 64) {
    nd->held[nd->nheld++] = coap_session_reference(session);
    ev_begin("appref");
    ev_int("sess", sess_id(session));
    ev_end();
  }

  if (rc->store && (method == 2 || method == 3 || method == 5 || method == 6 || method == 7)) {
    if (coap_get_data_large(request, &len, &data, &off, &tot)) {
      /* offset and total come from the peer's Block1 option: an application bounds them */
      if (off > (1u << 20) || len > (1u << 20)) {
        coap_pdu_set_code(response, COAP_RESPONSE_CODE(413));
        return;
      }
      if (off + len > rc->stored_len) {
        uint8_t *nb = (uint8_t *)realloc(rc->stored, off + len);
        if (!nb) {
          coap_pdu_set_code(response, COAP_RESPONSE_CODE(500));
          return;
        }
        memset(nb + rc->stored_len, 0, off + len - rc->stored_len);
        rc->stored = nb;
        rc->stored_len = off + len;
      }
      if (len)
        memcpy(rc->stored + off, data, len);
    }
  }
  if (method == 4 && rc->store) {
    free(rc->stored);
    rc->stored = NULL;
    rc->stored_len = 0;
  }

  if (rc->sep_ms >= 0) {
    coap_async_t *as = coap_find_async(session, coap_pdu_get_token(request));
    if (!as) {
      as = coap_register_async(session, request,
                               (coap_tick_t)rc->sep_ms * COAP_TICKS_PER_SECOND / 1000);
      ev_begin("async");
      ev_int("ok", as != NULL);
      ev_int("sess", sess_id(session));
      ev_hex("tok", coap_pdu_get_token(request).s, coap_pdu_get_token(request).length);
      ev_end();
      if (as && rc->sep_ms == 0 && nd->npend < 32) {
        coap_bin_const_t t = coap_pdu_get_token(request);
        nd->pend[nd->npend].sid = sess_id(session);
        nd->pend[nd->npend].toklen = t.length > 16 ? 16 : t.length;
        memcpy(nd->pend[nd->npend].tok, t.s, nd->pend[nd->npend].toklen);
        nd->npend++;
      }
      if (!as)
        coap_pdu_set_code(response, COAP_RESPONSE_CODE(503));
      return; /* no code: empty ACK for CON */
    }
  }

  code = rc->code == -1 ? default_code(method) : rc->code;
  if (code == 0)
    return;
  coap_pdu_set_code(response, (coap_pdu_code_t)code);
  if (rc->rtype >= 0)
    coap_pdu_set_type(response, (coap_pdu_type_t)rc->rtype);
  for (i = 0; i < rc->nropts; i++)
    coap_add_option(response, rc->ropts[i].num, rc->ropts[i].len, rc->ropts[i].v);
  if (nd->reenter) {
    /* re-enter the public API from inside the handler */
    coap_resource_notify_observers(resource, NULL);
  }

  {
    const uint8_t *body = NULL;
    size_t blen = 0;
    uint8_t *owned = NULL;
    char cnt[24];
    switch (rc->body_kind) {
    case 1:
      if (coap_get_data_large(request, &len, &data, &off, &tot)) {
        body = data;
        blen = len;
      }
      break;
    case 2:
      body = rc->fixed;
      blen = rc->fixed_len;
      break;
    case 3:
      owned = gen_body(rc->gen_seed, rc->gen_len);
      body = owned;
      blen = rc->gen_len;
      break;
    case 4:
      snprintf(cnt, sizeof(cnt), "%ld", rc->counter);
      body = (const uint8_t *)cnt;
      blen = strlen(cnt);
      break;
    case 5:
      body = rc->stored;
      blen = rc->stored_len;
      break;
    case 6:
      owned = (uint8_t *)malloc(rc->gen_len + 24);
      memset(owned, '.', rc->gen_len + 24);
      i = snprintf((char *)owned, 24, "%ld", rc->counter);
      owned[i] = '.';
      body = owned;
      blen = rc->gen_len;
      break;
    default:
      break;
    }
    if (method != 1 && method != 5 && rc->body_kind != 1 && rc->body_kind != 2)
      blen = 0; /* bodies are served on GET / FETCH */
    if (blen) {
      if (rc->large) {
        body_t *b = (body_t *)malloc(sizeof(body_t));
        int r;
        long bid = next_body_id++;
        b->id = bid;
        b->data = (uint8_t *)malloc(blen);
        memcpy(b->data, body, blen);
        ev_begin("largersp");
        ev_int("id", bid);
        ev_int("len", (long)blen);
        ev_end();
        /* a stable ETag for an unchanged representation (0 lets libcoap invent a new one
         * per call, which makes every re-run of the handler look like a changed resource) */
        r = coap_add_data_large_response(resource, session, request, response, query,
                                         COAP_MEDIATYPE_APPLICATION_OCTET_STREAM, rc->maxage,
                                         rc->body_kind == 3 ? (uint64_t)rc->gen_seed + 1 :
                                         rc->body_kind == 6 ? (uint64_t)rc->counter + 1 : 0,
                                         blen, b->data, released_body, b);
        if (!r) {
          ev_begin("largersp_fail");
          ev_int("id", bid);
          ev_end();
        }
      } else {
        coap_add_data(response, blen, body);
      }
    }
    free(owned);
  }
}

/* the application reacts to an outcome from inside the handler, as clients commonly do:
 * one new request (GET /a) on the session the handler was called for */
static void
run_chain(node_t *nd, coap_session_t *session, const uint8_t *t, size_t tl, const char *from) {
  int i;
  for (i = 0; i < nd->nchain; i++) {
    coap_pdu_t *pdu;
    coap_mid_t mid;
    int ok = 1;
    if (nd->chain[i].used || nd->chain[i].triglen != tl || memcmp(nd->chain[i].trig, t, tl))
      continue;
    nd->chain[i].used = 1;
    pdu = coap_new_pdu((coap_pdu_type_t)nd->chain[i].type, COAP_REQUEST_CODE_GET, session);
    if (!pdu)
      return;
    ok &= coap_add_token(pdu, nd->chain[i].toklen, nd->chain[i].tok);
    ok &= coap_add_option(pdu, COAP_OPTION_URI_PATH, 1, (const uint8_t *)"a") != 0;
    ev_begin("sending");
    ev_int("sess", sess_id(session));
    ev_int("pmid", coap_pdu_get_mid(pdu));
    ev_int("built", ok);
    ev_hex("tok", nd->chain[i].tok, nd->chain[i].toklen);
    ev_str("chained", from);
    ev_end();
    mid = coap_send(session, pdu);
    ev_begin("sent");
    ev_int("sess", sess_id(session));
    ev_int("mid", mid);
    ev_hex("tok", nd->chain[i].tok, nd->chain[i].toklen);
    ev_str("chained", from);
    ev_end();
    return;
  }
}

static coap_response_t
hnd_response(coap_session_t *session, const coap_pdu_t *sent, const coap_pdu_t *received,
             const coap_mid_t mid) {
  int n = node_of_ctx(coap_session_get_context(session));
  node_t *nd = &nodes[n];
  coap_bin_const_t tok = coap_pdu_get_token(received);
  int i, fail = nd->fail_verdict_all;
  int save = vf_cur_node;
  vf_cur_node = n;
  ev_begin("rsp");
  ev_int("sess", sess_id(session));
  ev_pdu(received);
  ev_int("cbmid", mid);
  if (sent) {
    coap_bin_const_t st = coap_pdu_get_token(sent);
    ev_hex("senttok", st.s, st.length);
    ev_int("sentmid", coap_pdu_get_mid(sent));
  }
  for (i = 0; i < nd->nfailtok; i++)
    if (nd->failtoklen[i] == tok.length && !memcmp(nd->failtok[i], tok.s, tok.length))
      fail = 1;
  ev_int("verdict", fail ? 0 : 1);
  ev_end();
  if (nd->nchain)
    run_chain(nd, session, tok.s, tok.length, "rsp");
  vf_cur_node = save;
  return fail ? COAP_RESPONSE_FAIL : COAP_RESPONSE_OK;
}

static void
hnd_nack(coap_session_t *session, const coap_pdu_t *sent, const coap_nack_reason_t reason,
         const coap_mid_t mid) {
  int n = node_of_ctx(coap_session_get_context(session));
  int save = vf_cur_node;
  vf_cur_node = n;
  ev_begin("nack");
  ev_int("sess", sess_id(session));
  ev_int("reason", reason);
  ev_int("cbmid", mid);
  if (sent) {
    coap_bin_const_t st = coap_pdu_get_token(sent);
    ev_hex("tok", st.s, st.length);
    ev_int("mid", coap_pdu_get_mid(sent));
    ev_int("type", coap_pdu_get_type(sent));
    ev_int("code", coap_pdu_get_code(sent));
  }
  ev_end();
  if (sent && nodes[n].nchain &&
      (reason == COAP_NACK_RST || reason == COAP_NACK_TOO_MANY_RETRIES)) {
    coap_bin_const_t st = coap_pdu_get_token(sent);
    run_chain(&nodes[n], session, st.s, st.length, "nack");
  }
  vf_cur_node = save;
}

static int
hnd_event(coap_session_t *session, const coap_event_t event) {
  int n = node_of_ctx(coap_session_get_context(session));
  int save = vf_cur_node;
  vf_cur_node = n;
  ev_begin("event");
  ev_int("code", event);
  ev_int("sess", sess_id(session));
  ev_int("stype", coap_session_get_type(session));
  {
    const coap_address_t *ra = coap_session_get_addr_remote(session);
    if (ra)
      ev_addr("remote", ra);
  }
  ev_end();
  if (event == COAP_EVENT_SERVER_SESSION_DEL)
    sess_forget(session);
  if (event == COAP_EVENT_SERVER_SESSION_NEW && n >= 0) {
    node_t *nd = &nodes[n];
    coap_fixed_point_t f;
    if (nd->srv_ack_timeout_ms) {
      f.integer_part = (uint16_t)(nd->srv_ack_timeout_ms / 1000);
      f.fractional_part = (uint16_t)(nd->srv_ack_timeout_ms % 1000);
      coap_session_set_ack_timeout(session, f);
    }
    if (nd->srv_arf_milli) {
      f.integer_part = (uint16_t)(nd->srv_arf_milli / 1000);
      f.fractional_part = (uint16_t)(nd->srv_arf_milli % 1000);
      coap_session_set_ack_random_factor(session, f);
    }
    if (nd->srv_max_retransmit >= 0 && nd->srv_max_retransmit != 9999)
      coap_session_set_max_retransmit(session, (uint16_t)nd->srv_max_retransmit);
    if (nd->srv_nstart)
      coap_session_set_nstart(session, (uint16_t)nd->srv_nstart);
    if (nd->srv_mtu)
      coap_session_set_mtu(session, (unsigned)nd->srv_mtu);
  }
  vf_cur_node = save;
  return 0;
}

static void
hnd_ping(coap_session_t *session, const coap_pdu_t *received, const coap_mid_t mid) {
  ev_begin("ping");
  ev_int("sess", sess_id(session));
  ev_int("mid", mid);
  (void)received;
  ev_end();
}

static void
hnd_pong(coap_session_t *session, const coap_pdu_t *received, const coap_mid_t mid) {
  ev_begin("pong");
  ev_int("sess", sess_id(session));
  ev_int("mid", mid);
  (void)received;
  ev_end();
}

static void
null_log(coap_log_t level, const char *message) {
  (void)level;
  (void)message;
}

static void
stderr_log(coap_log_t level, const char *message) {
  fprintf(stderr, "[%llu n%d L%d] %s", (unsigned long long)vf_now_ms, vf_cur_node, level, message);
}

/* ------------------------------------------------------------ commands - */
#define MAXTOK 40
static char *tok[MAXTOK];
static int ntok;

static const char *
kv(const char *key, const char *dflt) {
  int i;
  size_t kl = strlen(key);
  for (i = 0; i < ntok; i++)
    if (!strncmp(tok[i], key, kl) && tok[i][kl] == '=')
      return tok[i] + kl + 1;
  return dflt;
}

static long
kvi(const char *key, long dflt) {
  const char *v = kv(key, NULL);
  return v ? strtol(v, NULL, 0) : dflt;
}

static int
add_opts_from(coap_pdu_t *pdu, const char *spec, coap_optlist_t **chain) {
  /* spec: n=hex,n=hex ... ; "-" none.  Options are added in the order given. */
  char *dup, *save = NULL, *it;
  int ok = 1;
  if (!spec || !strcmp(spec, "-"))
    return 1;
  dup = strdup(spec);
  for (it = strtok_r(dup, ",", &save); it; it = strtok_r(NULL, ",", &save)) {
    char *eq = strchr(it, '=');
    size_t len;
    uint8_t *v;
    if (!eq)
      continue;
    *eq = 0;
    v = vf_unhex(eq + 1, strlen(eq + 1), &len);
    if (chain)
      ok &= coap_insert_optlist(chain, coap_new_optlist((uint16_t)atoi(it), len, v));
    else
      ok &= coap_add_option(pdu, (coap_option_num_t)atoi(it), len, v) != 0;
    free(v);
  }
  free(dup);
  return ok;
}

static void
cmd_node(void) {
  int n = atoi(tok[1]);
  node_t *nd = &nodes[n];
  memset(nd, 0, sizeof(*nd));
  vf_cur_node = n;
  nd->ctx = coap_new_context(NULL);
  nd->used = nd->ctx != NULL;
  nd->srv_max_retransmit = 9999;
  if (!nd->ctx) {
    ev_begin("error");
    ev_str("what", "coap_new_context");
    ev_end();
    return;
  }
  coap_register_response_handler(nd->ctx, hnd_response);
  coap_register_nack_handler(nd->ctx, hnd_nack);
  coap_register_event_handler(nd->ctx, hnd_event);
  coap_register_ping_handler(nd->ctx, hnd_ping);
  coap_register_pong_handler(nd->ctx, hnd_pong);
}

static void
cmd_ctx(void) {
  node_t *nd = &nodes[atoi(tok[1])];
  const char *v;
  if ((v = kv("block_mode", NULL)))
    coap_context_set_block_mode(nd->ctx, (uint32_t)strtoul(v, NULL, 0));
  if ((v = kv("max_block", NULL)))
    coap_context_set_max_block_size(nd->ctx, (size_t)atoi(v));
  if ((v = kv("session_timeout", NULL)))
    coap_context_set_session_timeout(nd->ctx, (unsigned)atoi(v));
  if ((v = kv("max_idle", NULL)))
    coap_context_set_max_idle_sessions(nd->ctx, (unsigned)atoi(v));
  if ((v = kv("keepalive", NULL)))
    coap_context_set_keepalive(nd->ctx, (unsigned)atoi(v));
  if ((v = kv("max_token", NULL)))
    coap_context_set_max_token_size(nd->ctx, (size_t)atoi(v));
  if ((v = kv("csm_timeout_ms", NULL)))
    coap_context_set_csm_timeout_ms(nd->ctx, (unsigned)atoi(v));
  if ((v = kv("csm_max", NULL)))
    coap_context_set_csm_max_message_size(nd->ctx, (uint32_t)atoi(v));
  if ((v = kv("mcast_per_resource", NULL)) && atoi(v))
    coap_mcast_per_resource(nd->ctx);
  if ((v = kv("reenter", NULL)))
    nd->reenter = atoi(v);
  if ((v = kv("failall", NULL)))
    nd->fail_verdict_all = atoi(v);
  if ((v = kv("regopt", NULL)))
    coap_register_option(nd->ctx, (uint16_t)atoi(v));
  if ((v = kv("srv_ack_timeout_ms", NULL)))
    nd->srv_ack_timeout_ms = atoi(v);
  if ((v = kv("srv_arf_milli", NULL)))
    nd->srv_arf_milli = atoi(v);
  if ((v = kv("srv_max_retransmit", NULL)))
    nd->srv_max_retransmit = atoi(v);
  if ((v = kv("srv_nstart", NULL)))
    nd->srv_nstart = atoi(v);
  if ((v = kv("srv_mtu", NULL)))
    nd->srv_mtu = atoi(v);
}

static coap_proto_t
proto_of(const char *s) {
  if (!strcmp(s, "udp"))
    return COAP_PROTO_UDP;
  if (!strcmp(s, "dtls"))
    return COAP_PROTO_DTLS;
  if (!strcmp(s, "tcp"))
    return COAP_PROTO_TCP;
  if (!strcmp(s, "tls"))
    return COAP_PROTO_TLS;
  if (!strcmp(s, "ws"))
    return COAP_PROTO_WS;
  if (!strcmp(s, "wss"))
    return COAP_PROTO_WSS;
  return COAP_PROTO_NONE;
}

static void
cmd_ep(void) {
  node_t *nd = &nodes[atoi(tok[1])];
  coap_address_t a;
  coap_endpoint_t *ep;
  if (!parse_addr(tok[3], &a)) {
    ev_begin("error");
    ev_str("what", "addr");
    ev_end();
    return;
  }
  ep = coap_new_endpoint(nd->ctx, &a, proto_of(tok[2]));
  ev_begin("ep");
  ev_int("ok", ep != NULL);
  ev_end();
}

static void
fill_rcfg(rcfg_t *rc) {
  const char *v;
  rc->code = (int)kvi("code", -1);
  if ((v = kv("body", NULL))) {
    if (!strcmp(v, "echo"))
      rc->body_kind = 1;
    else if (!strncmp(v, "fixed:", 6)) {
      rc->body_kind = 2;
      rc->fixed = vf_unhex(v + 6, strlen(v + 6), &rc->fixed_len);
    } else if (!strncmp(v, "gen:", 4)) {
      rc->body_kind = 3;
      rc->gen_len = (size_t)strtoul(v + 4, NULL, 10);
      rc->gen_seed = (uint32_t)strtoul(strchr(v + 4, ':') ? strchr(v + 4, ':') + 1 : "1", NULL, 10);
    } else if (!strcmp(v, "counter"))
      rc->body_kind = 4;
    else if (!strncmp(v, "cpad:", 5)) {
      /* the counter, padded with '.' to a fixed length: a state that changes and is large */
      rc->body_kind = 6;
      rc->gen_len = (size_t)strtoul(v + 5, NULL, 10);
    }
    else if (!strcmp(v, "stored"))
      rc->body_kind = 5;
  }
  rc->large = (int)kvi("large", 0);
  rc->sep_ms = (int)kvi("sep", -1);
  rc->busy_ms = (int)kvi("busy", 0);
  rc->store = (int)kvi("store", 0);
  rc->sref = (int)kvi("sref", 0);
  rc->maxage = (int)kvi("maxage", -1);
  rc->rtype = (int)kvi("rtype", -1);
  if ((v = kv("ropts", NULL)) && strcmp(v, "-")) {
    char *dup = strdup(v), *save = NULL, *it;
    for (it = strtok_r(dup, ",", &save); it && rc->nropts < 8; it = strtok_r(NULL, ",", &save)) {
      char *eq = strchr(it, '=');
      if (!eq)
        continue;
      *eq = 0;
      rc->ropts[rc->nropts].num = (uint16_t)atoi(it);
      rc->ropts[rc->nropts].v = vf_unhex(eq + 1, strlen(eq + 1), &rc->ropts[rc->nropts].len);
      rc->nropts++;
    }
    free(dup);
  }
}

static void
cmd_res(void) {
  /* res <n> <pathhex|-> methods=1,2,.. flags=<int> obs=1 kind=normal|unknown|proxy attr=namehex:valhex,...
   * + rcfg keys */
  int n = atoi(tok[1]);
  node_t *nd = &nodes[n];
  size_t plen;
  uint8_t *p = vf_unhex(tok[2], strlen(tok[2]), &plen);
  const char *kind = kv("kind", "normal");
  const char *methods = kv("methods", "1,2,3,4,5,6,7");
  int flags = (int)kvi("flags", 0);
  coap_resource_t *r;
  rcfg_t *rc;
  char pb[160];
  char *dup, *save = NULL, *it;
  const char *v;

  snprintf(pb, sizeof(pb), "%.*s", (int)plen, (const char *)p);
  rc = new_rcfg(n, pb);
  fill_rcfg(rc);
  if (!strcmp(kind, "unknown")) {
    r = coap_resource_unknown_init2(hnd_generic, flags);
    rc->dyn = (int)kvi("dyn", 0);
    snprintf(rc->path, sizeof(rc->path), "*unknown*");
    rc->large = flags; /* flags for created resources */
  } else if (!strcmp(kind, "proxy")) {
    const char *hosts[1] = {"proxy.example"};
    r = coap_resource_proxy_uri_init2(hnd_generic, 1, hosts, flags);
    snprintf(rc->path, sizeof(rc->path), "*proxy*");
  } else {
    coap_str_const_t *name = coap_new_str_const(p, plen);
    r = name ? coap_resource_init(name, COAP_RESOURCE_FLAGS_RELEASE_URI | flags) : NULL;
    if (name && !r)
      coap_delete_str_const(name);
  }
  free(p);
  if (!r) {
    ev_begin("error");
    ev_str("what", "resource_init");
    ev_end();
    return;
  }
  rc->res = r;
  coap_resource_set_userdata(r, rc);
  if (strcmp(kind, "normal") == 0) {
    dup = strdup(methods);
    for (it = strtok_r(dup, ",", &save); it; it = strtok_r(NULL, ",", &save))
      if (atoi(it) >= 1 && atoi(it) <= 7)
        coap_register_request_handler(r, (coap_request_t)atoi(it), hnd_generic);
    free(dup);
  }
  if (kvi("obs", 0))
    coap_resource_set_get_observable(r, 1);
  if ((v = kv("attr", NULL))) {
    dup = strdup(v);
    save = NULL;
    for (it = strtok_r(dup, ",", &save); it; it = strtok_r(NULL, ",", &save)) {
      char *c = strchr(it, ':');
      size_t nl, vl = 0;
      uint8_t *nb, *vb = NULL;
      if (c)
        *c = 0;
      nb = vf_unhex(it, strlen(it), &nl);
      if (c)
        vb = vf_unhex(c + 1, strlen(c + 1), &vl);
      {
        coap_str_const_t *an = coap_new_str_const(nb, nl);
        coap_str_const_t *av = c ? coap_new_str_const(vb, vl) : NULL;
        if (an && (!c || av)) {
          if (!coap_add_attr(r, an, av,
                             COAP_ATTR_FLAGS_RELEASE_NAME | COAP_ATTR_FLAGS_RELEASE_VALUE)) {
            coap_delete_str_const(an);
            if (av)
              coap_delete_str_const(av);
          }
        } else {
          if (an)
            coap_delete_str_const(an);
          if (av)
            coap_delete_str_const(av);
        }
      }
      free(nb);
      free(vb);
    }
    free(dup);
  }
  coap_add_resource(nd->ctx, r);
}

static void
cmd_resmod(void) {
  /* resmod <n> <pathhex> [obs=0|1] [attr=namehex:valhex] [code=N]  change a registered resource */
  node_t *nd = &nodes[atoi(tok[1])];
  size_t plen;
  uint8_t *p = vf_unhex(tok[2], strlen(tok[2]), &plen);
  coap_str_const_t name = {plen, p};
  coap_resource_t *r = coap_get_resource_from_uri_path(nd->ctx, &name);
  const char *v;
  int ok = r != NULL;
  if (r && (v = kv("obs", NULL)))
    coap_resource_set_get_observable(r, atoi(v));
  if (r && (v = kv("code", NULL)) && coap_resource_get_userdata(r))
    ((rcfg_t *)coap_resource_get_userdata(r))->code = atoi(v); /* -1: back to the default */
  if (r && (v = kv("attr", NULL))) {
    char *dup = strdup(v), *c = strchr(dup, ':');
    size_t nl, vl = 0;
    uint8_t *nb, *vb = NULL;
    coap_str_const_t *an, *av = NULL;
    if (c)
      *c = 0;
    nb = vf_unhex(dup, strlen(dup), &nl);
    if (c)
      vb = vf_unhex(c + 1, strlen(c + 1), &vl);
    an = coap_new_str_const(nb, nl);
    if (c)
      av = coap_new_str_const(vb, vl);
    if (!an || (c && !av) ||
        !coap_add_attr(r, an, av, COAP_ATTR_FLAGS_RELEASE_NAME | COAP_ATTR_FLAGS_RELEASE_VALUE)) {
      if (an)
        coap_delete_str_const(an);
      if (av)
        coap_delete_str_const(av);
      ok = 0;
    }
    free(nb);
    free(vb);
    free(dup);
  }
  free(p);
  ev_begin("resmod");
  ev_int("ok", ok);
  ev_end();
}

static void
cmd_delres(void) {
  node_t *nd = &nodes[atoi(tok[1])];
  size_t plen;
  uint8_t *p = vf_unhex(tok[2], strlen(tok[2]), &plen);
  coap_str_const_t name = {plen, p};
  coap_resource_t *r = coap_get_resource_from_uri_path(nd->ctx, &name);
  int ok = 0, i;
  for (i = 0; r && i < nd->nrc; i++)
    if (nd->rc[i]->res == r) {
      nd->rc[i]->res = NULL;
      nd->rc[i]->path[0] = 0;
    }
  if (r)
    ok = coap_delete_resource(nd->ctx, r);
  free(p);
  ev_begin("delres");
  ev_int("ok", ok);
  ev_end();
}

static coap_oscore_conf_t *make_oscore_conf(const char *confhex, uint64_t start_seq, int who);

/* ---- (D)TLS pre-shared keys (C19) -------------------------------------- */
#define MAX_PSK 8
typedef struct pskent_t {
  int used;
  char name[64];        /* identity / SNI / hint, as a C string */
  uint8_t *b1;          /* server: key for identity; SNI: hint; client ih: identity */
  size_t l1;
  uint8_t *b2;          /* SNI: key; client ih: key */
  size_t l2;
  coap_bin_const_t key; /* what the id callback hands back */
  coap_dtls_spsk_info_t sinfo;
  coap_dtls_cpsk_info_t cinfo;
} pskent_t;

typedef struct psktab_t {
  pskent_t ids[MAX_PSK], snis[MAX_PSK], ihs[MAX_PSK];
  uint8_t *hint, *key;
  size_t hint_len, key_len;
  char sni[64];
} psktab_t;

static psktab_t psk_srv[VF_MAX_NODES];
static psktab_t psk_cli[VF_MAX_NODES][MAX_SESS];

static void
psk_parse(pskent_t *tab, const char *spec, int fields) {
  /* namehex:b1hex[:b2hex],...   ("-" = empty) */
  char *dup = strdup(spec), *save = NULL, *it;
  int n = 0;
  for (it = strtok_r(dup, ",", &save); it && n < MAX_PSK; it = strtok_r(NULL, ",", &save)) {
    char *c1 = strchr(it, ':'), *c2 = NULL;
    size_t nl;
    uint8_t *nm;
    if (!c1)
      continue;
    *c1++ = 0;
    if (fields == 3 && (c2 = strchr(c1, ':')))
      *c2++ = 0;
    nm = vf_unhex(it, strlen(it), &nl);
    snprintf(tab[n].name, sizeof(tab[n].name), "%.*s", (int)nl, (const char *)nm);
    free(nm);
    tab[n].b1 = vf_unhex(c1, strlen(c1), &tab[n].l1);
    if (c2)
      tab[n].b2 = vf_unhex(c2, strlen(c2), &tab[n].l2);
    tab[n].used = 1;
    n++;
  }
  free(dup);
}

static const coap_bin_const_t *
psk_id_cb(coap_bin_const_t *identity, coap_session_t *session, void *arg) {
  psktab_t *t = (psktab_t *)arg;
  int i;
  (void)session;
  ev_begin("psk_id");
  ev_hex("id", identity->s, identity->length);
  for (i = 0; i < MAX_PSK; i++)
    if (t->ids[i].used && strlen(t->ids[i].name) == identity->length &&
        !memcmp(t->ids[i].name, identity->s, identity->length)) {
      t->ids[i].key.s = t->ids[i].b1;
      t->ids[i].key.length = t->ids[i].l1;
      ev_int("known", 1);
      ev_end();
      return &t->ids[i].key;
    }
  ev_int("known", 0);
  ev_end();
  return NULL;
}

static const coap_dtls_spsk_info_t *
psk_sni_cb(const char *sni, coap_session_t *session, void *arg) {
  psktab_t *t = (psktab_t *)arg;
  int i;
  (void)session;
  ev_begin("psk_sni");
  ev_str("sni", sni);
  for (i = 0; i < MAX_PSK; i++)
    if (t->snis[i].used && !strcasecmp(t->snis[i].name, sni)) {
      t->snis[i].sinfo.hint.s = t->snis[i].b1;
      t->snis[i].sinfo.hint.length = t->snis[i].l1;
      t->snis[i].sinfo.key.s = t->snis[i].b2;
      t->snis[i].sinfo.key.length = t->snis[i].l2;
      ev_int("known", 1);
      ev_end();
      return &t->snis[i].sinfo;
    }
  ev_int("known", 0);
  ev_end();
  return NULL;
}

static const coap_dtls_cpsk_info_t *
psk_ih_cb(coap_str_const_t *hint, coap_session_t *session, void *arg) {
  psktab_t *t = (psktab_t *)arg;
  int i;
  (void)session;
  ev_begin("psk_ih");
  ev_hex("hint", hint->s, hint->length);
  for (i = 0; i < MAX_PSK; i++)
    if (t->ihs[i].used && strlen(t->ihs[i].name) == hint->length &&
        !memcmp(t->ihs[i].name, hint->s, hint->length)) {
      t->ihs[i].cinfo.identity.s = t->ihs[i].b1;
      t->ihs[i].cinfo.identity.length = t->ihs[i].l1;
      t->ihs[i].cinfo.key.s = t->ihs[i].b2;
      t->ihs[i].cinfo.key.length = t->ihs[i].l2;
      ev_int("known", 1);
      ev_end();
      return &t->ihs[i].cinfo;
    }
  ev_int("known", 0);
  ev_end();
  return NULL;
}

static void
cmd_psk(void) {
  /* psk <n> hint=<hex> key=<hex> [ids=idhex:keyhex,...] [snis=namehex:hinthex:keyhex,...]
   * server side: coap_context_set_psk2(); must come before the (D)TLS endpoint */
  int n = atoi(tok[1]);
  node_t *nd = &nodes[n];
  psktab_t *t = &psk_srv[n];
  coap_dtls_spsk_t sp;
  const char *v;
  int r;
  memset(&sp, 0, sizeof(sp));
  sp.version = COAP_DTLS_SPSK_SETUP_VERSION;
  v = kv("hint", "-");
  t->hint = vf_unhex(v, strlen(v), &t->hint_len);
  v = kv("key", "-");
  t->key = vf_unhex(v, strlen(v), &t->key_len);
  sp.psk_info.hint.s = t->hint;
  sp.psk_info.hint.length = t->hint_len;
  sp.psk_info.key.s = t->key;
  sp.psk_info.key.length = t->key_len;
  if ((v = kv("ids", NULL))) {
    psk_parse(t->ids, v, 2);
    sp.validate_id_call_back = psk_id_cb;
    sp.id_call_back_arg = t;
  }
  if ((v = kv("snis", NULL))) {
    psk_parse(t->snis, v, 3);
    sp.validate_sni_call_back = psk_sni_cb;
    sp.sni_call_back_arg = t;
  }
  r = coap_context_set_psk2(nd->ctx, &sp);
  ev_begin("psk");
  ev_int("ok", r);
  ev_end();
}

static void do_io(int n);

static void
cmd_sess(void) {
  /* sess <n> <sid> <proto> <remote> [local=addr] [ack_timeout_ms=] [arf_milli=] [max_retransmit=]
   *      [nstart=] [mtu=] [psk_id= psk_key=hex] */
  node_t *nd = &nodes[atoi(tok[1])];
  int sid = atoi(tok[2]);
  coap_address_t remote, local;
  const char *l = kv("local", NULL);
  coap_session_t *s;
  const char *v;
  coap_proto_t proto = proto_of(tok[3]);
  if (!parse_addr(tok[4], &remote) || (l && !parse_addr(l, &local))) {
    ev_begin("error");
    ev_str("what", "addr");
    ev_end();
    return;
  }
  if ((v = kv("psk_id", NULL)) && (kv("sni", NULL) || kv("ih", NULL)) && sid >= 0 &&
      sid < MAX_SESS) {
    /* psk_id=<hex> psk_key=<hex> [sni=<hex>] [ih=hinthex:idhex:keyhex,...]  (psk2 form) */
    psktab_t *t = &psk_cli[atoi(tok[1])][sid];
    coap_dtls_cpsk_t cp;
    const char *x;
    memset(&cp, 0, sizeof(cp));
    cp.version = COAP_DTLS_CPSK_SETUP_VERSION;
    t->hint = vf_unhex(v, strlen(v), &t->hint_len); /* identity */
    x = kv("psk_key", "-");
    t->key = vf_unhex(x, strlen(x), &t->key_len);
    cp.psk_info.identity.s = t->hint;
    cp.psk_info.identity.length = t->hint_len;
    cp.psk_info.key.s = t->key;
    cp.psk_info.key.length = t->key_len;
    if ((x = kv("sni", NULL)) && strcmp(x, "-")) {
      size_t sl;
      uint8_t *sn = vf_unhex(x, strlen(x), &sl);
      snprintf(t->sni, sizeof(t->sni), "%.*s", (int)sl, (const char *)sn);
      free(sn);
      cp.client_sni = t->sni;
    }
    if ((x = kv("ih", NULL))) {
      psk_parse(t->ihs, x, 3);
      cp.validate_ih_call_back = psk_ih_cb;
      cp.ih_call_back_arg = t;
    }
    s = coap_new_client_session_psk2(nd->ctx, l ? &local : NULL, &remote, proto, &cp);
  } else if (v) {
    /* psk_id=<hex identity> psk_key=<hex> */
    size_t kl, il;
    uint8_t *key = vf_unhex(kv("psk_key", "-"), strlen(kv("psk_key", "-")), &kl);
    uint8_t *id = vf_unhex(v, strlen(v), &il);
    char idz[128];
    snprintf(idz, sizeof(idz), "%.*s", (int)il, (const char *)id);
    s = coap_new_client_session_psk(nd->ctx, l ? &local : NULL, &remote, proto, idz, key,
                                    (unsigned)kl);
    free(key);
    free(id);
  } else if ((v = kv("oscore", NULL))) {
    coap_oscore_conf_t *c = make_oscore_conf(v, (uint64_t)kvi("start_seq", 0), atoi(tok[1]));
    s = c ? coap_new_client_session_oscore(nd->ctx, l ? &local : NULL, &remote, proto, c) : NULL;
  } else if ((proto == COAP_PROTO_WS || proto == COAP_PROTO_WSS) && kvi("wshost", 1)) {
    /* as coap-client does: the Host for the HTTP upgrade request is set on the new session
     * while its connect() is still in progress, which then completes */
    static coap_str_const_t host = {11, (const uint8_t *)"example.org"};
    vsock_t *vs;
    vf_defer_connect = 1;
    s = coap_new_client_session(nd->ctx, l ? &local : NULL, &remote, proto);
    vf_defer_connect = 0;
    if (s) {
      coap_ws_set_host_request(s, &host);
      vs = vs_find(&s->sock);
      if (vs) {
        s->sock.flags |= COAP_SOCKET_CAN_CONNECT;
        nd->cs[sid].used = 1; /* events of the connect step name the session */
        nd->cs[sid].s = s;
        do_io(atoi(tok[1]));
      }
    }
  } else {
    s = coap_new_client_session(nd->ctx, l ? &local : NULL, &remote, proto);
  }
  ev_begin("sess");
  ev_int("sid", sid);
  ev_int("ok", s != NULL);
  if (s) {
    ev_addr("local", coap_session_get_addr_local(s));
    ev_addr("remote", coap_session_get_addr_remote(s));
  }
  ev_end();
  if (!s)
    return;
  nd->cs[sid].used = 1;
  nd->cs[sid].s = s;
  if ((v = kv("ack_timeout_ms", NULL))) {
    coap_fixed_point_t f;
    f.integer_part = (uint16_t)(atoi(v) / 1000);
    f.fractional_part = (uint16_t)(atoi(v) % 1000);
    coap_session_set_ack_timeout(s, f);
  }
  if ((v = kv("arf_milli", NULL))) {
    coap_fixed_point_t f;
    f.integer_part = (uint16_t)(atoi(v) / 1000);
    f.fractional_part = (uint16_t)(atoi(v) % 1000);
    coap_session_set_ack_random_factor(s, f);
  }
  if ((v = kv("max_retransmit", NULL)))
    coap_session_set_max_retransmit(s, (uint16_t)atoi(v));
  if ((v = kv("nstart", NULL)))
    coap_session_set_nstart(s, (uint16_t)atoi(v));
  if ((v = kv("mtu", NULL)))
    coap_session_set_mtu(s, (unsigned)atoi(v));
  if ((v = kv("tokinit", NULL))) {
    size_t tl;
    uint8_t *t = vf_unhex(v, strlen(v), &tl);
    coap_session_init_token(s, tl, t);
    free(t);
  }
}

static coap_session_t *
get_sess(int n, long sid) {
  node_t *nd = &nodes[n];
  if (sid >= 0 && sid < MAX_SESS && nd->cs[sid].used)
    return nd->cs[sid].s;
  return sess_by_id(sid);
}

static void
cmd_send(void) {
  /* send <n> <sid> type= code= token=hex opts=... payload=hex [large=len:seed] [mid=]
   * [optlist=1: use coap_add_optlist_pdu] */
  int n = atoi(tok[1]);
  coap_session_t *s = get_sess(n, atol(tok[2]));
  coap_pdu_t *pdu;
  size_t tl, pl;
  uint8_t *t, *p;
  const char *large = kv("large", NULL);
  coap_mid_t mid;
  int ok = 1;
  if (!s) {
    ev_begin("error");
    ev_str("what", "no-session");
    ev_end();
    return;
  }
  pdu = coap_new_pdu((coap_pdu_type_t)kvi("type", 0), (coap_pdu_code_t)kvi("code", 1), s);
  if (!pdu) {
    ev_begin("sent");
    ev_int("mid", -1);
    ev_str("why", "new_pdu");
    ev_end();
    return;
  }
  if (kv("mid", NULL))
    coap_pdu_set_mid(pdu, (coap_mid_t)kvi("mid", 0));
  t = vf_unhex(kv("token", "-"), strlen(kv("token", "-")), &tl);
  ok &= coap_add_token(pdu, tl, t);
  free(t);
  if (kvi("optlist", 0)) {
    coap_optlist_t *chain = NULL;
    ok &= add_opts_from(pdu, kv("opts", "-"), &chain);
    ok &= coap_add_optlist_pdu(pdu, &chain);
    coap_delete_optlist(chain);
  } else {
    ok &= add_opts_from(pdu, kv("opts", "-"), NULL);
  }
  if (large) {
    size_t blen = (size_t)strtoul(large, NULL, 10);
    uint32_t seed = (uint32_t)strtoul(strchr(large, ':') ? strchr(large, ':') + 1 : "1", NULL, 10);
    body_t *b = (body_t *)malloc(sizeof(body_t));
    long bid = next_body_id++;
    b->id = bid;
    b->data = gen_body(seed, blen);
    ev_begin("largereq");
    ev_int("id", bid);
    ev_int("len", (long)blen);
    ev_end();
    if (!coap_add_data_large_request(s, pdu, blen, b->data, released_body, b)) {
      /* the library has called the release function already: b is gone */
      ev_begin("largereq_fail");
      ev_int("id", bid);
      ev_int("sess", atol(tok[2]));
      ev_hex("tok", coap_pdu_get_token(pdu).s, coap_pdu_get_token(pdu).length);
      ev_end();
      /* refused explicitly: the application gives up on this request */
      coap_delete_pdu(pdu);
      return;
    }
  } else {
    p = vf_unhex(kv("payload", "-"), strlen(kv("payload", "-")), &pl);
    if (pl)
      ok &= coap_add_data(pdu, pl, p);
    free(p);
  }
  ev_begin("sending");
  ev_int("sess", atol(tok[2]));
  ev_int("pmid", coap_pdu_get_mid(pdu));
  ev_int("built", ok);
  ev_hex("tok", coap_pdu_get_token(pdu).s, coap_pdu_get_token(pdu).length);
  ev_end();
  mid = coap_send(s, pdu);
  ev_begin("sent");
  ev_int("sess", atol(tok[2]));
  ev_int("mid", mid);
  ev_end();
}

static void
cmd_notify(void) {
  node_t *nd = &nodes[atoi(tok[1])];
  int i, r = 0;
  for (i = 0; i < nd->nrc; i++) {
    if (!strcmp(nd->rc[i]->path, tok[2]) && nd->rc[i]->res) {
      nd->rc[i]->counter++;
      r = coap_resource_notify_observers(nd->rc[i]->res, NULL);
      ev_begin("notified");
      ev_str("res", tok[2]);
      ev_int("counter", nd->rc[i]->counter);
      ev_int("r", r);
      ev_end();
      return;
    }
  }
  ev_begin("error");
  ev_str("what", "no-such-resource");
  ev_end();
}

static void
do_io(int n) {
  node_t *nd = &nodes[n];
  coap_tick_t now;
  if (!nd->used)
    return;
  vf_cur_node = n;
  coap_ticks(&now);
  coap_io_do_io(nd->ctx, now);
}

static void
cmd_prepare(void) {
  int n = atoi(tok[1]);
  node_t *nd = &nodes[n];
  coap_socket_t *socks[64];
  unsigned int num = 0, ms;
  coap_tick_t now;
  vf_cur_node = n;
  coap_ticks(&now);
  ms = coap_io_prepare_io(nd->ctx, socks, 64, &num, now);
  ev_begin("timeout");
  ev_int("ms", (long)ms);
  ev_int("nsock", (long)num);
  ev_end();
}

static vsock_t *
route_udp(const coap_address_t *from, const coap_address_t *to) {
  int i;
  for (i = 0; i < VF_MAX_SOCKS; i++) {
    vsock_t *vs = &vsocks[i];
    if (vs->used && vs->kind == VS_UDP_CLIENT && coap_address_equals(&vs->local, to) &&
        (vs->mcast || coap_address_equals(&vs->remote, from)))
      return vs;
  }
  for (i = 0; i < VF_MAX_SOCKS; i++) {
    vsock_t *vs = &vsocks[i];
    if (vs->used && vs->kind == VS_UDP_EP && coap_address_equals(&vs->local, to))
      return vs;
  }
  if (coap_is_mcast(to)) {
    for (i = 0; i < VF_MAX_SOCKS; i++) {
      vsock_t *vs = &vsocks[i];
      if (vs->used && vs->kind == VS_UDP_EP &&
          vs->local.addr.sa.sa_family == to->addr.sa.sa_family &&
          coap_address_get_port(&vs->local) == coap_address_get_port(to))
        return vs;
    }
  }
  return NULL;
}

static void
cmd_deliver(void) {
  /* deliver <from> <to> <hex> [icmp=1] */
  coap_address_t from, to;
  size_t len;
  uint8_t *b;
  vsock_t *vs;
  if (!parse_addr(tok[1], &from) || !parse_addr(tok[2], &to)) {
    ev_begin("error");
    ev_str("what", "addr");
    ev_end();
    return;
  }
  vs = route_udp(&from, &to);
  if (!vs) {
    ev_begin("undeliverable");
    ev_str("to", tok[2]);
    ev_end();
    return;
  }
  b = vf_unhex(tok[3], strlen(tok[3]), &len);
  if (kvi("judge", 0)) {
    /* what does the library's own datagram parser say about these bytes? (C02: a message it
     * calls malformed must not reach a handler; whether the verdict is right is C03) */
    int ok = 0;
    if (len >= 4 && (b[0] >> 6) == 1) {
      coap_pdu_t *p = coap_pdu_init(0, 0, 0, len + 8);
      if (p) {
        ok = coap_pdu_parse(COAP_PROTO_UDP, b, len, p) ? 1 : 0;
        coap_delete_pdu(p);
      }
    }
    ev_begin("pverdict");
    ev_int("ok", ok);
    ev_int("len", (long)len);
    ev_end();
  }
  vs_push(vs, &from, &to, b, len);
  if (kvi("icmp", 0)) {
    vchunk_t *c = vs->q;
    while (c->next)
      c = c->next;
    c->icmp = 1;
  }
  free(b);
  while (vs->used && vs->q) {
    vs->sock->flags |= COAP_SOCKET_CAN_READ;
    do_io(vs->node);
  }
}

static vsock_t *
conn_sock(int conn, int initiator) {
  int i;
  for (i = 0; i < VF_MAX_SOCKS; i++)
    if (vsocks[i].used && vsocks[i].kind == VS_TCP_CONN && vsocks[i].conn == conn &&
        vsocks[i].initiator == initiator)
      return &vsocks[i];
  return NULL;
}

static void
cmd_tcp_accept(void) {
  /* tcp_accept <listen-addr> <from-addr> [conn=<id of the initiating side>] -> accepted{conn} */
  coap_address_t la, from;
  int i;
  if (!parse_addr(tok[1], &la) || !parse_addr(tok[2], &from))
    return;
  for (i = 0; i < VF_MAX_SOCKS; i++) {
    vsock_t *vs = &vsocks[i];
    if (vs->used && vs->kind == VS_TCP_LISTEN && coap_address_equals(&vs->local, &la)) {
      vchunk_t *c;
      vs_push(vs, &from, &la, (const uint8_t *)"", 0);
      c = vs->q;
      while (c->next)
        c = c->next;
      c->conn = (int)kvi("conn", 0);
      if (!c->conn)
        c->conn = vf_new_conn_id();
      vs->sock->flags |= COAP_SOCKET_CAN_ACCEPT;
      do_io(vs->node);
      return;
    }
  }
  ev_begin("undeliverable");
  ev_str("to", tok[1]);
  ev_end();
}

static void
cmd_stream(void) {
  /* stream <conn> <side: 0 acceptor / 1 initiator> <hex>   one arrival
   * stream_close <conn> <side> */
  vsock_t *vs = conn_sock(atoi(tok[1]), atoi(tok[2]));
  size_t len;
  uint8_t *b;
  if (!vs) {
    ev_begin("undeliverable");
    ev_int("conn", atoi(tok[1]));
    ev_end();
    return;
  }
  if (!strcmp(tok[0], "stream_close")) {
    vs->peer_closed = 1;
  } else {
    b = vf_unhex(tok[3], strlen(tok[3]), &len);
    if (len)
      vs_push(vs, NULL, NULL, b, len);
    free(b);
  }
  /* like select(): the socket stays readable while bytes are pending */
  {
    int conn = atoi(tok[1]), side = atoi(tok[2]), guard = 0;
    long before;
    do {
      before = vs->reads;
      vs->sock->flags |= COAP_SOCKET_CAN_READ;
      do_io(vs->node);
      vs = conn_sock(conn, side);
    } while (vs && vs->q && vs->reads != before && ++guard < 100000);
  }
}

static void
cmd_peek(void) {
  int n = atoi(tok[1]);
  node_t *nd = &nodes[n];
  coap_queue_t *q;
  coap_endpoint_t *ep;
  coap_session_t *s, *tmp;
  long nq = 0;
  vf_cur_node = n;
  for (q = nd->ctx->sendqueue; q; q = q->next)
    nq++;
  ev_begin("peek");
  ev_int("sendqueue", nq);
  ev_int("can_exit", coap_can_exit(nd->ctx));
  ev_int("pending", coap_io_pending(nd->ctx));
  ev_end();
  LL_FOREACH(nd->ctx->endpoint, ep) {
    SESSIONS_ITER_SAFE(ep->sessions, s, tmp) {
      long dq = 0;
      for (q = s->delayqueue; q; q = q->next)
        dq++;
      ev_begin("psess");
      ev_int("sess", sess_id(s));
      ev_int("ref", s->ref);
      ev_int("con_active", s->con_active);
      ev_int("delayq", dq);
      ev_int("state", s->state);
      ev_addr("remote", &s->addr_info.remote);
      ev_end();
    }
  }
  SESSIONS_ITER_SAFE(nd->ctx->sessions, s, tmp) {
    long dq = 0, sq = 0;
    for (q = s->delayqueue; q; q = q->next)
      dq++;
    for (q = nd->ctx->sendqueue; q; q = q->next)
      if (q->session == s)
        sq++;
    ev_begin("psess");
    ev_int("sess", sess_id(s));
    ev_int("client", 1);
    ev_int("ref", s->ref);
    ev_int("con_active", s->con_active);
    ev_int("delayq", dq);
    ev_int("sendq", sq);
    ev_int("state", s->state);
    ev_int("doing_first", s->doing_first);
    ev_int("lg_crcv", s->lg_crcv != NULL);
    ev_int("lg_xmit", s->lg_xmit != NULL);
    ev_end();
  }
}

static int
save_ssn(uint64_t seq, void *param) {
  ev_begin("ssn");
  ev_int("who", (long)(intptr_t)param);
  ev_int("seq", (long)seq);
  ev_end();
  return 1;
}

static coap_oscore_conf_t *
make_oscore_conf(const char *confhex, uint64_t start_seq, int who) {
  size_t len;
  uint8_t *txt = vf_unhex(confhex, strlen(confhex), &len);
  coap_str_const_t mem = {len, txt};
  coap_oscore_conf_t *c = coap_new_oscore_conf(mem, save_ssn, (void *)(intptr_t)who, start_seq);
  free(txt);
  return c;
}

static void
cmd_oscore_server(void) {
  /* oscore_server <n> <conf text as hex> [start_seq=] */
  node_t *nd = &nodes[atoi(tok[1])];
  coap_oscore_conf_t *c = make_oscore_conf(tok[2], (uint64_t)kvi("start_seq", 0), atoi(tok[1]));
  int r = c ? coap_context_oscore_server(nd->ctx, c) : 0;
  ev_begin("oscore_server");
  ev_int("ok", r);
  ev_end();
}

static void
cmd_peekosc(void) {
  /* grey-box, auxiliary: replay state of every recipient context */
  node_t *nd = &nodes[atoi(tok[1])];
  oscore_ctx_t *o;
  for (o = nd->ctx->p_osc_ctx; o; o = o->next) {
    oscore_recipient_ctx_t *rc;
    ev_begin("posc");
    ev_int("sender_seq", o->sender_context ? (long)o->sender_context->seq : -1);
    ev_int("window_size", (long)o->replay_window_size);
    ev_end();
    for (rc = o->recipient_chain; rc; rc = rc->next_recipient) {
      char b[24];
      ev_begin("precip");
      if (rc->recipient_id)
        ev_hex("rid", rc->recipient_id->s, rc->recipient_id->length);
      ev_int("last_seq", (long)rc->last_seq);
      snprintf(b, sizeof(b), "%016llx", (unsigned long long)rc->sliding_window);
      ev_str("window", b);
      ev_int("initial_state", rc->initial_state);
      ev_end();
    }
  }
}

static void
cmd_urihelpers(void) {
  /* urihelpers <n> <sid> <urihex>: coap_new_uri, coap_uri_into_optlist,
   * coap_path_into_optlist, coap_query_into_optlist, coap_add_optlist_pdu, coap_send */
  int n = atoi(tok[1]);
  coap_session_t *s = get_sess(n, atol(tok[2]));
  size_t len;
  uint8_t *u = vf_unhex(tok[3], strlen(tok[3]), &len);
  coap_uri_t *uri = coap_new_uri(u, (unsigned)len);
  coap_optlist_t *chain = NULL;
  int r1 = -1, r2 = -1, r3 = -1, r4 = -1;
  coap_mid_t mid = COAP_INVALID_MID;
  if (uri) {
    coap_uri_t *c2 = coap_clone_uri(uri);
    r1 = coap_uri_into_optlist(uri, s ? coap_session_get_addr_remote(s) : NULL, &chain, 1);
    if (c2)
      coap_delete_uri(c2);
    {
      /* what the helper put into the list, next to what it reported */
      coap_optlist_t *o;
      char buf[1024];
      size_t pos = 0;
      buf[0] = 0;
      for (o = chain; o && pos + 600 < sizeof(buf); o = o->next) {
        size_t i;
        pos += (size_t)snprintf(buf + pos, sizeof(buf) - pos, "%s%u=", pos ? ";" : "", o->number);
        for (i = 0; i < o->length && i < 256; i++)
          pos += (size_t)snprintf(buf + pos, sizeof(buf) - pos, "%02x", o->data[i]);
      }
      ev_begin("urichain");
      ev_int("r", r1);
      ev_int("dst", s != NULL);
      ev_str("opts", buf);
      ev_end();
    }
  }
  r2 = coap_path_into_optlist((const uint8_t *)"x/y/../z", 8, COAP_OPTION_LOCATION_PATH, &chain);
  r3 = coap_query_into_optlist((const uint8_t *)"a=1&b", 5, COAP_OPTION_LOCATION_QUERY, &chain);
  if (s) {
    coap_pdu_t *pdu = coap_new_pdu(COAP_MESSAGE_CON, COAP_REQUEST_CODE_GET, s);
    if (pdu) {
      uint8_t t4[4] = {0xA7, 1, 2, 3};
      coap_add_token(pdu, 4, t4);
      r4 = coap_add_optlist_pdu(pdu, &chain);
      mid = coap_send(s, pdu);
    }
  }
  coap_delete_optlist(chain);
  if (uri)
    coap_delete_uri(uri);
  free(u);
  ev_begin("urihelpers");
  ev_int("uri", uri != NULL);
  ev_int("r1", r1);
  ev_int("r2", r2);
  ev_int("r3", r3);
  ev_int("r4", r4);
  ev_int("mid", mid);
  ev_end();
}

static void
cmd_peekobs(void) {
  /* grey-box, auxiliary: the subscribers the library currently holds */
  node_t *nd = &nodes[atoi(tok[1])];
  RESOURCES_ITER(nd->ctx->resources, r) {
    coap_subscription_t *s;
    LL_FOREACH(r->subscribers, s) {
      ev_begin("psub");
      ev_hex("res", r->uri_path->s, r->uri_path->length);
      ev_int("sess", sess_id(s->session));
      ev_addr("remote", &s->session->addr_info.remote);
      ev_hex("tok", s->pdu->actual_token.s, s->pdu->actual_token.length);
      ev_int("dirty", s->dirty);
      ev_int("fail_cnt", s->fail_cnt);
      ev_int("non_cnt", s->non_cnt);
      ev_end();
    }
    ev_begin("pres");
    ev_hex("res", r->uri_path->s, r->uri_path->length);
    ev_int("dirty", r->dirty);
    ev_int("partiallydirty", r->partiallydirty);
    ev_int("observe", (long)r->observe);
    ev_end();
  }
}

extern char vf_pdir[256];
extern long vf_pop_ord, vf_pop_kill_at;
extern int vf_pop_log;

static void
cmd_persist(void) {
  /* persist <n> <dir> freq=<k> [files=dyn,obs,cnt]   coap_persist_startup on that directory */
  node_t *nd = &nodes[atoi(tok[1])];
  char a[300], b[300], c[300];
  const char *files = kv("files", "dyn,obs,cnt");
  int r;
  snprintf(vf_pdir, sizeof(vf_pdir), "%s", tok[2]);
  snprintf(a, sizeof(a), "%s/dyn", vf_pdir);
  snprintf(b, sizeof(b), "%s/obs", vf_pdir);
  snprintf(c, sizeof(c), "%s/cnt", vf_pdir);
  r = coap_persist_startup(nd->ctx, strstr(files, "dyn") ? a : NULL, strstr(files, "obs") ? b : NULL,
                           strstr(files, "cnt") ? c : NULL, (uint32_t)kvi("freq", 1));
  ev_begin("persist");
  ev_int("r", r);
  ev_int("pops", vf_pop_ord);
  ev_int("sz_key", (long)sizeof(coap_subscription_t *));
  ev_int("sz_proto", (long)sizeof(coap_proto_t));
  ev_int("sz_addr", (long)sizeof(coap_address_t));
  ev_int("sz_tuple", (long)sizeof(coap_addr_tuple_t));
  ev_int("off_local", (long)offsetof(coap_addr_tuple_t, local));
  ev_int("off_sa", (long)offsetof(coap_address_t, addr));
  ev_end();
}

static void
free_node(int n) {
  node_t *nd = &nodes[n];
  int i;
  if (!nd->used)
    return;
  vf_cur_node = n;
  for (i = 0; i < nd->nheld; i++)
    coap_session_release(nd->held[i]);
  nd->nheld = 0;
  for (i = 0; i < MAX_SESS; i++)
    if (nd->cs[i].used) {
      coap_session_release(nd->cs[i].s);
      nd->cs[i].used = 0;
    }
  coap_free_context(nd->ctx);
  nd->ctx = NULL;
  nd->used = 0;
  for (i = 0; i < nd->nrc; i++) {
    int k;
    free(nd->rc[i]->fixed);
    free(nd->rc[i]->stored);
    for (k = 0; k < nd->rc[i]->nropts; k++)
      free(nd->rc[i]->ropts[k].v);
    free(nd->rc[i]);
  }
  nd->nrc = 0;
  ev_begin("freed");
  ev_end();
}

static void
run_command(void) {
  const char *c = tok[0];
  static const char *noded[] = {"node", "ctx", "ep", "res", "resmod", "delres", "sess", "send", "notify",
                                "prepare", "io", "peek", "peekobs", "psk", "persist", "persist_stop", "urihelpers", "oscore_server", "peekosc", "verdict", "cancelobs", "release",
                                "disconnect", "appref", "apprelease", "freenode", NULL};
  int i;
  for (i = 0; noded[i]; i++)
    if (!strcmp(c, noded[i]) && ntok > 1) {
      vf_cur_node = atoi(tok[1]);
      if (vf_cur_node < 0 || vf_cur_node >= VF_MAX_NODES ||
          (strcmp(c, "node") && !nodes[vf_cur_node].used)) {
        ev_begin("error");
        ev_str("what", "bad-node");
        ev_end();
        return;
      }
    }
  if (!strcmp(c, "node"))
    cmd_node();
  else if (!strcmp(c, "ctx"))
    cmd_ctx();
  else if (!strcmp(c, "ep"))
    cmd_ep();
  else if (!strcmp(c, "res"))
    cmd_res();
  else if (!strcmp(c, "resmod"))
    cmd_resmod();
  else if (!strcmp(c, "delres"))
    cmd_delres();
  else if (!strcmp(c, "sess"))
    cmd_sess();
  else if (!strcmp(c, "send"))
    cmd_send();
  else if (!strcmp(c, "notify"))
    cmd_notify();
  else if (!strcmp(c, "prepare"))
    cmd_prepare();
  else if (!strcmp(c, "io"))
    do_io(atoi(tok[1]));
  else if (!strcmp(c, "deliver"))
    cmd_deliver();
  else if (!strcmp(c, "tcp_accept"))
    cmd_tcp_accept();
  else if (!strcmp(c, "stream") || !strcmp(c, "stream_close"))
    cmd_stream();
  else if (!strcmp(c, "advance"))
    vf_now_ms += (uint64_t)strtoull(tok[1], NULL, 10);
  else if (!strcmp(c, "peek"))
    cmd_peek();
  else if (!strcmp(c, "peekobs"))
    cmd_peekobs();
  else if (!strcmp(c, "psk"))
    cmd_psk();
  else if (!strcmp(c, "persist"))
    cmd_persist();
  else if (!strcmp(c, "persist_stop"))
    coap_persist_stop(nodes[atoi(tok[1])].ctx);
  else if (!strcmp(c, "popkill"))
    vf_pop_kill_at = atol(tok[1]);
  else if (!strcmp(c, "poplog"))
    vf_pop_log = atoi(tok[1]);
  else if (!strcmp(c, "fullpayload"))
    vf_full_payload = atoi(tok[1]);
  else if (!strcmp(c, "pops")) {
    ev_begin("pops");
    ev_int("ord", vf_pop_ord);
    ev_end();
  } else if (!strcmp(c, "urihelpers"))
    cmd_urihelpers();
  else if (!strcmp(c, "oscore_server"))
    cmd_oscore_server();
  else if (!strcmp(c, "peekosc"))
    cmd_peekosc();
  else if (!strcmp(c, "seed")) {
    prng_state = strtoull(tok[1], NULL, 10) * 2685821657736338717ULL + 1442695040888963407ULL;
    if (!prng_state)
      prng_state = 1;
  } else if (!strcmp(c, "pin"))
    prng_pin = atoi(tok[1]);
  else if (!strcmp(c, "failalloc")) {
    vf_fail_at = vf_alloc_ord + atol(tok[1]);
    vf_fail_at2 = ntok > 2 ? vf_alloc_ord + atol(tok[2]) : 0;
    if (atol(tok[1]) == 0)
      vf_fail_at = vf_fail_at2 = 0;
  } else if (!strcmp(c, "allocs")) {
    ev_begin("allocs");
    ev_int("ord", vf_alloc_ord);
    ev_int("fails", vf_alloc_fails);
    ev_end();
  } else if (!strcmp(c, "failsend"))
    vf_send_fail_countdown = atoi(tok[1]);
  else if (!strcmp(c, "trigger")) {
    /* trigger <n> : the application is ready to answer every request it deferred with an
     * untimed async entry */
    node_t *nd = &nodes[atoi(tok[1])];
    int i, n = 0;
    for (i = 0; i < nd->npend; i++) {
      coap_session_t *s = sess_by_id(nd->pend[i].sid);
      coap_bin_const_t t = {nd->pend[i].toklen, nd->pend[i].tok};
      coap_async_t *as = s ? coap_find_async(s, t) : NULL;
      if (as) {
        coap_async_trigger(as);
        n++;
      }
    }
    nd->npend = 0;
    ev_begin("triggered");
    ev_int("n", n);
    ev_end();
  } else if (!strcmp(c, "chain")) {
    /* chain <n> <trigger tokhex> <new tokhex> [type=0] */
    node_t *nd = &nodes[atoi(tok[1])];
    size_t al, bl;
    uint8_t *a = vf_unhex(tok[2], strlen(tok[2]), &al);
    uint8_t *b = vf_unhex(tok[3], strlen(tok[3]), &bl);
    if (nd->nchain < 32 && al <= 16 && bl <= 16) {
      memcpy(nd->chain[nd->nchain].trig, a, al);
      nd->chain[nd->nchain].triglen = al;
      memcpy(nd->chain[nd->nchain].tok, b, bl);
      nd->chain[nd->nchain].toklen = bl;
      nd->chain[nd->nchain].type = kvi("type", 0);
      nd->chain[nd->nchain].used = 0;
      nd->nchain++;
    }
    free(a);
    free(b);
  }
  else if (!strcmp(c, "verdict")) {
    /* verdict <n> <tokhex>  : response handler returns FAIL for this token */
    node_t *nd = &nodes[atoi(tok[1])];
    size_t tl;
    uint8_t *t = vf_unhex(tok[2], strlen(tok[2]), &tl);
    if (nd->nfailtok < 16 && tl <= 16) {
      memcpy(nd->failtok[nd->nfailtok], t, tl);
      nd->failtoklen[nd->nfailtok++] = tl;
    }
    free(t);
  } else if (!strcmp(c, "cancelobs")) {
    /* cancelobs <n> <sid> <tokhex> <type> */
    coap_session_t *s = get_sess(atoi(tok[1]), atol(tok[2]));
    size_t tl;
    uint8_t *t = vf_unhex(tok[3], strlen(tok[3]), &tl);
    coap_binary_t *bt = coap_new_binary(tl);
    int r = -1;
    vf_cur_node = atoi(tok[1]);
    if (bt) {
      memcpy(bt->s, t, tl);
      r = s ? coap_cancel_observe(s, bt, (coap_pdu_type_t)atoi(tok[4])) : -1;
      coap_delete_binary(bt);
    }
    free(t);
    ev_begin("cancelobs");
    ev_int("r", r);
    ev_end();
  } else if (!strcmp(c, "release")) {
    /* release <n> <sid>: drop the application's reference to a client session */
    node_t *nd = &nodes[atoi(tok[1])];
    int sid = atoi(tok[2]);
    vf_cur_node = atoi(tok[1]);
    if (sid >= 0 && sid < MAX_SESS && nd->cs[sid].used) {
      coap_session_release(nd->cs[sid].s);
      nd->cs[sid].used = 0;
    }
  } else if (!strcmp(c, "disconnect")) {
    coap_session_t *s = get_sess(atoi(tok[1]), atol(tok[2]));
    vf_cur_node = atoi(tok[1]);
    if (s)
      coap_session_disconnected(s, (coap_nack_reason_t)kvi("reason", COAP_NACK_NOT_DELIVERABLE));
  } else if (!strcmp(c, "appref")) {
    /* appref <n> <server-session-id> */
    node_t *nd = &nodes[atoi(tok[1])];
    coap_session_t *s = sess_by_id(atol(tok[2]));
    vf_cur_node = atoi(tok[1]);
    if (s && nd->nheld < 64)
      nd->held[nd->nheld++] = coap_session_reference(s);
    ev_begin("appref");
    ev_int("ok", s != NULL);
    ev_end();
  } else if (!strcmp(c, "apprelease")) {
    /* apprelease <n> <server-session-id|all> */
    node_t *nd = &nodes[atoi(tok[1])];
    int i, k = 0;
    vf_cur_node = atoi(tok[1]);
    for (i = 0; i < nd->nheld; i++) {
      if (!strcmp(tok[2], "all") || sess_id(nd->held[i]) == atol(tok[2]))
        coap_session_release(nd->held[i]);
      else
        nd->held[k++] = nd->held[i];
    }
    nd->nheld = k;
  } else if (!strcmp(c, "freenode"))
    free_node(atoi(tok[1]));
  else if (!strcmp(c, "log")) {
    coap_set_log_level((coap_log_t)atoi(tok[1]));
    coap_set_log_handler(ntok > 2 && !strcmp(tok[2], "stderr") ? stderr_log : null_log);
  } else if (!strcmp(c, "realclock"))
    vf_real_clock = atoi(tok[1]);
  else {
    ev_begin("error");
    ev_str("what", "unknown-command");
    ev_str("cmd", c);
    ev_end();
  }
}

static void
vf_flush_on_death(void) {
  fflush(stdout);
}

int
main(void) {
  char *line = NULL;
  size_t cap = 0;
  ssize_t n;
  static char obuf[1 << 16];
  int i;

  setvbuf(stdout, obuf, _IOFBF, sizeof(obuf));
  /* events produced before a sanitizer kills the process must not be lost */
  if (__sanitizer_set_death_callback)
    __sanitizer_set_death_callback(vf_flush_on_death);
  coap_startup();
  vf_tls_virtual_clock();
  coap_set_prng(vf_prng);
  coap_set_show_pdu_output(0);
  coap_set_log_handler(null_log);
  coap_set_log_level(COAP_LOG_DEBUG);
  if (getenv("VF_LOG")) {
    coap_set_log_handler(stderr_log);
    coap_set_log_level((coap_log_t)atoi(getenv("VF_LOG")));
  }

  while ((n = getline(&line, &cap, stdin)) > 0) {
    char *save = NULL, *t;
    ntok = 0;
    for (t = strtok_r(line, " \t\r\n", &save); t && ntok < MAXTOK; t = strtok_r(NULL, " \t\r\n", &save))
      tok[ntok++] = t;
    if (!ntok)
      continue;
    if (!strcmp(tok[0], "quit"))
      break;
    ev_begin("call");
    ev_str("cmd", tok[0]);
    ev_end();
    fflush(stdout);
    run_command();
    vf_cur_node = -1;
    ev_begin("done");
    ev_end();
    fflush(stdout);
  }
  free(line);
  for (i = 0; i < VF_MAX_NODES; i++)
    free_node(i);
  vf_cur_node = -1;
  coap_cleanup();
  vf_shadow_report();
  ev_begin("bye");
  ev_end();
  fflush(stdout);
  return 0;
}
