/* pure.c - batch differential driver for libcoap's stateless APIs.
 *
 * Reads cases from stdin, one per line, runs each on exact-size heap copies of
 * its inputs and writes one canonical result line per case to stdout:
 *
 *     <case-index> <result-of-step-1>|<result-of-step-2>|...
 *
 * Case kinds (first token of the line):
 *   P  <step> <step> ...      PDU build / parse / edit program (C01, C03, C04)
 *   U  ...                    URI functions (C16)        -> pure_uri.c
 *   W  ...                    link-format printing (C20) -> pure_wk.c
 *
 * The process is deterministic; a sanitizer report kills it, the death
 * callback prints "VF-CASE <index>" on stderr so the driver can attribute the
 * report to one case and carry on behind it.
 */
#include "common.h"
#include <ctype.h>

volatile long vf_cur_case = -1;

void __sanitizer_set_death_callback(void (*cb)(void)) __attribute__((weak));

static void
vf_death(void) {
  char buf[64];
  int n = snprintf(buf, sizeof(buf), "\nVF-CASE %ld\n", vf_cur_case);
  fflush(stdout);
  if (write(2, buf, (size_t)n) < 0) {
  }
}

static void
vf_sig(int sig) {
  vf_death();
  signal(sig, SIG_DFL);
  raise(sig);
}

void
vf_install_death_report(void) {
  if (__sanitizer_set_death_callback)
    __sanitizer_set_death_callback(vf_death);
  else {
    signal(SIGABRT, vf_sig);
    signal(SIGSEGV, vf_sig);
    signal(SIGBUS, vf_sig);
    signal(SIGFPE, vf_sig);
  }
}

/* ------------------------------------------------------------------ */

static coap_context_t *g_ctx;
static coap_session_t *g_sess;

static coap_session_t *
get_session(void) {
  if (!g_sess) {
    coap_address_t a;
    g_ctx = coap_new_context(NULL);
    coap_address_init(&a);
    a.addr.sin.sin_family = AF_INET;
    a.addr.sin.sin_port = htons(5683);
    a.addr.sin.sin_addr.s_addr = htonl(0x7f000001);
    a.size = sizeof(struct sockaddr_in);
    g_sess = coap_new_client_session(g_ctx, NULL, &a, COAP_PROTO_UDP);
    if (!g_sess) {
      fprintf(stderr, "VF-HARNESS cannot create session\n");
      exit(3);
    }
    /* allow RFC 8974 extended tokens on this session */
    coap_context_set_max_token_size(g_ctx, COAP_TOKEN_EXT_MAX);
  }
  return g_sess;
}

static coap_proto_t
proto_of(const char *s) {
  if (!strncmp(s, "udp", 3))
    return COAP_PROTO_UDP;
  if (!strncmp(s, "dtls", 4))
    return COAP_PROTO_DTLS;
  if (!strncmp(s, "tcp", 3))
    return COAP_PROTO_TCP;
  if (!strncmp(s, "tls", 3))
    return COAP_PROTO_TLS;
  if (!strncmp(s, "wss", 3))
    return COAP_PROTO_WSS;
  if (!strncmp(s, "ws", 2))
    return COAP_PROTO_WS;
  return COAP_PROTO_NONE;
}

static void
dump_pdu(FILE *f, const coap_pdu_t *pdu) {
  coap_opt_iterator_t oi;
  coap_opt_t *opt;
  coap_bin_const_t tok;
  size_t len = 0;
  const uint8_t *data = NULL;
  int first = 1;

  if (!pdu) {
    fputs("D null", f);
    return;
  }
  tok = coap_pdu_get_token(pdu);
  fprintf(f, "D %d %d %d ", (int)coap_pdu_get_type(pdu), (int)coap_pdu_get_code(pdu),
          (int)coap_pdu_get_mid(pdu));
  vf_puthex(f, tok.s, tok.length);
  fputc(' ', f);
  coap_option_iterator_init(pdu, &oi, COAP_OPT_ALL);
  while ((opt = coap_option_next(&oi))) {
    if (!first)
      fputc(';', f);
    first = 0;
    fprintf(f, "%u=", (unsigned)oi.number);
    vf_puthex(f, coap_opt_value(opt), coap_opt_length(opt));
  }
  if (first)
    fputc('-', f);
  fputc(' ', f);
  if (coap_get_data(pdu, &len, &data))
    vf_puthex(f, data, len);
  else
    fputc('-', f);
}

/* split "a:b:c" in place; returns number of fields */
static int
split(char *s, char sep, char **out, int max) {
  int n = 0;
  out[n++] = s;
  while (*s && n < max) {
    if (*s == sep) {
      *s = 0;
      out[n++] = s + 1;
    }
    s++;
  }
  return n;
}

static void
run_pdu_program(char *line, FILE *out) {
  coap_pdu_t *cur = NULL;
  char *save = NULL;
  char *step;
  int firststep = 1;
  int last_parse = 0;

  for (step = strtok_r(line, " \t\r\n", &save); step;
       step = strtok_r(NULL, " \t\r\n", &save)) {
    char *f[6];
    int nf;

    if (!firststep)
      fputc('|', out);
    firststep = 0;

    if (!strncmp(step, "init:", 5)) {
      nf = split(step, ':', f, 5);
      if (cur)
        coap_delete_pdu(cur);
      cur = NULL;
      if (nf == 5)
        cur = coap_pdu_init((coap_pdu_type_t)atoi(f[1]), (coap_pdu_code_t)atoi(f[2]),
                            atoi(f[3]), strtoul(f[4], NULL, 10));
      fprintf(out, "%d", cur != NULL);
    } else if (!strncmp(step, "parse:", 6)) {
      /* parse:PROTO:MAXSIZE:HEX  (MAXSIZE "len" = exactly the message length) */
      size_t len;
      uint8_t *buf;
      size_t maxsize;
      int r = 0;
      nf = split(step, ':', f, 4);
      if (cur)
        coap_delete_pdu(cur);
      cur = NULL;
      if (nf == 4) {
        buf = vf_unhex(f[3], strlen(f[3]), &len);
        maxsize = !strcmp(f[2], "len") ? len : strtoul(f[2], NULL, 10);
        cur = coap_pdu_init(0, 0, 0, maxsize);
        if (cur)
          r = coap_pdu_parse(proto_of(f[1]), buf, len, cur);
        free(buf);
      }
      last_parse = r;
      fprintf(out, "%d", r);
    } else if (!strncmp(step, "psize:", 6)) {
      /* psize:PROTO:HEX - stream framing: header size and message size as the
       * stream reader computes them from header + extended-token-length bytes */
      size_t len, hs, ext, tkl;
      uint8_t *buf;
      coap_proto_t proto;
      nf = split(step, ':', f, 3);
      proto = proto_of(f[1]);
      buf = vf_unhex(f[2], strlen(f[2]), &len);
      if (len < 1) {
        fputs("short", out);
      } else {
        hs = coap_pdu_parse_header_size(proto, buf);
        tkl = buf[0] & 0x0f;
        ext = tkl == 13 ? 1 : tkl == 14 ? 2 : 0;
        if (!hs || len < hs + ext) {
          fprintf(out, "%zu short", hs);
        } else {
          uint8_t *pre = vf_exact(buf, hs + ext);
          fprintf(out, "%zu %zu", hs, coap_pdu_parse_size(proto, pre, hs + ext));
          free(pre);
        }
      }
      free(buf);
    } else if (!cur) {
      fputs("nopdu", out);
    } else if (!strncmp(step, "tok:", 4) || !strncmp(step, "utok:", 5)) {
      size_t len;
      uint8_t *buf;
      int r;
      nf = split(step, ':', f, 2);
      buf = vf_unhex(f[1], strlen(f[1]), &len);
      if (step[0] == 'u')
        r = coap_update_token(cur, len, buf);
      else
        r = coap_add_token(cur, len, buf);
      free(buf);
      fprintf(out, "%d", r);
    } else if (!strncmp(step, "opt:", 4) || !strncmp(step, "ins:", 4) ||
               !strncmp(step, "upd:", 4)) {
      size_t len;
      uint8_t *buf;
      size_t r;
      nf = split(step, ':', f, 3);
      buf = vf_unhex(f[2], strlen(f[2]), &len);
      if (step[0] == 'o')
        r = coap_add_option(cur, (coap_option_num_t)atoi(f[1]), len, buf);
      else if (step[0] == 'i')
        r = coap_insert_option(cur, (coap_option_num_t)atoi(f[1]), len, buf);
      else
        r = coap_update_option(cur, (coap_option_num_t)atoi(f[1]), len, buf);
      free(buf);
      fprintf(out, "%zu", r);
    } else if (!strncmp(step, "rem:", 4)) {
      nf = split(step, ':', f, 2);
      fprintf(out, "%d", coap_remove_option(cur, (coap_option_num_t)atoi(f[1])));
    } else if (!strncmp(step, "data:", 5) || !strncmp(step, "dafter:", 7)) {
      size_t len;
      uint8_t *buf;
      int r;
      nf = split(step, ':', f, 2);
      buf = vf_unhex(f[1], strlen(f[1]), &len);
      if (step[1] == 'a' && step[2] == 't') {
        r = coap_add_data(cur, len, buf);
      } else {
        uint8_t *p = coap_add_data_after(cur, len);
        if (p)
          memcpy(p, buf, len);
        r = p != NULL;
      }
      free(buf);
      fprintf(out, "%d", r);
    } else if (!strncmp(step, "olist:", 6)) {
      /* olist:N=HEX,N=HEX,... */
      coap_optlist_t *head = NULL;
      char *items[64];
      int ni, i, r, okl = 1;
      nf = split(step, ':', f, 2);
      ni = split(f[1], ',', items, 64);
      for (i = 0; i < ni; i++) {
        char *kv[2];
        size_t len;
        uint8_t *buf;
        if (split(items[i], '=', kv, 2) != 2)
          continue;
        buf = vf_unhex(kv[1], strlen(kv[1]), &len);
        okl &= coap_insert_optlist(&head, coap_new_optlist((uint16_t)atoi(kv[0]), len, buf));
        free(buf);
      }
      r = coap_add_optlist_pdu(cur, &head);
      coap_delete_optlist(head);
      fprintf(out, "%d", r && okl);
    } else if (!strncmp(step, "dup:", 4)) {
      /* dup:TOKHEX:N,N,..   ("*" = NULL filter) */
      size_t len;
      uint8_t *buf;
      coap_opt_filter_t filt;
      coap_pdu_t *n;
      int usefilt = 0;
      nf = split(step, ':', f, 3);
      buf = vf_unhex(f[1], strlen(f[1]), &len);
      coap_option_filter_clear(&filt);
      if (nf == 3 && strcmp(f[2], "*")) {
        char *items[32];
        int ni, i;
        usefilt = 1;
        ni = split(f[2], ',', items, 32);
        for (i = 0; i < ni; i++)
          if (items[i][0] && items[i][0] != '-')
            coap_option_filter_set(&filt, (coap_option_num_t)atoi(items[i]));
      }
      n = coap_pdu_duplicate_lkd(cur, get_session(), len, buf, usefilt ? &filt : NULL);
      free(buf);
      if (n) {
        /* keep the mid comparable: the duplicate draws a fresh one */
        coap_pdu_set_mid(n, coap_pdu_get_mid(cur));
        coap_delete_pdu(cur);
        cur = n;
      }
      fprintf(out, "%d", n != NULL);
    } else if (!strcmp(step, "dump")) {
      dump_pdu(out, cur);
    } else if (!strcmp(step, "cdump")) {
      /* dump only a PDU the parser accepted */
      if (last_parse > 0)
        dump_pdu(out, cur);
      else
        fputs("rejected", out);
    } else if (!strncmp(step, "enc:", 4)) {
      size_t h;
      nf = split(step, ':', f, 2);
      h = coap_pdu_encode_header(cur, proto_of(f[1]));
      fprintf(out, "%zu ", h);
      if (h)
        vf_puthex(out, cur->token - cur->hdr_size, cur->hdr_size + cur->used_size);
      else
        fputc('-', out);
    } else if (!strncmp(step, "reparse:", 8)) {
      size_t h;
      coap_proto_t proto;
      nf = split(step, ':', f, 2);
      proto = proto_of(f[1]);
      h = coap_pdu_encode_header(cur, proto);
      if (!h) {
        fputs("E0", out);
      } else {
        size_t len = cur->hdr_size + cur->used_size;
        uint8_t *buf = vf_exact(cur->token - cur->hdr_size, len);
        coap_pdu_t *n = coap_pdu_init(0, 0, 0, len);
        int r = n ? coap_pdu_parse(proto, buf, len, n) : -1;
        fprintf(out, "%d ", r);
        if (r > 0)
          dump_pdu(out, n);
        else
          fputc('-', out);
        coap_delete_pdu(n);
        free(buf);
      }
    } else {
      fputs("?", out);
    }
  }
  if (cur)
    coap_delete_pdu(cur);
}

void run_uri_case(char *line, FILE *out);
void run_wk_case(char *line, FILE *out);

static void
null_log(coap_log_t level, const char *message) {
  (void)level;
  (void)message;
}

int
main(int argc, char **argv) {
  char *line = NULL;
  size_t cap = 0;
  ssize_t n;
  long idx = 0;
  long base = argc > 1 ? atol(argv[1]) : 0;
  static char obuf[1 << 20];

  setvbuf(stdout, obuf, _IOFBF, sizeof(obuf));
  vf_install_death_report();
  coap_startup();
  coap_set_show_pdu_output(0);
  /* walk every log statement (they format their arguments) but print nothing */
  coap_set_log_handler(null_log);
  coap_set_log_level(COAP_LOG_DEBUG);
  if (getenv("VF_LOG"))
    coap_set_log_handler(NULL);

  while ((n = getline(&line, &cap, stdin)) > 0) {
    vf_cur_case = base + idx;
    fprintf(stdout, "%ld ", base + idx);
    if (line[0] == 'P' && line[1] == ' ')
      run_pdu_program(line + 2, stdout);
    else if (line[0] == 'U' && line[1] == ' ')
      run_uri_case(line + 2, stdout);
    else if (line[0] == 'W' && line[1] == ' ')
      run_wk_case(line + 2, stdout);
    else
      fputs("?kind", stdout);
    fputc('\n', stdout);
    idx++;
  }
  free(line);
  vf_cur_case = -1;
  if (g_sess)
    coap_session_release(g_sess);
  if (g_ctx)
    coap_free_context(g_ctx);
  coap_cleanup();
  fflush(stdout);
  return 0;
}
