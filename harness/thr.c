/* C13 stress: N application threads use the public API of two contexts (a server and
 * a client talking over real loopback UDP + TCP) while one thread per context sits in
 * coap_io_process(); every callback type is registered and re-enters the API.
 * Meant to be built with -fsanitize=thread against a thread-safe libcoap build.
 *
 *   thr <workers> <ops-per-worker> <seed> [stall-seconds] [dual-io]
 *
 * dual-io=1 lets the workers call coap_io_pending(), i.e. process I/O of a context
 * whose I/O loop runs in another thread at the same time.
 *
 * Prints one JSON line with what happened.  Exit 0 = all work completed and accounted
 * for, 3 = no progress for stall-seconds (witnessed deadlock), 4 = unanswered requests,
 * 5 = set-up failure.  ThreadSanitizer reports go to TSAN_OPTIONS' log_path. */
#include "coap3/coap_libcoap_build.h"
#include <pthread.h>
#include <signal.h>
#include <stdatomic.h>
#include <stdio.h>
#include <stdlib.h>
#include <string.h>
#include <unistd.h>
#include <time.h>
#include <sys/wait.h>

#define MAXW 16
#define MAXSEQ (1 << 16)

static coap_context_t *srv, *cli;
static coap_resource_t *res_r, *res_o, *res_sep;
static coap_address_t srv_addr, dead_addr;
static atomic_int stop_io;
static int dual_io;
static atomic_long progress[MAXW + 4];
static const char *_Atomic cur_op_of[MAXW + 4];
static __thread int my_slot = -1;
static __thread const char *cur_op = "idle";

/* counters */
static atomic_long n_req_handler, n_rsp_handler, n_nack_handler, n_event_handler, n_ping_handler,
       n_pong_handler, n_reentry_calls, n_notify_rsp, n_sent_con, n_sent_non, n_send_fail;
static atomic_long op_count[16];
static atomic_uchar answered[MAXW][MAXSEQ], nacked[MAXW][MAXSEQ], sent[MAXW][MAXSEQ];

/* ---- lock monitor: link-time wrap of the library's lock functions ------------- */
static long lock_acq, lock_handover; /* protected by the global lock itself */
static int last_owner = -1;
static const char *last_op = "";
#define MAXPAIR 512
static struct {
  const char *a, *b;
} pairs[MAXPAIR];
static int npairs;
static atomic_long lock_calls;
static atomic_long failed_ctx_calls;

#ifdef VF_RC
int __real_coap_lock_lock_func(const char *file, int line) __attribute__((weak));
int
__wrap_coap_lock_lock_func(const char *file, int line) {
  int r = __real_coap_lock_lock_func(file, line);
#else
int __real_coap_lock_lock_func(void) __attribute__((weak));
int
__wrap_coap_lock_lock_func(void) {
  int r = __real_coap_lock_lock_func();
#endif
  atomic_fetch_add(&lock_calls, 1);
  if (r) {
    /* we own the library lock here */
    lock_acq++;
    if (last_owner != my_slot) {
      int i;
      lock_handover++;
      for (i = 0; i < npairs; i++)
        if (pairs[i].a == last_op && pairs[i].b == cur_op)
          break;
      if (i == npairs && npairs < MAXPAIR) {
        pairs[npairs].a = last_op;
        pairs[npairs].b = cur_op;
        npairs++;
      }
    }
    last_owner = my_slot;
    last_op = cur_op;
  }
  return r;
}

static void
op(const char *name) {
  cur_op = name;
  if (my_slot >= 0)
    atomic_store(&cur_op_of[my_slot], name);
}

static void
tick(void) {
  if (my_slot >= 0)
    atomic_fetch_add(&progress[my_slot], 1);
}

/* ---- PRNG per thread ------------------------------------------------------------- */
static __thread uint64_t rs;
static uint32_t
rnd(void) {
  rs ^= rs << 13;
  rs ^= rs >> 7;
  rs ^= rs << 17;
  return (uint32_t)(rs >> 11);
}

/* ---- tokens: kind, worker, seq ------------------------------------------------------ */
static void
mk_token(uint8_t *t, int kind, int w, uint32_t seq) {
  t[0] = (uint8_t)kind;
  t[1] = (uint8_t)w;
  t[2] = (uint8_t)(seq >> 8);
  t[3] = (uint8_t)seq;
}

static __thread int cur_what = 0;
static int
send_req(coap_session_t *s, int type, int code, const char *path, int kind, int w, uint32_t seq,
         int observe) {
  uint8_t tok[4];
  uint8_t buf[4];
  coap_pdu_t *pdu = coap_new_pdu((coap_pdu_type_t)type, (coap_pdu_code_t)code, s);
  if (!pdu)
    return 0;
  mk_token(tok, kind, w, seq);
  coap_add_token(pdu, 4, tok);
  if (observe >= 0)
    coap_add_option(pdu, COAP_OPTION_OBSERVE, coap_encode_var_safe(buf, sizeof(buf), (unsigned)observe),
                    buf);
  coap_add_option(pdu, COAP_OPTION_URI_PATH, strlen(path), (const uint8_t *)path);
  if (kind == 1 && type == COAP_MESSAGE_CON)
    atomic_store(&sent[w][seq % MAXSEQ], (unsigned char)(1 + cur_what + (path[0] == 's' ? 32 : 0) +
                                                        (coap_session_get_proto(s) == COAP_PROTO_TCP ? 64 : 0)));
  if (coap_send(s, pdu) == COAP_INVALID_MID) {
    if (kind == 1 && type == COAP_MESSAGE_CON)
      atomic_store(&sent[w][seq % MAXSEQ], 0);
    atomic_fetch_add(&n_send_fail, 1);
    return 0;
  }
  atomic_fetch_add(type == COAP_MESSAGE_CON ? &n_sent_con : &n_sent_non, 1);
  return 1;
}

/* ---- callbacks --------------------------------------------------------------------- */
static void
hnd_get(coap_resource_t *resource, coap_session_t *session, const coap_pdu_t *request,
        const coap_string_t *query, coap_pdu_t *response) {
  const char *save = cur_op;
  (void)query;
  op("request-handler");
  atomic_fetch_add(&n_req_handler, 1);
  coap_pdu_set_code(response, COAP_RESPONSE_CODE_CONTENT);
  coap_add_data(response, 5, (const uint8_t *)"hello");
  /* re-enter the API from the handler (the library released its lock around us) */
  if (resource == res_r && (atomic_load(&n_req_handler) & 3) == 0) {
    coap_resource_notify_observers(res_o, NULL);
    atomic_fetch_add(&n_reentry_calls, 1);
  }
  if ((atomic_load(&n_req_handler) & 7) == 1) {
    coap_cache_entry_t *e = coap_cache_get_by_pdu(session, request, COAP_CACHE_IS_SESSION_BASED);
    if (!e)
      e = coap_new_cache_entry(session, request, COAP_CACHE_NOT_RECORD_PDU,
                               COAP_CACHE_IS_SESSION_BASED, 1);
    atomic_fetch_add(&n_reentry_calls, 1);
  }
  (void)coap_session_get_addr_remote(session);
  if ((rs & 15) == 0)
    sched_yield();
  op(save);
}

static void
hnd_sep(coap_resource_t *resource, coap_session_t *session, const coap_pdu_t *request,
        const coap_string_t *query, coap_pdu_t *response) {
  const char *save = cur_op;
  coap_async_t *as;
  (void)resource;
  (void)query;
  op("request-handler-async");
  atomic_fetch_add(&n_req_handler, 1);
  as = coap_find_async(session, coap_pdu_get_token(request));
  if (!as) {
    as = coap_register_async(session, request, COAP_TICKS_PER_SECOND / 50);
    atomic_fetch_add(&n_reentry_calls, 1);
    if (as) {
      op(save);
      return; /* empty ACK, response comes when the delay expires */
    }
  }
  /* the delayed re-run: the library removes the async entry itself when we return */
  coap_pdu_set_code(response, COAP_RESPONSE_CODE_CONTENT);
  coap_add_data(response, 3, (const uint8_t *)"sep");
  op(save);
}

static coap_response_t
hnd_rsp(coap_session_t *session, const coap_pdu_t *sent_pdu, const coap_pdu_t *received,
        const coap_mid_t mid) {
  coap_bin_const_t t = coap_pdu_get_token(received);
  const char *save = cur_op;
  (void)sent_pdu;
  (void)mid;
  op("response-handler");
  atomic_fetch_add(&n_rsp_handler, 1);
  if (t.length == 4) {
    int kind = t.s[0], w = t.s[1];
    uint32_t seq = ((uint32_t)t.s[2] << 8) | t.s[3];
    if (w < MAXW) {
      if (kind == 1) {
        atomic_store(&answered[w][seq % MAXSEQ], 1);
        /* re-enter: a follow-up NON request from inside the response handler */
        if ((seq & 7) == 3) {
          send_req(session, COAP_MESSAGE_NON, COAP_REQUEST_CODE_GET, "r", 3, w, seq, -1);
          atomic_fetch_add(&n_reentry_calls, 1);
        }
      } else if (kind == 2)
        atomic_fetch_add(&n_notify_rsp, 1);
    }
  }
  (void)coap_session_get_context(session);
  op(save);
  return COAP_RESPONSE_OK;
}

static void
hnd_nack(coap_session_t *session, const coap_pdu_t *sent_pdu, const coap_nack_reason_t reason,
         const coap_mid_t mid) {
  const char *save = cur_op;
  (void)reason;
  (void)mid;
  op("nack-handler");
  atomic_fetch_add(&n_nack_handler, 1);
  if (sent_pdu) {
    coap_bin_const_t t = coap_pdu_get_token(sent_pdu);
    if (t.length == 4 && t.s[0] == 1 && t.s[1] < MAXW)
      atomic_store(&nacked[t.s[1]][(((uint32_t)t.s[2] << 8) | t.s[3]) % MAXSEQ], 1);
  }
  /* re-enter */
  /* (not coap_io_pending()/coap_io_process(): the manual forbids I/O processing from a
   * callback, it would recurse into the same handler) */
  (void)coap_session_get_type(session);
  (void)coap_can_exit(coap_session_get_context(session));
  atomic_fetch_add(&n_reentry_calls, 1);
  op(save);
}

static int
hnd_event(coap_session_t *session, const coap_event_t event) {
  const char *save = cur_op;
  (void)event;
  op("event-handler");
  atomic_fetch_add(&n_event_handler, 1);
  /* re-enter */
  (void)coap_session_get_state(session);
  (void)coap_can_exit(coap_session_get_context(session));
  atomic_fetch_add(&n_reentry_calls, 1);
  op(save);
  return 0;
}

static void
hnd_ping(coap_session_t *session, const coap_pdu_t *received, const coap_mid_t mid) {
  const char *save = cur_op;
  (void)received;
  (void)mid;
  op("ping-handler");
  atomic_fetch_add(&n_ping_handler, 1);
  (void)coap_session_get_proto(session);
  (void)coap_can_exit(coap_session_get_context(session));
  op(save);
}

static void
hnd_pong(coap_session_t *session, const coap_pdu_t *received, const coap_mid_t mid) {
  const char *save = cur_op;
  (void)received;
  (void)mid;
  op("pong-handler");
  atomic_fetch_add(&n_pong_handler, 1);
  (void)coap_session_get_proto(session);
  (void)coap_can_exit(coap_session_get_context(session));
  op(save);
}

static atomic_long n_release_handler;
static void
release_ud(void *ud) {
  /* release-userdata handler: called from coap_delete_resource(); re-enters a locked API */
  const char *save = cur_op;
  coap_str_const_t nm = {1, (const uint8_t *)"r"};
  op("release-userdata-handler");
  atomic_fetch_add(&n_release_handler, 1);
  (void)coap_get_resource_from_uri_path(srv, &nm);
  atomic_fetch_add(&n_reentry_calls, 1);
  free(ud);
  op(save);
}

static void
nolog(coap_log_t level, const char *message) {
  (void)level;
  (void)message;
}

/* ---- threads ---------------------------------------------------------------------- */
static void *
io_thread(void *arg) {
  coap_context_t *ctx = (coap_context_t *)arg;
  my_slot = ctx == srv ? MAXW : MAXW + 1;
  rs = 0x9e3779b97f4a7c15ULL ^ (uint64_t)my_slot;
  op(ctx == srv ? "io-server" : "io-client");
  while (!atomic_load(&stop_io)) {
    coap_io_process(ctx, 20);
    tick();
  }
  return NULL;
}

/* Applications have signal handlers (SIGINT sets a quit flag, timers, child reaping): the I/O
 * threads' epoll_wait()/select() return EINTR at arbitrary moments */
static pthread_t io_tids[2];
static atomic_long n_signals;
static atomic_int stop_signals;

static void
on_sigusr1(int sig) {
  (void)sig;
}

static void *
signaller(void *arg) {
  (void)arg;
  while (!atomic_load(&stop_io) && !atomic_load(&stop_signals)) {
    pthread_kill(io_tids[atomic_load(&n_signals) & 1], SIGUSR1);
    atomic_fetch_add(&n_signals, 1);
    usleep(1500);
  }
  return NULL;
}

typedef struct {
  int w, ops;
  uint64_t seed;
  coap_session_t *shared_udp, *shared_tcp;
} wk_t;

static void *
worker(void *arg) {
  wk_t *k = (wk_t *)arg;
  coap_session_t *mine = NULL, *tcp = NULL, *dead = NULL;
  uint32_t seq = 0;
  int i, observing = 0;
  uint32_t obs_seq = 0;
  char name[32];
  my_slot = k->w;
  rs = k->seed * 2685821657736338717ULL + 88172645463325252ULL + (uint64_t)k->w;
  op("session-create");
  mine = coap_new_client_session(cli, NULL, &srv_addr, COAP_PROTO_UDP);
  tcp = coap_new_client_session(cli, NULL, &srv_addr, COAP_PROTO_TCP);
  if (!dual_io) {
    /* coap_new_pdu() on a TCP session that has not seen the peer's CSM yet processes I/O
     * itself (coap_client_delay_first): that is the dual-io case, kept out of this mode */
    for (i = 0; tcp && i < 2000 && coap_session_get_state(tcp) != COAP_SESSION_STATE_ESTABLISHED; i++)
      usleep(5000);
    if (tcp && coap_session_get_state(tcp) != COAP_SESSION_STATE_ESTABLISHED) {
      coap_session_release(tcp);
      tcp = NULL;
    }
    for (i = 0; i < 2000 && coap_session_get_state(k->shared_tcp) != COAP_SESSION_STATE_ESTABLISHED; i++)
      usleep(5000);
  }
  for (i = 0; i < k->ops; i++) {
    int what = (int)(rnd() % 13);
    atomic_fetch_add(&op_count[what], 1);
    cur_what = what;
    switch (what) {
    case 0:
    case 1:
      op("send-con");
      if (mine)
        send_req(mine, COAP_MESSAGE_CON, COAP_REQUEST_CODE_GET, "r", 1, k->w, seq++, -1);
      break;
    case 2:
      op("send-con-shared-session");
      send_req(k->shared_udp, COAP_MESSAGE_CON, COAP_REQUEST_CODE_GET, "r", 1, k->w, seq++, -1);
      break;
    case 3:
      op("send-non");
      if (mine)
        send_req(mine, COAP_MESSAGE_NON, COAP_REQUEST_CODE_GET, "r", 3, k->w, seq, -1);
      break;
    case 4:
      op("send-tcp");
      if (tcp)
        send_req(rnd() & 1 ? tcp : k->shared_tcp, COAP_MESSAGE_CON, COAP_REQUEST_CODE_GET,
                 rnd() & 1 ? "r" : "sep", 1, k->w, seq++, -1);
      break;
    case 5:
      op("notify");
      coap_resource_notify_observers(res_o, NULL);
      break;
    case 6:
      if (mine) {
        uint8_t tok[4];
        coap_binary_t t = {4, tok};
        if (!observing) {
          op("observe-register");
          obs_seq = seq++;
          observing = send_req(mine, COAP_MESSAGE_CON, COAP_REQUEST_CODE_GET, "o", 2, k->w, obs_seq, 0);
        } else {
          op("observe-cancel");
          mk_token(tok, 2, k->w, obs_seq);
          coap_cancel_observe(mine, &t, COAP_MESSAGE_CON);
          observing = 0;
        }
      }
      break;
    case 7: {
      coap_session_t *s;
      op("session-create-release");
      s = coap_new_client_session(cli, NULL, &srv_addr, rnd() & 1 ? COAP_PROTO_UDP : COAP_PROTO_TCP);
      if (s) {
        coap_session_reference(s);
        if ((rnd() & 1) && (dual_io || coap_session_get_proto(s) == COAP_PROTO_UDP))
          send_req(s, COAP_MESSAGE_NON, COAP_REQUEST_CODE_GET, "r", 3, k->w, seq, -1);
        coap_session_release(s);
        coap_session_release(s);
      }
      break;
    }
    case 8: {
      coap_resource_t *r;
      coap_str_const_t *n;
      op("resource-add-delete");
      snprintf(name, sizeof(name), "d%d_%d", k->w, i);
      n = coap_new_str_const((const uint8_t *)name, strlen(name));
      r = n ? coap_resource_init(n, COAP_RESOURCE_FLAGS_RELEASE_URI) : NULL;
      if (r) {
        coap_register_request_handler(r, COAP_REQUEST_GET, hnd_get);
        coap_resource_set_get_observable(r, 1);
        coap_resource_set_userdata(r, malloc(8));
        coap_add_resource(srv, r);
        if (mine && (rnd() & 1))
          send_req(mine, COAP_MESSAGE_CON, COAP_REQUEST_CODE_GET, name, 1, k->w, seq++, -1);
        if (rnd() & 1)
          usleep(rnd() % 2000);
        r = coap_get_resource_from_uri_path(srv, n);
        if (r) /* the context argument is documented as ignored; the examples pass NULL */
          coap_delete_resource(rnd() & 1 ? srv : NULL, r);
      }
      break;
    }
    case 9:
      op("send-async");
      if (mine)
        send_req(mine, COAP_MESSAGE_CON, COAP_REQUEST_CODE_GET, "sep", 1, k->w, seq++, -1);
      break;
    case 10:
      op("queries-and-ping");
      if (dual_io)
        (void)coap_io_pending(cli);
      (void)coap_can_exit(cli);
      (void)coap_can_exit(srv);
      (void)coap_context_get_session_timeout(srv);
      if (tcp && (rnd() & 3) == 0)
        coap_session_send_ping(tcp);
      if (mine && (rnd() & 7) == 0)
        coap_session_send_ping(mine);
      if ((rnd() & 15) == 0) {
        /* a second context whose endpoint cannot be bound (192.0.2.1 is nobody's address):
         * the call fails, and must leave the library usable for the other threads */
        coap_address_t na;
        coap_context_t *x;
        op("context-that-cannot-bind");
        coap_address_init(&na);
        na.addr.sin.sin_family = AF_INET;
        na.addr.sin.sin_addr.s_addr = htonl(0xC0000201);
        na.addr.sin.sin_port = htons(5683);
        na.size = sizeof(struct sockaddr_in);
        x = coap_new_context(&na);
        atomic_fetch_add(&failed_ctx_calls, 1);
        if (x)
          coap_free_context(x);
      }
      break;
    case 12: {
      /* the cache API from an application thread (the handlers use it from callbacks): key
       * from a request, entry created, looked up both ways, application data, entry deleted */
      coap_pdu_t *p;
      op("cache");
      p = mine ? coap_pdu_init(COAP_MESSAGE_NON, COAP_REQUEST_CODE_GET, 0, 64) : NULL;
      if (p) {
        coap_cache_key_t *key;
        coap_cache_entry_t *e;
        snprintf(name, sizeof(name), "k%d_%d", k->w, (int)(rnd() % 3));
        coap_add_option(p, COAP_OPTION_URI_PATH, strlen(name), (const uint8_t *)name);
        key = coap_cache_derive_key(mine, p, COAP_CACHE_IS_SESSION_BASED);
        e = coap_cache_get_by_pdu(mine, p, COAP_CACHE_IS_SESSION_BASED);
        if (!e)
          e = coap_new_cache_entry(mine, p, rnd() & 1 ? COAP_CACHE_RECORD_PDU :
                                   COAP_CACHE_NOT_RECORD_PDU, COAP_CACHE_IS_SESSION_BASED,
                                   0 /* never expires: only this thread deletes it */);
        if (e && key) {
          coap_cache_entry_t *e2 = coap_cache_get_by_key(cli, key);
          if (e2 == e) {
            coap_cache_set_app_data(e, malloc(8), free);
            (void)coap_cache_get_app_data(e);
            if (rnd() & 1)
              coap_delete_cache_entry(cli, e);
          }
        }
        if (key)
          coap_delete_cache_key(key);
        coap_delete_pdu(p);
      }
      break;
    }
    case 11:
      op("send-to-dead-port");
      if (!dead) {
        coap_fixed_point_t one = {1, 0};
        dead = coap_new_client_session(cli, NULL, &dead_addr, COAP_PROTO_UDP);
        if (dead) {
          coap_session_set_ack_timeout(dead, one);
          coap_session_set_max_retransmit(dead, 1);
        }
      }
      /* kind 4: exercises the NACK path, not part of the answered/NACKed accounting */
      if (dead && (rnd() & 3) == 0)
        send_req(dead, COAP_MESSAGE_CON, COAP_REQUEST_CODE_GET, "r", 4, k->w, seq++, -1);
      break;
    }
    tick();
    if ((rnd() & 7) == 0)
      usleep(rnd() % 500);
  }
  /* wait for the answers before letting go of the sessions */
  op("drain");
  for (i = 0; i < 1500; i++) {
    uint32_t q;
    int open = 0;
    for (q = 0; q < seq && q < MAXSEQ; q++)
      if (atomic_load(&sent[k->w][q]) && !atomic_load(&answered[k->w][q]) &&
          !atomic_load(&nacked[k->w][q]))
        open++;
    if (!open)
      break;
    usleep(10000);
    tick();
  }
  op("session-release");
  if (mine)
    coap_session_release(mine);
  if (tcp)
    coap_session_release(tcp);
  if (dead)
    coap_session_release(dead);
  op("done");
  tick();
  return NULL;
}

static void
dump_stacks(void) {
  const char *path = getenv("VF_STACKS");
  char cmd[512];
  if (!path)
    return;
  snprintf(cmd, sizeof(cmd), "timeout -s KILL 60 gdb -p %d -batch -ex 'handle SIGUSR1 nostop noprint pass' "
           "-ex 'thread apply all bt 14' > %s 2>&1", (int)getpid(), path);
  if (system(cmd)) {
  }
}

int
main(int argc, char **argv) {
  int nw = argc > 1 ? atoi(argv[1]) : 4;
  int ops = argc > 2 ? atoi(argv[2]) : 200;
  uint64_t seed = argc > 3 ? strtoull(argv[3], NULL, 10) : 1;
  int stall = argc > 4 ? atoi(argv[4]) : 20;
  int dio = argc > 5 ? atoi(argv[5]) : 0;
  pthread_t io1, io2, sigt, wt[MAXW];
  wk_t wk[MAXW];
  coap_session_t *shared_udp, *shared_tcp;
  coap_str_const_t *n;
  int i, port = 0, tries, rc = 0, supported;
  long unanswered = 0, total_sent = 0;
  char unans[256] = "";
  struct timespec t0, t1;

  if (nw > MAXW)
    nw = MAXW;
  dual_io = dio;
  coap_startup();
  coap_set_log_handler(nolog);
  coap_set_log_level(COAP_LOG_EMERG);
  supported = coap_threadsafe_is_supported();
  srv = coap_new_context(NULL);
  cli = coap_new_context(NULL);
  if (!srv || !cli)
    return 5;
  coap_context_set_block_mode(srv, COAP_BLOCK_USE_LIBCOAP);
  coap_context_set_block_mode(cli, COAP_BLOCK_USE_LIBCOAP);
  coap_address_init(&srv_addr);
  srv_addr.addr.sin.sin_family = AF_INET;
  srv_addr.addr.sin.sin_addr.s_addr = htonl(INADDR_LOOPBACK);
  srv_addr.size = sizeof(struct sockaddr_in);
  for (tries = 0; tries < 50; tries++) {
    port = 20000 + (int)((getpid() * 7 + tries * 131 + seed) % 30000);
    srv_addr.addr.sin.sin_port = htons((uint16_t)port);
    coap_endpoint_t *uep = coap_new_endpoint(srv, &srv_addr, COAP_PROTO_UDP);
    if (uep) {
      if (coap_new_endpoint(srv, &srv_addr, COAP_PROTO_TCP))
        break;
      coap_free_endpoint(uep); /* the TCP port is taken: try another pair */
    }
  }
  if (tries == 50)
    return 5;
  dead_addr = srv_addr;
  dead_addr.addr.sin.sin_port = htons(9); /* nobody listens: ICMP port unreachable */

  n = coap_new_str_const((const uint8_t *)"r", 1);
  res_r = coap_resource_init(n, COAP_RESOURCE_FLAGS_RELEASE_URI);
  coap_register_request_handler(res_r, COAP_REQUEST_GET, hnd_get);
  coap_add_resource(srv, res_r);
  n = coap_new_str_const((const uint8_t *)"o", 1);
  res_o = coap_resource_init(n, COAP_RESOURCE_FLAGS_RELEASE_URI);
  coap_register_request_handler(res_o, COAP_REQUEST_GET, hnd_get);
  coap_resource_set_get_observable(res_o, 1);
  coap_add_resource(srv, res_o);
  n = coap_new_str_const((const uint8_t *)"sep", 3);
  res_sep = coap_resource_init(n, COAP_RESOURCE_FLAGS_RELEASE_URI);
  coap_register_request_handler(res_sep, COAP_REQUEST_GET, hnd_sep);
  coap_add_resource(srv, res_sep);

  coap_resource_release_userdata_handler(srv, release_ud);
  for (i = 0; i < 2; i++) {
    coap_context_t *c = i ? cli : srv;
    coap_register_response_handler(c, hnd_rsp);
    coap_register_nack_handler(c, hnd_nack);
    coap_register_event_handler(c, hnd_event);
    coap_register_ping_handler(c, hnd_ping);
    coap_register_pong_handler(c, hnd_pong);
  }
  shared_udp = coap_new_client_session(cli, NULL, &srv_addr, COAP_PROTO_UDP);
  shared_tcp = coap_new_client_session(cli, NULL, &srv_addr, COAP_PROTO_TCP);
  if (!shared_udp || !shared_tcp)
    return 5;
  coap_session_set_nstart(shared_udp, 8);

  clock_gettime(CLOCK_MONOTONIC, &t0);
  {
    struct sigaction sa;
    memset(&sa, 0, sizeof(sa));
    sa.sa_handler = on_sigusr1; /* no SA_RESTART */
    sigaction(SIGUSR1, &sa, NULL);
  }
  pthread_create(&io1, NULL, io_thread, srv);
  pthread_create(&io2, NULL, io_thread, cli);
  io_tids[0] = io1;
  io_tids[1] = io2;
  pthread_create(&sigt, NULL, signaller, NULL);
  for (i = 0; i < nw; i++) {
    wk[i].w = i;
    wk[i].ops = ops;
    wk[i].seed = seed;
    wk[i].shared_udp = shared_udp;
    wk[i].shared_tcp = shared_tcp;
    pthread_create(&wt[i], NULL, worker, &wk[i]);
  }
  /* watchdog on the workers' progress counters */
  {
    long last[MAXW], still = 0;
    int done = 0;
    memset(last, 0, sizeof(last));
    while (!done) {
      int moved = 0;
      done = 1;
      usleep(200000);
      for (i = 0; i < nw; i++) {
        long p = atomic_load(&progress[i]);
        const char *o = atomic_load(&cur_op_of[i]);
        if (p != last[i])
          moved = 1;
        last[i] = p;
        if (!o || strcmp(o, "done"))
          done = 0;
      }
      still = moved ? 0 : still + 1;
      if (!done && still * 200 >= (long)stall * 1000) {
        printf("{\"deadlock\":1,\"supported\":%d,\"workers\":%d,\"stuck\":[", supported, nw);
        for (i = 0; i < nw; i++)
          printf("%s\"%s\"", i ? "," : "", atomic_load(&cur_op_of[i]) ? atomic_load(&cur_op_of[i]) : "?");
        printf("],\"io\":[\"%ld\",\"%ld\"]}\n", atomic_load(&progress[MAXW]),
               atomic_load(&progress[MAXW + 1]));
        fflush(stdout);
        /* the debugger stops at every signal the process receives: no more of them now */
        atomic_store(&stop_signals, 1);
        usleep(20000);
        dump_stacks();
        _exit(3);
      }
    }
  }
  for (i = 0; i < nw; i++)
    pthread_join(wt[i], NULL);
  atomic_store(&stop_io, 1);
  pthread_join(sigt, NULL);
  pthread_join(io1, NULL);
  pthread_join(io2, NULL);
  clock_gettime(CLOCK_MONOTONIC, &t1);
  for (i = 0; i < nw; i++) {
    int q;
    for (q = 0; q < MAXSEQ; q++)
      if (atomic_load(&sent[i][q])) {
        total_sent++;
        if (!atomic_load(&answered[i][q]) && !atomic_load(&nacked[i][q])) {
          size_t l = strlen(unans);
          unanswered++;
          if (l < sizeof(unans) - 24)
            snprintf(unans + l, sizeof(unans) - l, "%sw%d.%d:op%d", l ? " " : "", i, q,
                     atomic_load(&sent[i][q]) - 1);
        }
      }
  }
  coap_session_release(shared_udp);
  coap_session_release(shared_tcp);
  coap_free_context(cli);
  coap_free_context(srv);
  coap_cleanup();
  if (unanswered)
    rc = 4;
  printf("{\"deadlock\":0,\"dual_io\":%d,\"supported\":%d,\"workers\":%d,\"ops\":%d,\"seed\":%llu,\"port\":%d,"
         "\"request_handler\":%ld,\"response_handler\":%ld,\"nack_handler\":%ld,\"event_handler\":%ld,"
         "\"ping_handler\":%ld,\"pong_handler\":%ld,\"release_handler\":%ld,\"reentry_calls\":%ld,\"notifications\":%ld,"
         "\"sent_con\":%ld,\"sent_non\":%ld,\"send_fail\":%ld,\"tracked_con\":%ld,\"unanswered\":%ld,"
         "\"lock_calls\":%ld,\"lock_acquisitions\":%ld,\"lock_handovers\":%ld,\"handover_pairs\":%d,"
         "\"ms\":%ld,\"unanswered_list\":\"%s\",\"failed_context_calls\":%ld,\"signals_to_io_threads\":%ld,\"opmix\":[",
         dual_io, supported, nw, ops, (unsigned long long)seed, port, atomic_load(&n_req_handler),
         atomic_load(&n_rsp_handler), atomic_load(&n_nack_handler), atomic_load(&n_event_handler),
         atomic_load(&n_ping_handler), atomic_load(&n_pong_handler), atomic_load(&n_release_handler),
         atomic_load(&n_reentry_calls),
         atomic_load(&n_notify_rsp), atomic_load(&n_sent_con), atomic_load(&n_sent_non),
         atomic_load(&n_send_fail), total_sent, unanswered, atomic_load(&lock_calls), lock_acq,
         lock_handover, npairs,
         (long)((t1.tv_sec - t0.tv_sec) * 1000 + (t1.tv_nsec - t0.tv_nsec) / 1000000), unans,
         atomic_load(&failed_ctx_calls), atomic_load(&n_signals));
  for (i = 0; i < 12; i++)
    printf("%s%ld", i ? "," : "", atomic_load(&op_count[i]));
  printf("],\"pairs\":[");
  for (i = 0; i < npairs && i < 60; i++)
    printf("%s\"%s>%s\"", i ? "," : "", pairs[i].a, pairs[i].b);
  printf("]}\n");
  return rc;
}
