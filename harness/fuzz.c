/* fuzz.c - coverage-guided front end for C02 (libFuzzer, clang ASan+UBSan build).
 *
 * One input = one life of a server+client context in the closed world (virtual sockets
 * and clock of wraps.c, nothing touches the kernel's network):
 *
 *   byte 0        configuration: block mode bits, logging on/off
 *   then ops      op byte: kind = b & 7, arg = b >> 3
 *     0  datagram to the server's UDP endpoint from peer (arg & 3)        [len][bytes]
 *     1  virtual time passes (table[arg]), timers run
 *     2  bytes arrive on TCP connection (arg & 1), accepted on first use    [len][bytes]
 *     3  bytes arrive on WebSocket connection (arg & 1)                     [len][bytes]
 *     4  the observable resource changes (notify)
 *     5  datagram to the CLIENT session from its server's address          [len][bytes]
 *        (the session is created with an Observe GET and a Block2 GET in flight on first use)
 *     6  datagram to the server with a multicast destination               [len][bytes]
 *     7  the peer closes TCP/WS connection (arg & 1)
 *   [len] is one byte, or 255 followed by two bytes (big endian, capped at 1472)
 *
 * Oracles: the sanitizers; libFuzzer's -timeout (no endless loop); a canary at the end - a
 * well-formed CON GET from a fresh peer must be answered 2.05 "hello" in a piggybacked ACK
 * with its token and message id - else abort() with VF-CANARY on stderr.
 */
#include "world.h"
#include <arpa/inet.h>

/* ---- event stubs: remember what is written towards the canary peer ------------------ */
static int cur_wire;
static coap_address_t cur_to, canary_peer;
static uint8_t last_wire[2048];
static size_t last_wire_len;

void
ev_begin(const char *name) {
  cur_wire = !strcmp(name, "wire");
  memset(&cur_to, 0, sizeof(cur_to));
}
void
ev_int(const char *k, long v) {
  (void)k;
  (void)v;
}
void
ev_str(const char *k, const char *v) {
  (void)k;
  (void)v;
}
void
ev_addr(const char *k, const coap_address_t *a) {
  if (cur_wire && !strcmp(k, "to"))
    cur_to = *a;
}
void
ev_hex(const char *k, const uint8_t *p, size_t n) {
  if (cur_wire && !strcmp(k, "b") && canary_peer.size && coap_address_equals(&cur_to, &canary_peer)) {
    last_wire_len = n > sizeof(last_wire) ? sizeof(last_wire) : n;
    memcpy(last_wire, p, last_wire_len);
  }
}
void
ev_end(void) {
  cur_wire = 0;
}

/* ---- deterministic PRNG ------------------------------------------------------------- */
static uint64_t prng_state;
static int
fz_prng(void *buf, size_t len) {
  uint8_t *p = (uint8_t *)buf;
  while (len--) {
    prng_state = prng_state * 6364136223846793005ULL + 1442695040888963407ULL;
    *p++ = (uint8_t)(prng_state >> 33);
  }
  return 1;
}

static void
mkaddr(coap_address_t *a, const char *ip, uint16_t port) {
  coap_address_init(a);
  a->addr.sin.sin_family = AF_INET;
  a->size = sizeof(struct sockaddr_in);
  inet_pton(AF_INET, ip, &a->addr.sin.sin_addr);
  a->addr.sin.sin_port = htons(port);
}

/* ---- the application ---------------------------------------------------------------- */
static coap_context_t *ctx;
static coap_resource_t *res_o;
static long counter;
static uint8_t bigbody[3000];
static uint8_t *stored;
static size_t stored_len;
static volatile uint8_t sink;

static void
touch(const coap_pdu_t *pdu) {
  /* an application reads what it is handed: every option, the whole payload */
  coap_opt_iterator_t oi;
  coap_opt_t *o;
  size_t len = 0, off = 0, tot = 0, i;
  const uint8_t *data = NULL;
  coap_bin_const_t t = coap_pdu_get_token(pdu);
  for (i = 0; i < t.length; i++)
    sink ^= t.s[i];
  coap_option_iterator_init(pdu, &oi, COAP_OPT_ALL);
  while ((o = coap_option_next(&oi))) {
    const uint8_t *v = coap_opt_value(o);
    uint32_t n = coap_opt_length(o);
    for (i = 0; i < n; i++)
      sink ^= v[i];
  }
  if (coap_get_data_large(pdu, &len, &data, &off, &tot))
    for (i = 0; i < len; i++)
      sink ^= data[i];
}

static void
h_r(coap_resource_t *r, coap_session_t *s, const coap_pdu_t *req, const coap_string_t *q,
    coap_pdu_t *rsp) {
  (void)r;
  (void)s;
  (void)q;
  touch(req);
  coap_pdu_set_code(rsp, COAP_RESPONSE_CODE(205));
  coap_add_data(rsp, 5, (const uint8_t *)"hello");
}

static void
h_big(coap_resource_t *r, coap_session_t *s, const coap_pdu_t *req, const coap_string_t *q,
      coap_pdu_t *rsp) {
  touch(req);
  coap_pdu_set_code(rsp, COAP_RESPONSE_CODE(205));
  coap_add_data_large_response(r, s, req, rsp, q, COAP_MEDIATYPE_TEXT_PLAIN, -1, 7,
                               sizeof(bigbody), bigbody, NULL, NULL);
}

static void
h_up(coap_resource_t *r, coap_session_t *s, const coap_pdu_t *req, const coap_string_t *q,
     coap_pdu_t *rsp) {
  size_t len = 0, off = 0, tot = 0;
  const uint8_t *data = NULL;
  (void)r;
  (void)s;
  (void)q;
  touch(req);
  if (coap_get_data_large(req, &len, &data, &off, &tot)) {
    if (off > (1u << 20) || len > (1u << 20)) { /* an application bounds peer-chosen offsets */
      coap_pdu_set_code(rsp, COAP_RESPONSE_CODE(413));
      return;
    }
    if (off + len > stored_len) {
      uint8_t *nb = (uint8_t *)realloc(stored, off + len);
      if (!nb) {
        coap_pdu_set_code(rsp, COAP_RESPONSE_CODE(500));
        return;
      }
      memset(nb + stored_len, 0, off + len - stored_len);
      stored = nb;
      stored_len = off + len;
    }
    if (len)
      memcpy(stored + off, data, len);
  }
  coap_pdu_set_code(rsp, COAP_RESPONSE_CODE(204));
}

static void
h_o(coap_resource_t *r, coap_session_t *s, const coap_pdu_t *req, const coap_string_t *q,
    coap_pdu_t *rsp) {
  char b[24];
  (void)r;
  (void)s;
  (void)q;
  touch(req);
  coap_pdu_set_code(rsp, COAP_RESPONSE_CODE(205));
  snprintf(b, sizeof(b), "%ld", counter);
  coap_add_data(rsp, strlen(b), (const uint8_t *)b);
}

static void
h_unknown(coap_resource_t *r, coap_session_t *s, const coap_pdu_t *req, const coap_string_t *q,
          coap_pdu_t *rsp) {
  coap_string_t *p = coap_get_uri_path(req);
  (void)r;
  (void)s;
  (void)q;
  touch(req);
  if (p) {
    size_t i;
    for (i = 0; i < p->length; i++)
      sink ^= p->s[i];
    coap_delete_string(p);
  }
  coap_pdu_set_code(rsp, COAP_RESPONSE_CODE(201));
}

static coap_response_t
h_rsp(coap_session_t *s, const coap_pdu_t *sent, const coap_pdu_t *rcvd, const coap_mid_t mid) {
  (void)s;
  (void)mid;
  if (sent)
    touch(sent);
  touch(rcvd);
  return (sink & 7) == 7 ? COAP_RESPONSE_FAIL : COAP_RESPONSE_OK;
}

static void
h_nack(coap_session_t *s, const coap_pdu_t *sent, const coap_nack_reason_t reason,
       const coap_mid_t mid) {
  (void)s;
  (void)reason;
  (void)mid;
  if (sent)
    touch(sent);
}

static int
h_event(coap_session_t *s, const coap_event_t e) {
  (void)s;
  (void)e;
  return 0;
}

static void
null_log(coap_log_t level, const char *message) {
  (void)level;
  sink ^= (uint8_t)message[0];
}

static const char OSC_CONF[] =
    "master_secret,hex,\"0102030405060708090a0b0c0d0e0f10\"\n"
    "master_salt,hex,\"9e7ca92223786340\"\n"
    "sender_id,hex,\"01\"\nrecipient_id,hex,\"\"\n"
    "replay_window,integer,32\nrfc8613_b_1_2,bool,false\nrfc8613_b_2,bool,true\n";

static coap_endpoint_t *ep_udp, *ep_tcp, *ep_ws;
static coap_session_t *client;
static coap_address_t srv_addr, ws_addr, cli_srv;

static coap_str_const_t RT_NAME = {2, (const uint8_t *)"rt"};
static coap_str_const_t RT_VAL = {17, (const uint8_t *)"\"temp sensor lux\""};
static coap_str_const_t PATHS[4];
static int npaths;

static void
add_res(const char *path, coap_method_handler_t get, coap_method_handler_t put, int obs) {
  coap_resource_t *r;
  PATHS[npaths].s = (const uint8_t *)path;
  PATHS[npaths].length = strlen(path);
  r = coap_resource_init(&PATHS[npaths], 0);
  npaths = (npaths + 1) & 3;
  if (get) {
    coap_register_request_handler(r, COAP_REQUEST_GET, get);
    coap_register_request_handler(r, COAP_REQUEST_FETCH, get);
  }
  if (put) {
    coap_register_request_handler(r, COAP_REQUEST_PUT, put);
    coap_register_request_handler(r, COAP_REQUEST_POST, put);
    coap_register_request_handler(r, COAP_REQUEST_IPATCH, put);
  }
  if (obs) {
    coap_resource_set_get_observable(r, 1);
    res_o = r;
  }
  coap_add_attr(r, &RT_NAME, &RT_VAL, 0);
  coap_add_resource(ctx, r);
}

static void
setup(uint8_t cfg) {
  coap_resource_t *u;
  coap_str_const_t conf = {sizeof(OSC_CONF) - 1, (const uint8_t *)OSC_CONF};
  coap_oscore_conf_t *oc;
  vf_now_ms = 1000000;
  vf_cur_node = 0;
  prng_state = 0x1234567 + cfg;
  counter = 0;
  client = NULL;
  res_o = NULL;
  npaths = 0;
  ctx = coap_new_context(NULL);
  if (!ctx)
    abort();
  coap_context_set_block_mode(ctx, COAP_BLOCK_USE_LIBCOAP | ((cfg & 1) ? COAP_BLOCK_SINGLE_BODY : 0) |
                              ((cfg & 2) ? COAP_BLOCK_TRY_Q_BLOCK : 0));
  coap_set_log_level((cfg & 4) ? COAP_LOG_DEBUG : COAP_LOG_EMERG);
  mkaddr(&srv_addr, "10.0.0.1", 5683);
  mkaddr(&ws_addr, "10.0.0.1", 80);
  mkaddr(&cli_srv, "10.0.2.2", 5683);
  oc = coap_new_oscore_conf(conf, NULL, NULL, 0);
  if (oc)
    coap_context_oscore_server(ctx, oc);
  ep_udp = coap_new_endpoint(ctx, &srv_addr, COAP_PROTO_UDP);
  ep_tcp = coap_new_endpoint(ctx, &srv_addr, COAP_PROTO_TCP);
  ep_ws = coap_ws_is_supported() ? coap_new_endpoint(ctx, &ws_addr, COAP_PROTO_WS) : NULL;
  if (!ep_udp)
    abort();
  add_res("r", h_r, NULL, 0);
  add_res("big", h_big, NULL, 0);
  add_res("up", NULL, h_up, 0);
  add_res("o", h_o, NULL, 1);
  u = coap_resource_unknown_init(h_unknown);
  coap_add_resource(ctx, u);
  coap_register_response_handler(ctx, h_rsp);
  coap_register_nack_handler(ctx, h_nack);
  coap_register_event_handler(ctx, h_event);
}

static void
do_io(void) {
  coap_tick_t now;
  coap_ticks(&now);
  coap_io_do_io(ctx, now);
}

static void
run_timers(void) {
  coap_socket_t *socks[64];
  unsigned int num = 0;
  coap_tick_t now;
  coap_ticks(&now);
  (void)coap_io_prepare_io(ctx, socks, 64, &num, now);
  do_io();
}

static void
deliver_dgram(coap_socket_t *sock, const coap_address_t *from, const coap_address_t *to,
              const uint8_t *d, size_t n) {
  vsock_t *vs = vs_find(sock);
  int guard = 0;
  if (!vs)
    return;
  vs_push(vs, from, to, d, n);
  while (vs->used && vs->q && ++guard < 64) {
    vs->sock->flags |= COAP_SOCKET_CAN_READ;
    do_io();
    vs = vs_find(sock);
    if (!vs)
      break;
  }
}

static int conn_id[2][2]; /* [tcp|ws][0|1] */

static vsock_t *
conn_sock(int conn) {
  int i;
  for (i = 0; i < VF_MAX_SOCKS; i++)
    if (vsocks[i].used && vsocks[i].kind == VS_TCP_CONN && vsocks[i].conn == conn &&
        vsocks[i].initiator == 0)
      return &vsocks[i];
  return NULL;
}

static void
stream_bytes(int ws, int which, const uint8_t *d, size_t n) {
  coap_endpoint_t *ep = ws ? ep_ws : ep_tcp;
  vsock_t *vs;
  int guard = 0;
  if (!ep)
    return;
  if (!conn_id[ws][which]) {
    vsock_t *ls = vs_find(&ep->sock);
    coap_address_t from;
    vchunk_t *c;
    if (!ls)
      return;
    mkaddr(&from, which ? "10.0.3.2" : "10.0.3.1", (uint16_t)(50000 + ws * 2 + which));
    vs_push(ls, &from, ws ? &ws_addr : &srv_addr, (const uint8_t *)"", 0);
    c = ls->q;
    while (c->next)
      c = c->next;
    c->conn = conn_id[ws][which] = vf_new_conn_id();
    ep->sock.flags |= COAP_SOCKET_CAN_ACCEPT;
    do_io();
  }
  vs = conn_sock(conn_id[ws][which]);
  if (!vs)
    return;
  if (n)
    vs_push(vs, NULL, NULL, d, n);
  else
    vs->peer_closed = 1;
  {
    long before;
    int conn = conn_id[ws][which];
    do {
      before = vs->reads;
      vs->sock->flags |= COAP_SOCKET_CAN_READ;
      do_io();
      vs = conn_sock(conn);
    } while (vs && vs->q && vs->reads != before && ++guard < 4096);
  }
}

static void
client_traffic(const uint8_t *d, size_t n) {
  vsock_t *vs;
  if (!client) {
    coap_pdu_t *p;
    uint8_t obs = 0;
    client = coap_new_client_session(ctx, NULL, &cli_srv, COAP_PROTO_UDP);
    if (!client)
      return;
    p = coap_new_pdu(COAP_MESSAGE_CON, COAP_REQUEST_CODE_GET, client);
    if (p) {
      coap_add_token(p, 2, (const uint8_t *)"\xb1\x01");
      coap_add_option(p, COAP_OPTION_OBSERVE, 0, &obs);
      coap_add_option(p, COAP_OPTION_URI_PATH, 1, (const uint8_t *)"o");
      coap_send(client, p);
    }
    p = coap_new_pdu(COAP_MESSAGE_NON, COAP_REQUEST_CODE_GET, client);
    if (p) {
      coap_add_token(p, 2, (const uint8_t *)"\xb1\x02");
      coap_add_option(p, COAP_OPTION_URI_PATH, 3, (const uint8_t *)"big");
      coap_send(client, p);
    }
    p = coap_new_pdu(COAP_MESSAGE_NON, COAP_REQUEST_CODE_PUT, client);
    if (p) {
      coap_add_token(p, 2, (const uint8_t *)"\xb1\x03");
      coap_add_option(p, COAP_OPTION_URI_PATH, 2, (const uint8_t *)"up");
      coap_add_data_large_request(client, p, sizeof(bigbody), bigbody, NULL, NULL);
      coap_send(client, p);
    }
  }
  vs = vs_find(&client->sock);
  if (vs)
    deliver_dgram(&client->sock, &cli_srv, &vs->local, d, n);
}

static const uint32_t DT[32] = {0, 1, 10, 100, 500, 1000, 1900, 2100, 2900, 3100, 4000, 6000,
                                9000, 12000, 20000, 31000, 45000, 46000, 62000, 93000, 94000,
                                120000, 150000, 200000, 247000, 248000, 300000, 400000, 600000,
                                1000000, 3000, 5000
                               };

int
LLVMFuzzerInitialize(int *argc, char ***argv) {
  size_t i;
  (void)argc;
  (void)argv;
  coap_startup();
  coap_set_prng(fz_prng);
  coap_set_log_handler(null_log);
  for (i = 0; i < sizeof(bigbody); i++)
    bigbody[i] = (uint8_t)('a' + i % 23);
  vf_shadow_on = 0;
  return 0;
}

int
LLVMFuzzerTestOneInput(const uint8_t *in, size_t size) {
  size_t pos = 1;
  int ops = 0, i;
  static const uint8_t canary[] = {0x42, 0x01, 0xca, 0xfe, 0xc0, 0xde, 0xb1, 0x72};
  static const uint8_t want[] = {0x62, 0x45, 0xca, 0xfe, 0xc0, 0xde, 0xff, 'h', 'e', 'l', 'l', 'o'};
  coap_address_t peers[4], mc;
  if (size < 1)
    return 0;
  memset(&canary_peer, 0, sizeof(canary_peer));
  memset(conn_id, 0, sizeof(conn_id));
  setup(in[0]);
  for (i = 0; i < 4; i++)
    mkaddr(&peers[i], i < 2 ? "10.0.1.1" : "10.0.1.2", (uint16_t)(40000 + i));
  mkaddr(&mc, "224.0.1.187", 5683);
  while (pos < size && ops++ < 64) {
    uint8_t b = in[pos++];
    int kind = b & 7, arg = b >> 3;
    const uint8_t *d = NULL;
    size_t n = 0;
    if (kind == 0 || kind == 2 || kind == 3 || kind == 5 || kind == 6) {
      if (pos >= size)
        break;
      n = in[pos++];
      if (n == 255) {
        if (pos + 2 > size)
          break;
        n = ((size_t)in[pos] << 8) | in[pos + 1];
        pos += 2;
        if (n > 1472)
          n = 1472;
      }
      if (n > size - pos)
        n = size - pos;
      /* an exact-size copy: reading past the datagram is reading past the block */
      d = vf_exact(in + pos, n);
      pos += n;
    }
    switch (kind) {
    case 0:
      deliver_dgram(&ep_udp->sock, &peers[arg & 3], &srv_addr, d, n);
      break;
    case 1:
      vf_now_ms += DT[arg & 31];
      run_timers();
      break;
    case 2:
    case 3:
      if (n)
        stream_bytes(kind == 3, arg & 1, d, n);
      break;
    case 4:
      counter++;
      if (res_o)
        coap_resource_notify_observers(res_o, NULL);
      run_timers();
      break;
    case 5:
      client_traffic(d, n);
      break;
    case 6:
      deliver_dgram(&ep_udp->sock, &peers[arg & 3], &mc, d, n);
      break;
    case 7:
      if (conn_id[arg & 1][(arg >> 1) & 1])
        stream_bytes(arg & 1, (arg >> 1) & 1, NULL, 0);
      break;
    }
    free((void *)(uintptr_t)d);
  }
  /* afterwards the endpoint still answers a well-formed request correctly */
  mkaddr(&canary_peer, "10.0.9.9", 49999);
  last_wire_len = 0;
  deliver_dgram(&ep_udp->sock, &canary_peer, &srv_addr, canary, sizeof(canary));
  if (last_wire_len != sizeof(want) || memcmp(last_wire, want, sizeof(want))) {
    fprintf(stderr, "VF-CANARY after the input the server answered a plain GET /r with %zu bytes:",
            last_wire_len);
    for (i = 0; i < (int)last_wire_len && i < 40; i++)
      fprintf(stderr, " %02x", last_wire[i]);
    fprintf(stderr, "\n");
    abort();
  }
  if (client)
    coap_session_release(client);
  coap_free_context(ctx);
  ctx = NULL;
  free(stored);
  stored = NULL;
  stored_len = 0;
  for (i = 0; i < VF_MAX_SOCKS; i++)
    if (vsocks[i].used) {
      /* a socket the library did not close: drop our side, the table must not fill up */
      while (vsocks[i].q) {
        vchunk_t *c = vsocks[i].q;
        vsocks[i].q = c->next;
        free(c);
      }
      close(vsocks[i].fd);
      vsocks[i].used = 0;
    }
  return 0;
}
