/* wraps.c - link-time interposition layer of the closed world.
 *
 *   I1  coap_ticks                         virtual clock
 *   I3  coap_socket_{bind_udp,connect_udp,send,recv,close,
 *                    bind_tcp,accept_tcp,connect_tcp1,connect_tcp2,read,write}
 *                                          virtual socket table
 *   I2  coap_malloc_type / coap_realloc_type / coap_free_type
 *                                          shadow table + countdown failpoint
 *
 * No kernel networking is involved; descriptors are private eventfds so that
 * a stray select()/close() stays harmless.
 */
#include "world.h"
#include <sys/eventfd.h>
#include <execinfo.h>
#include <errno.h>

/* ------------------------------------------------------------ clock ---- */
uint64_t vf_now_ms = 1000000; /* virtual milliseconds */
int vf_real_clock = 0;

coap_tick_t __real_coap_ticks(coap_tick_t *t);
void
__wrap_coap_ticks(coap_tick_t *t) {
  if (vf_real_clock) {
    __real_coap_ticks(t);
    return;
  }
  *t = (coap_tick_t)(vf_now_ms * COAP_TICKS_PER_SECOND / 1000);
}

/* GnuTLS keeps its own DTLS retransmission timers; point them at the same clock so
 * that handshakes run in virtual time too */
#include <gnutls/gnutls.h>
#include <time.h>
extern void _gnutls_global_set_gettime_function(void (*)(struct timespec *));

static time_t
vf_tls_time(time_t *t) {
  time_t v;
  if (vf_real_clock)
    return time(t);
  v = (time_t)(1700000000 + vf_now_ms / 1000);
  if (t)
    *t = v;
  return v;
}

static void
vf_tls_gettime(struct timespec *ts) {
  if (vf_real_clock) {
    clock_gettime(CLOCK_REALTIME, ts);
    return;
  }
  ts->tv_sec = (time_t)(1700000000 + vf_now_ms / 1000);
  ts->tv_nsec = (long)(vf_now_ms % 1000) * 1000000L;
}

void
vf_tls_virtual_clock(void) {
  gnutls_global_set_time_function(vf_tls_time);
  _gnutls_global_set_gettime_function(vf_tls_gettime);
}

/* A wait inside the library (coap_io_process() called by coap_client_delay_first()) would
 * sleep in real time while the virtual clock stands still, and never end.  Nothing is ever
 * readable on the virtual sockets during a command, so such a wait simply consumes its
 * time-out in virtual time. */
#include <sys/select.h>
int __real_select(int n, fd_set *r, fd_set *w, fd_set *e, struct timeval *tv);
int
__wrap_select(int n, fd_set *r, fd_set *w, fd_set *e, struct timeval *tv) {
  uint64_t ms;
  if (vf_real_clock)
    return __real_select(n, r, w, e, tv);
  if (r) {
    /* data the peer has already sent and the library has not read yet (the rest of a stream
     * chunk, a queued datagram) is there at once, as on a real socket */
    int i, ready = 0;
    fd_set out;
    FD_ZERO(&out);
    for (i = 0; i < VF_MAX_SOCKS; i++) {
      if (vsocks[i].used && vsocks[i].fd >= 0 && vsocks[i].fd < n && FD_ISSET(vsocks[i].fd, r) &&
          (vsocks[i].q || vsocks[i].peer_closed)) {
        FD_SET(vsocks[i].fd, &out);
        ready++;
      }
    }
    if (ready) {
      *r = out;
      if (w)
        FD_ZERO(w);
      if (e)
        FD_ZERO(e);
      return ready;
    }
  }
  ms = tv ? (uint64_t)tv->tv_sec * 1000 + (uint64_t)tv->tv_usec / 1000 : 1000;
  vf_now_ms += ms; /* a poll (time-out 0, e.g. from coap_io_pending()) costs nothing */
  if (r)
    FD_ZERO(r);
  if (w)
    FD_ZERO(w);
  if (e)
    FD_ZERO(e);
  return 0;
}

/* ------------------------------------------------------------ sockets -- */
vsock_t vsocks[VF_MAX_SOCKS];
int vf_cur_node = -1;
static int next_conn = 1;

static vsock_t *
vs_new(coap_socket_t *sock, int kind) {
  int i;
  for (i = 0; i < VF_MAX_SOCKS; i++) {
    if (!vsocks[i].used) {
      memset(&vsocks[i], 0, sizeof(vsocks[i]));
      vsocks[i].used = 1;
      vsocks[i].id = i;
      vsocks[i].sock = sock;
      vsocks[i].kind = kind;
      vsocks[i].node = vf_cur_node;
      vsocks[i].fd = eventfd(0, 0);
      sock->fd = vsocks[i].fd;
      return &vsocks[i];
    }
  }
  fprintf(stderr, "VF-HARNESS out of virtual sockets\n");
  exit(3);
}

vsock_t *
vs_find(const coap_socket_t *sock) {
  int i;
  for (i = 0; i < VF_MAX_SOCKS; i++)
    if (vsocks[i].used && vsocks[i].sock == sock)
      return &vsocks[i];
  return NULL;
}

void
vs_push(vsock_t *vs, const coap_address_t *from, const coap_address_t *to,
        const uint8_t *data, size_t len) {
  vchunk_t *c = (vchunk_t *)calloc(1, sizeof(vchunk_t) + len);
  vchunk_t **pp = &vs->q;
  if (from)
    c->from = *from;
  if (to)
    c->to = *to;
  c->len = len;
  memcpy(c->data, data, len);
  while (*pp)
    pp = &(*pp)->next;
  *pp = c;
}

static void
vs_drop_queue(vsock_t *vs) {
  while (vs->q) {
    vchunk_t *c = vs->q;
    vs->q = c->next;
    free(c);
  }
}

static void
auto_local(vsock_t *vs, const coap_address_t *local_if, const coap_address_t *server) {
  static uint16_t eph = 40000;
  if (local_if && local_if->addr.sa.sa_family != 0) {
    vs->local = *local_if;
    if (coap_address_get_port(&vs->local) == 0)
      coap_address_set_port(&vs->local, eph++);
    return;
  }
  coap_address_init(&vs->local);
  if (server->addr.sa.sa_family == AF_INET6) {
    vs->local.addr.sin6.sin6_family = AF_INET6;
    vs->local.size = sizeof(struct sockaddr_in6);
    vs->local.addr.sin6.sin6_addr.s6_addr[0] = 0xfd;
    vs->local.addr.sin6.sin6_addr.s6_addr[15] = (uint8_t)(vf_cur_node + 1);
    vs->local.addr.sin6.sin6_port = htons(eph++);
  } else {
    vs->local.addr.sin.sin_family = AF_INET;
    vs->local.size = sizeof(struct sockaddr_in);
    vs->local.addr.sin.sin_addr.s_addr = htonl(0x0a000000u + (uint32_t)(vf_cur_node + 1));
    vs->local.addr.sin.sin_port = htons(eph++);
  }
}

int
__wrap_coap_socket_bind_udp(coap_socket_t *sock, const coap_address_t *listen_addr,
                            coap_address_t *bound_addr) {
  vsock_t *vs = vs_new(sock, VS_UDP_EP);
  vs->local = *listen_addr;
  coap_address_copy(bound_addr, listen_addr);
  ev_begin("bound");
  ev_int("vs", vs->id);
  ev_addr("addr", &vs->local);
  ev_end();
  return 1;
}

int
__wrap_coap_socket_connect_udp(coap_socket_t *sock, const coap_address_t *local_if,
                               const coap_address_t *server, int default_port,
                               coap_address_t *local_addr, coap_address_t *remote_addr) {
  vsock_t *vs = vs_new(sock, VS_UDP_CLIENT);
  sock->flags &= ~(COAP_SOCKET_CONNECTED | COAP_SOCKET_MULTICAST);
  vs->remote = *server;
  if (coap_address_get_port(&vs->remote) == 0)
    coap_address_set_port(&vs->remote, (uint16_t)default_port);
  auto_local(vs, local_if, server);
  coap_address_copy(local_addr, &vs->local);
  coap_address_copy(remote_addr, &vs->remote);
  if (coap_is_mcast(server)) {
    coap_address_copy(&sock->mcast_addr, &vs->remote);
    sock->flags |= COAP_SOCKET_MULTICAST;
    vs->mcast = 1;
  } else {
    sock->flags |= COAP_SOCKET_CONNECTED;
  }
  ev_begin("connected");
  ev_int("vs", vs->id);
  ev_addr("local", &vs->local);
  ev_addr("remote", &vs->remote);
  ev_end();
  return 1;
}

void
__wrap_coap_socket_close(coap_socket_t *sock) {
  vsock_t *vs = vs_find(sock);
  if (vs) {
    ev_begin("closed");
    ev_int("vs", vs->id);
    ev_int("kind", vs->kind);
    ev_int("conn", vs->conn);
    ev_int("init", vs->initiator);
    ev_end();
    vs_drop_queue(vs);
    close(vs->fd);
    vs->used = 0;
  }
  sock->fd = COAP_INVALID_SOCKET;
  sock->flags = COAP_SOCKET_EMPTY;
}

int vf_defer_connect = 0; /* TCP connects stay "in progress" until the harness completes them */
int vf_send_fail_countdown = 0; /* k>0: the k-th send returns -1 */

ssize_t
__wrap_coap_socket_send(coap_socket_t *sock, coap_session_t *session, const uint8_t *data,
                        size_t datalen) {
  vsock_t *vs = vs_find(sock);
  if (vf_send_fail_countdown > 0 && --vf_send_fail_countdown == 0) {
    /* the datagram the socket refused: visible to the monitors, absent from the wire */
    ev_begin("wirefail");
    ev_int("vs", vs ? vs->id : -1);
    ev_addr("from", &session->addr_info.local);
    ev_addr("to", &session->addr_info.remote);
    ev_hex("b", data, datalen);
    ev_end();
    errno = ENOBUFS;
    return -1;
  }
  ev_begin("wire");
  ev_int("vs", vs ? vs->id : -1);
  ev_addr("from", &session->addr_info.local);
  ev_addr("to", &session->addr_info.remote);
  ev_hex("b", data, datalen);
  ev_end();
  return (ssize_t)datalen;
}

ssize_t
__wrap_coap_socket_recv(coap_socket_t *sock, coap_packet_t *packet) {
  vsock_t *vs = vs_find(sock);
  vchunk_t *c;
  size_t n;

  if ((sock->flags & COAP_SOCKET_CAN_READ) == 0)
    return -1;
  sock->flags &= ~COAP_SOCKET_CAN_READ;
  if (!vs || !vs->q) {
    errno = EAGAIN;
    return -1;
  }
  c = vs->q;
  vs->q = c->next;
  if (c->icmp) {
    free(c);
    errno = ECONNREFUSED;
    return -2;
  }
  n = c->len > COAP_RXBUFFER_SIZE ? COAP_RXBUFFER_SIZE : c->len;
  memcpy(packet->payload, c->data, n);
  packet->length = n;
  if (!(sock->flags & COAP_SOCKET_CONNECTED)) {
    coap_address_copy(&packet->addr_info.remote, &c->from);
    coap_address_copy(&packet->addr_info.local, &c->to);
  }
  packet->ifindex = 1;
  free(c);
  return (ssize_t)n;
}

/* --- stream sockets --- */
int
__wrap_coap_socket_bind_tcp(coap_socket_t *sock, const coap_address_t *listen_addr,
                            coap_address_t *bound_addr) {
  vsock_t *vs = vs_new(sock, VS_TCP_LISTEN);
  vs->local = *listen_addr;
  coap_address_copy(bound_addr, listen_addr);
  sock->flags |= COAP_SOCKET_NOT_EMPTY | COAP_SOCKET_BOUND | COAP_SOCKET_WANT_ACCEPT;
  ev_begin("bound");
  ev_int("vs", vs->id);
  ev_int("tcp", 1);
  ev_addr("addr", &vs->local);
  ev_end();
  return 1;
}

int
__wrap_coap_socket_accept_tcp(coap_socket_t *server, coap_socket_t *new_client,
                              coap_address_t *local_addr, coap_address_t *remote_addr,
                              void *extra) {
  vsock_t *ls = vs_find(server);
  vsock_t *vs;
  vchunk_t *c;
  (void)extra;
  server->flags &= ~COAP_SOCKET_CAN_ACCEPT;
  if (!ls || !ls->q)
    return 0;
  c = ls->q;
  ls->q = c->next;
  if (ls->q)
    server->flags |= COAP_SOCKET_CAN_ACCEPT;
  vs = vs_new(new_client, VS_TCP_CONN);
  vs->node = ls->node;
  vs->local = ls->local;
  vs->remote = c->from;
  vs->conn = c->conn;
  coap_address_copy(local_addr, &vs->local);
  coap_address_copy(remote_addr, &vs->remote);
  new_client->flags |= COAP_SOCKET_NOT_EMPTY | COAP_SOCKET_CONNECTED | COAP_SOCKET_WANT_READ;
  free(c);
  ev_begin("accepted");
  ev_int("vs", vs->id);
  ev_int("conn", vs->conn);
  ev_addr("remote", &vs->remote);
  ev_end();
  return 1;
}

int
__wrap_coap_socket_connect_tcp1(coap_socket_t *sock, const coap_address_t *local_if,
                                const coap_address_t *server, int default_port,
                                coap_address_t *local_addr, coap_address_t *remote_addr) {
  vsock_t *vs = vs_new(sock, VS_TCP_CONN);
  sock->flags &= ~COAP_SOCKET_CONNECTED;
  vs->remote = *server;
  if (coap_address_get_port(&vs->remote) == 0)
    coap_address_set_port(&vs->remote, (uint16_t)default_port);
  auto_local(vs, local_if, server);
  vs->conn = next_conn++;
  vs->initiator = 1;
  coap_address_copy(local_addr, &vs->local);
  coap_address_copy(remote_addr, &vs->remote);
  if (vf_defer_connect)
    /* a connect() in progress: completed by the harness (CAN_CONNECT) in a later step */
    sock->flags |= COAP_SOCKET_NOT_EMPTY | COAP_SOCKET_WANT_CONNECT;
  else
    sock->flags |= COAP_SOCKET_NOT_EMPTY | COAP_SOCKET_CONNECTED | COAP_SOCKET_WANT_READ;
  ev_begin("tcp_connect");
  ev_int("vs", vs->id);
  ev_int("conn", vs->conn);
  ev_addr("local", &vs->local);
  ev_addr("remote", &vs->remote);
  ev_end();
  return 1;
}

int
__wrap_coap_socket_connect_tcp2(coap_socket_t *sock, coap_address_t *local_addr,
                                coap_address_t *remote_addr) {
  (void)local_addr;
  (void)remote_addr;
  sock->flags &= ~(COAP_SOCKET_WANT_CONNECT | COAP_SOCKET_CAN_CONNECT);
  sock->flags |= COAP_SOCKET_CONNECTED | COAP_SOCKET_WANT_READ;
  return 1;
}

int
vf_new_conn_id(void) {
  return next_conn++;
}

ssize_t
__wrap_coap_socket_write(coap_socket_t *sock, const uint8_t *data, size_t data_len) {
  vsock_t *vs = vs_find(sock);
  sock->flags &= ~(COAP_SOCKET_WANT_WRITE | COAP_SOCKET_CAN_WRITE);
  if (!vs) {
    errno = EPIPE;
    return -1;
  }
  ev_begin("swrite");
  ev_int("vs", vs->id);
  ev_int("conn", vs->conn);
  ev_int("init", vs->initiator);
  ev_hex("b", data, data_len);
  ev_end();
  return (ssize_t)data_len;
}

ssize_t
__wrap_coap_socket_read(coap_socket_t *sock, uint8_t *data, size_t data_len) {
  vsock_t *vs = vs_find(sock);
  vchunk_t *c;
  size_t n;
  if (!vs) {
    sock->flags &= ~COAP_SOCKET_CAN_READ;
    errno = ECONNRESET;
    return -1;
  }
  c = vs->q;
  if (!c) {
    sock->flags &= ~COAP_SOCKET_CAN_READ;
    if (vs->peer_closed) {
      errno = ECONNRESET;
      return -1;
    }
    errno = EAGAIN;
    return 0;
  }
  n = c->len - c->off;
  if (n > data_len)
    n = data_len;
  memcpy(data, c->data + c->off, n);
  c->off += n;
  if (c->off == c->len) {
    vs->q = c->next;
    free(c);
  }
  vs->reads++;
  if (n < data_len)
    sock->flags &= ~COAP_SOCKET_CAN_READ;
  return (ssize_t)n;
}

/* ------------------------------------------------------------ allocator - */
typedef struct shadow_t {
  void *p;
  size_t size;
  int type;
  long ord;
} shadow_t;

#define SH_SIZE (1 << 16)
static shadow_t *shadow;
static long sh_live;
long vf_alloc_ord = 0;
long vf_fail_at = 0;      /* fail the allocation with this ordinal (0 = off) */
long vf_fail_at2 = 0;     /* and/or this one */
long vf_alloc_fails = 0;
long vf_bad_free = 0;
size_t vf_max_alloc = 0;
int vf_shadow_on = 1;

void *__real_coap_malloc_type(coap_memory_tag_t type, size_t size);
void *__real_coap_realloc_type(coap_memory_tag_t type, void *p, size_t size);
void __real_coap_free_type(coap_memory_tag_t type, void *p);

static size_t
sh_slot(void *p) {
  return (size_t)(((uintptr_t)p >> 4) * 2654435761u) & (SH_SIZE - 1);
}

static void
sh_add(void *p, size_t size, int type) {
  size_t i;
  if (!shadow)
    shadow = (shadow_t *)calloc(SH_SIZE, sizeof(shadow_t));
  if (sh_live > SH_SIZE / 2)
    return; /* table saturated: stop tracking rather than lie */
  for (i = sh_slot(p);; i = (i + 1) & (SH_SIZE - 1)) {
    if (shadow[i].p == NULL || shadow[i].p == (void *)1) {
      shadow[i].p = p;
      shadow[i].size = size;
      shadow[i].type = type;
      shadow[i].ord = vf_alloc_ord;
      sh_live++;
      return;
    }
  }
}

static int
sh_del(void *p, int type) {
  size_t i;
  if (!shadow)
    return 0;
  for (i = sh_slot(p); shadow[i].p; i = (i + 1) & (SH_SIZE - 1)) {
    if (shadow[i].p == p) {
      int ok = 1;
      (void)type;
      shadow[i].p = (void *)1; /* tombstone */
      sh_live--;
      return ok;
    }
  }
  return 0;
}

static int
failpoint(const char *what, coap_memory_tag_t type, size_t size) {
  vf_alloc_ord++;
  if (size > vf_max_alloc)
    vf_max_alloc = size;
  if (vf_alloc_ord == vf_fail_at || vf_alloc_ord == vf_fail_at2) {
    void *bt[12];
    int n = backtrace(bt, 12), i;
    char **syms = backtrace_symbols(bt, n);
    vf_alloc_fails++;
    ev_begin("allocfail");
    ev_int("ord", vf_alloc_ord);
    ev_str("what", what);
    ev_int("type", (long)type);
    ev_int("size", (long)size);
    {
      char site[512];
      size_t o = 0;
      site[0] = 0;
      for (i = 2; i < n && i < 8 && syms; i++) {
        /* "exe(func+0x..) [addr]" -> func */
        const char *l = strchr(syms[i], '(');
        const char *r = l ? strchr(l, '+') : NULL;
        if (l && r && r > l + 1 && o + (size_t)(r - l) + 2 < sizeof(site)) {
          if (o)
            site[o++] = '<';
          memcpy(site + o, l + 1, (size_t)(r - l - 1));
          o += (size_t)(r - l - 1);
          site[o] = 0;
        }
      }
      ev_str("site", site);
    }
    ev_end();
    free(syms);
    return 1;
  }
  return 0;
}

#define VF_MAX_ALLOC ((size_t)256 << 20)
long vf_big_refused = 0;

void *
__wrap_coap_malloc_type(coap_memory_tag_t type, size_t size) {
  void *p;
  if (failpoint("malloc", type, size))
    return NULL;
  /* The machine's memory is finite in every build variant alike (the sanitizer builds have
   * max_allocation_size_mb=256): a request for more fails, as malloc() does on a system
   * with a limit.  Without this a peer-chosen Size1 of 4 GiB makes the uninstrumented
   * build under valgrind eat the sandbox's memory until the kernel kills something. */
  if (size > VF_MAX_ALLOC) {
    vf_big_refused++;
    return NULL;
  }
  p = __real_coap_malloc_type(type, size);
  if (p && vf_shadow_on)
    sh_add(p, size, (int)type);
  return p;
}

void *
__wrap_coap_realloc_type(coap_memory_tag_t type, void *old, size_t size) {
  void *p;
  if (failpoint("realloc", type, size))
    return NULL;
  if (size > VF_MAX_ALLOC) {
    vf_big_refused++;
    return NULL;
  }
  if (old && vf_shadow_on && !sh_del(old, (int)type)) {
    vf_bad_free++;
    ev_begin("badfree");
    ev_str("what", "realloc-of-unknown-pointer");
    ev_int("type", (long)type);
    ev_end();
  }
  p = __real_coap_realloc_type(type, old, size);
  if (p && vf_shadow_on)
    sh_add(p, size, (int)type);
  else if (!p && old && vf_shadow_on)
    sh_add(old, 0, (int)type);
  return p;
}

void
__wrap_coap_free_type(coap_memory_tag_t type, void *p) {
  if (p && vf_shadow_on && !sh_del(p, (int)type)) {
    vf_bad_free++;
    ev_begin("badfree");
    ev_str("what", "free-of-unknown-or-freed-pointer");
    ev_int("type", (long)type);
    ev_end();
  }
  __real_coap_free_type(type, p);
}

void
vf_shadow_report(void) {
  size_t i;
  long bytype[64];
  long total = 0;
  memset(bytype, 0, sizeof(bytype));
  if (shadow)
    for (i = 0; i < SH_SIZE; i++)
      if (shadow[i].p && shadow[i].p != (void *)1) {
        bytype[shadow[i].type & 63]++;
        total++;
      }
  ev_begin("shadow");
  ev_int("live", total);
  ev_int("allocs", vf_alloc_ord);
  ev_int("badfree", vf_bad_free);
  ev_int("maxalloc", (long)vf_max_alloc);
  if (total) {
    char buf[512];
    size_t o = 0;
    buf[0] = 0;
    for (i = 0; i < 64; i++)
      if (bytype[i])
        o += (size_t)snprintf(buf + o, sizeof(buf) - o, "%s%zu:%ld", o ? "," : "", i, bytype[i]);
    ev_str("bytype", buf);
  }
  ev_end();
}
