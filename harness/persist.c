/* Crash-point injection for libcoap's observe persistence (C17).
 *
 * The persistence code in src/coap_subscribe.c talks to the disk through plain
 * stdio and rename()/remove().  The harness is linked with ld --wrap for those
 * symbols; every call that concerns a file under the persistence directory is a
 * "persistence operation" with an ordinal.  `vf_pop_kill_at = k` makes the
 * process die (no stdio flush, no atexit: what kill -9 leaves behind) right
 * before operation k is carried out.  Calls that concern other streams (the
 * harness's own stdout/stderr) pass straight through and are not counted. */
#include "world.h"
#include <stdarg.h>
#include <unistd.h>

FILE *__real_fopen(const char *path, const char *mode);
int __real_fclose(FILE *f);
size_t __real_fwrite(const void *p, size_t sz, size_t n, FILE *f);
size_t __real_fread(void *p, size_t sz, size_t n, FILE *f);
char *__real_fgets(char *s, int n, FILE *f);
int __real_fflush(FILE *f);
int __real_rename(const char *a, const char *b);
int __real_remove(const char *a);

char vf_pdir[256];
long vf_pop_ord = 0;
long vf_pop_kill_at = 0;
int vf_pop_log = 0;

#define MAX_TRACKED 32
static struct {
  FILE *f;
  char name[64];
} tracked[MAX_TRACKED];

static const char *
in_pdir(const char *path) {
  size_t n = strlen(vf_pdir);
  if (!n || !path || strncmp(path, vf_pdir, n) || path[n] != '/')
    return NULL;
  return path + n + 1;
}

static int
tr_find(FILE *f) {
  int i;
  if (!f || !vf_pdir[0])
    return -1;
  for (i = 0; i < MAX_TRACKED; i++)
    if (tracked[i].f == f)
      return i;
  return -1;
}

static void
pop(const char *op, const char *name, const char *arg) {
  char line[256];
  int n;
  vf_pop_ord++;
  if (vf_pop_kill_at && vf_pop_ord == vf_pop_kill_at) {
    n = snprintf(line, sizeof(line), "{\"e\":\"killed\",\"k\":%ld,\"op\":\"%s\",\"file\":\"%s\"}\n",
                 vf_pop_ord, op, name);
    __real_fwrite(line, 1, (size_t)n, stdout);
    __real_fflush(stdout);
    _exit(99);
  }
  if (vf_pop_log) {
    n = snprintf(line, sizeof(line),
                 "{\"e\":\"pop\",\"k\":%ld,\"op\":\"%s\",\"file\":\"%s\",\"arg\":\"%s\"}\n",
                 vf_pop_ord, op, name, arg ? arg : "");
    __real_fwrite(line, 1, (size_t)n, stdout);
  }
}

FILE *
__wrap_fopen(const char *path, const char *mode) {
  const char *name = in_pdir(path);
  FILE *f;
  int i;
  if (!name)
    return __real_fopen(path, mode);
  pop("fopen", name, mode);
  f = __real_fopen(path, mode);
  if (f) {
    for (i = 0; i < MAX_TRACKED; i++)
      if (!tracked[i].f) {
        tracked[i].f = f;
        snprintf(tracked[i].name, sizeof(tracked[i].name), "%s", name);
        break;
      }
  }
  return f;
}

int
__wrap_fclose(FILE *f) {
  int i = tr_find(f);
  if (i >= 0) {
    pop("fclose", tracked[i].name, NULL);
    tracked[i].f = NULL;
  }
  return __real_fclose(f);
}

size_t
__wrap_fwrite(const void *p, size_t sz, size_t n, FILE *f) {
  int i = tr_find(f);
  if (i >= 0)
    pop("fwrite", tracked[i].name, NULL);
  return __real_fwrite(p, sz, n, f);
}

size_t
__wrap_fread(void *p, size_t sz, size_t n, FILE *f) {
  int i = tr_find(f);
  if (i >= 0)
    pop("fread", tracked[i].name, NULL);
  return __real_fread(p, sz, n, f);
}

char *
__wrap_fgets(char *s, int n, FILE *f) {
  int i = tr_find(f);
  if (i >= 0)
    pop("fgets", tracked[i].name, NULL);
  return __real_fgets(s, n, f);
}

int
__wrap_fflush(FILE *f) {
  int i = tr_find(f);
  if (i >= 0)
    pop("fflush", tracked[i].name, NULL);
  return __real_fflush(f);
}

int
__wrap_fprintf(FILE *f, const char *fmt, ...) {
  va_list ap;
  int r, i = tr_find(f);
  if (i >= 0)
    pop("fprintf", tracked[i].name, NULL);
  va_start(ap, fmt);
  r = vfprintf(f, fmt, ap);
  va_end(ap);
  return r;
}

int
__wrap_rename(const char *a, const char *b) {
  const char *na = in_pdir(a), *nb = in_pdir(b);
  if (na || nb)
    pop("rename", na ? na : a, nb ? nb : b);
  return __real_rename(a, b);
}

int
__wrap_remove(const char *a) {
  const char *na = in_pdir(a);
  if (na)
    pop("remove", na, NULL);
  return __real_remove(a);
}
