/* pure_uri.c - URI function cases for pure.c (property C16).
 *
 * U split <hex>             coap_split_uri
 * U splitproxy <hex>        coap_split_proxy_uri
 * U path <buflen> <hex>     coap_split_path into an exact-size buffer
 * U query <buflen> <hex>    coap_split_query into an exact-size buffer
 * U pathopt <hex>           coap_path_into_optlist(Uri-Path)
 * U queryopt <hex>          coap_query_into_optlist(Uri-Query)
 * U uriopt <create> <dst> <hex>   coap_split_uri + coap_uri_into_optlist
 *                                 dst: "-" (NULL) or a numeric IPv4/IPv6 literal
 * U newuri <hex>            coap_new_uri + coap_clone_uri
 * U getpath <hex,hex,...>   PDU with these Uri-Path values -> coap_get_uri_path
 *                           -> coap_split_path of the result
 * U getquery <hex,hex,...>  same for Uri-Query / coap_get_query / coap_split_query
 */
#include "common.h"
#include <arpa/inet.h>

static void
put_str(FILE *out, const coap_str_const_t *s) {
  if (s->s == NULL && s->length == 0)
    fputs("~", out); /* unset */
  else
    vf_puthex(out, s->s, s->length);
}

static void
put_uri(FILE *out, int r, const coap_uri_t *u) {
  fprintf(out, "%d", r);
  if (r >= 0) {
    fprintf(out, " %d ", (int)u->scheme);
    put_str(out, &u->host);
    fprintf(out, " %u ", (unsigned)u->port);
    put_str(out, &u->path);
    fputc(' ', out);
    put_str(out, &u->query);
  }
}

static void
put_optlist(FILE *out, coap_optlist_t *chain) {
  coap_optlist_t *o;
  int first = 1;
  for (o = chain; o; o = o->next) {
    if (!first)
      fputc(';', out);
    first = 0;
    fprintf(out, "%u=", (unsigned)o->number);
    vf_puthex(out, o->data, o->length);
  }
  if (first)
    fputc('-', out);
}

/* options written by coap_split_path/_query: delta 0, back to back */
static void
put_optbuf(FILE *out, const uint8_t *buf, size_t used, int n) {
  int i;
  const uint8_t *p = buf;
  if (n <= 0) {
    fputc('-', out);
    return;
  }
  for (i = 0; i < n; i++) {
    coap_option_t o;
    size_t sz = coap_opt_parse(p, used - (size_t)(p - buf), &o);
    if (i)
      fputc(';', out);
    if (!sz) {
      fputs("BAD", out);
      return;
    }
    fputc('=', out); /* so that one empty segment differs from no segment */
    if (o.length)
      vf_puthex(out, o.value, o.length);
    p += sz;
  }
}

static int
split_fields(char *s, char **out, int max) {
  int n = 0;
  char *save = NULL, *t;
  for (t = strtok_r(s, " \t\r\n", &save); t && n < max; t = strtok_r(NULL, " \t\r\n", &save))
    out[n++] = t;
  return n;
}

static coap_pdu_t *
pdu_with_opts(uint16_t num, char *list) {
  coap_pdu_t *pdu = coap_pdu_init(COAP_MESSAGE_CON, COAP_REQUEST_CODE_GET, 1, 0);
  char *save = NULL, *t;
  if (!pdu)
    return NULL;
  if (!strcmp(list, "none"))
    return pdu;
  for (t = strtok_r(list, ",", &save); t; t = strtok_r(NULL, ",", &save)) {
    size_t len;
    uint8_t *b = vf_unhex(t, strlen(t), &len);
    if (!coap_add_option(pdu, num, len, b)) {
      free(b);
      coap_delete_pdu(pdu);
      return NULL;
    }
    free(b);
  }
  return pdu;
}

void
run_uri_case(char *line, FILE *out) {
  char *f[6];
  int nf = split_fields(line, f, 6);
  size_t len = 0;
  uint8_t *in = NULL;

  if (nf < 2) {
    fputs("?", out);
    return;
  }
  if (!strcmp(f[0], "split") || !strcmp(f[0], "splitproxy")) {
    coap_uri_t u;
    int r;
    in = vf_unhex(f[1], strlen(f[1]), &len);
    memset(&u, 0, sizeof(u));
    r = f[0][5] ? coap_split_proxy_uri(in, len, &u) : coap_split_uri(in, len, &u);
    put_uri(out, r, &u);
  } else if ((!strcmp(f[0], "path") || !strcmp(f[0], "query")) && nf >= 3) {
    size_t buflen = strtoul(f[1], NULL, 10);
    size_t cap = buflen;
    uint8_t *buf = (uint8_t *)malloc(cap ? cap : 0);
    int n;
    in = vf_unhex(f[2], strlen(f[2]), &len);
    if (f[0][0] == 'p')
      n = coap_split_path(in, len, buf, &buflen);
    else
      n = coap_split_query(in, len, buf, &buflen);
    fprintf(out, "%d %zu ", n, buflen);
    if (buflen <= cap)
      put_optbuf(out, buf, buflen, n);
    else
      fputs("OVER", out);
    free(buf);
  } else if (!strcmp(f[0], "pathopt") || !strcmp(f[0], "queryopt")) {
    coap_optlist_t *chain = NULL;
    int r;
    in = vf_unhex(f[1], strlen(f[1]), &len);
    if (f[0][0] == 'p')
      r = coap_path_into_optlist(in, len, COAP_OPTION_URI_PATH, &chain);
    else
      r = coap_query_into_optlist(in, len, COAP_OPTION_URI_QUERY, &chain);
    fprintf(out, "%d ", r);
    put_optlist(out, chain);
    coap_delete_optlist(chain);
  } else if (!strcmp(f[0], "uriopt") && nf >= 4) {
    coap_uri_t u;
    coap_address_t dst, *dstp = NULL;
    coap_optlist_t *chain = NULL;
    int create = atoi(f[1]);
    int r, r2 = -9;
    in = vf_unhex(f[3], strlen(f[3]), &len);
    if (strcmp(f[2], "-")) {
      coap_address_init(&dst);
      if (strchr(f[2], ':')) {
        dst.addr.sin6.sin6_family = AF_INET6;
        inet_pton(AF_INET6, f[2], &dst.addr.sin6.sin6_addr);
        dst.size = sizeof(struct sockaddr_in6);
      } else {
        dst.addr.sin.sin_family = AF_INET;
        inet_pton(AF_INET, f[2], &dst.addr.sin.sin_addr);
        dst.size = sizeof(struct sockaddr_in);
      }
      dstp = &dst;
    }
    memset(&u, 0, sizeof(u));
    r = coap_split_uri(in, len, &u);
    if (r >= 0)
      r2 = coap_uri_into_optlist(&u, dstp, &chain, create);
    fprintf(out, "%d %d ", r, r2);
    put_optlist(out, chain);
    coap_delete_optlist(chain);
  } else if (!strcmp(f[0], "newuri")) {
    coap_uri_t *u, *c;
    in = vf_unhex(f[1], strlen(f[1]), &len);
    u = coap_new_uri(in, (unsigned int)len);
    if (!u) {
      fputs("null", out);
    } else {
      put_uri(out, 0, u);
      c = coap_clone_uri(u);
      fputs(" / ", out);
      if (c) {
        /* the clone carries host, port, path, query (scheme is not copied) */
        put_str(out, &c->host);
        fprintf(out, " %u ", (unsigned)c->port);
        put_str(out, &c->path);
        fputc(' ', out);
        put_str(out, &c->query);
        coap_delete_uri(c);
      } else
        fputs("null", out);
      coap_delete_uri(u);
    }
  } else if (!strcmp(f[0], "getpath") || !strcmp(f[0], "getquery")) {
    int isq = f[0][3] == 'q';
    coap_pdu_t *pdu = pdu_with_opts(isq ? COAP_OPTION_URI_QUERY : COAP_OPTION_URI_PATH, f[1]);
    coap_string_t *s;
    if (!pdu) {
      fputs("nopdu", out);
      return;
    }
    s = isq ? coap_get_query(pdu) : coap_get_uri_path(pdu);
    if (!s) {
      fputs("null", out);
    } else {
      /* feed the string back through the splitter on an exact-size copy */
      uint8_t *copy = vf_exact(s->s, s->length);
      size_t cap = s->length * 2 + 16, buflen = cap;
      uint8_t *buf = (uint8_t *)malloc(cap);
      int n;
      vf_puthex(out, s->s, s->length);
      if (isq)
        n = coap_split_query(copy, s->length, buf, &buflen);
      else
        n = coap_split_path(copy, s->length, buf, &buflen);
      fprintf(out, " %d ", n);
      put_optbuf(out, buf, buflen, n);
      free(buf);
      free(copy);
      coap_delete_string(s);
    }
    coap_delete_pdu(pdu);
  } else {
    fputs("?", out);
  }
  free(in);
}
