/* pure_wk.c - link-format printing cases for pure.c (property C20).
 *
 * W <mode> <filterhex|~> <res>;<res>;...
 *    mode: "all"  enumerate every (offset, buflen) in 0..L+2 x 0..L+2
 *          "diag" as all but only the diagonal family buflen in {0,1,2,L-off-1,L-off,L-off+1,L+2}
 *    res = <pathhex>:<flags>:<attr>,<attr>,...     flags: 1 observable, 2 OSCORE-only
 *    attr = <namehex>=<valuehex> | <namehex>=-  (empty value) | <namehex> (no value)
 *
 * Output:  <L> <fullhex> <nwindows> <nbad> <firstbad or -> ; then per resource
 *          link:<pathhex>:<linkhex>:<nwindows>:<nbad>:<firstbad>
 *
 * The window oracle (my code, not libcoap's): for a full listing F of length L
 * obtained with a roomy buffer at offset 0, a call with (offset o, buffer b)
 * must write exactly F[o : o+b] (clipped), report total length L, and for b > 0
 * set TRUNC iff o + written < L.  Each call gets an exact-size heap buffer so
 * that ASan sees any write outside it.
 */
#include "common.h"

static coap_context_t *wk_ctx;

static coap_str_const_t *
mkstr(const char *hex) {
  size_t len;
  uint8_t *b = vf_unhex(hex, strlen(hex), &len);
  coap_str_const_t *s = coap_new_str_const(b, len);
  free(b);
  return s;
}

typedef struct {
  long n, bad;
  char first[96];
} wstat_t;

static void
note_bad(wstat_t *st, size_t off, size_t blen, const char *what) {
  if (!st->bad)
    snprintf(st->first, sizeof(st->first), "%zu,%zu,%s", off, blen, what);
  st->bad++;
}

static void
check_window(wstat_t *st, const uint8_t *full, size_t L, size_t off, size_t blen,
             coap_print_status_t res, size_t total, const uint8_t *buf) {
  size_t avail = off < L ? L - off : 0;
  size_t expect = blen < avail ? blen : avail;
  size_t wrote = COAP_PRINT_OUTPUT_LENGTH(res);
  st->n++;
  if (res & COAP_PRINT_STATUS_ERROR) {
    note_bad(st, off, blen, "error");
    return;
  }
  if (total != L) {
    note_bad(st, off, blen, "total");
    return;
  }
  if (wrote != expect) {
    note_bad(st, off, blen, "written");
    return;
  }
  if (wrote && memcmp(buf, full + off, wrote)) {
    note_bad(st, off, blen, "bytes");
    return;
  }
  if (blen > 0) {
    int trunc = (res & COAP_PRINT_STATUS_TRUNC) != 0;
    int want = off + wrote < L;
    if (trunc != want)
      note_bad(st, off, blen, want ? "trunc-missing" : "trunc-spurious");
  }
}

static int
pick_buflens(int diag, size_t L, size_t off, size_t *out) {
  int n = 0;
  size_t b;
  if (!diag) {
    for (b = 0; b <= L + 2; b++)
      out[n++] = b;
    return n;
  }
  out[n++] = 0;
  out[n++] = 1;
  out[n++] = 2;
  if (off < L) {
    size_t rem = L - off;
    if (rem > 1)
      out[n++] = rem - 1;
    out[n++] = rem;
    out[n++] = rem + 1;
  }
  out[n++] = L + 2;
  return n;
}

void
run_wk_case(char *line, FILE *out) {
  char *save = NULL;
  char *mode = strtok_r(line, " \t\r\n", &save);
  char *filt = strtok_r(NULL, " \t\r\n", &save);
  char *reslist = strtok_r(NULL, " \t\r\n", &save);
  coap_string_t *filter = NULL;
  coap_resource_t *res[64];
  int nres = 0, i, diag;
  uint8_t *full;
  size_t L, cap, off;
  coap_print_status_t st;
  wstat_t ws = {0, 0, "-"};
  size_t *blens;

  if (!mode || !filt) {
    fputs("?", out);
    return;
  }
  diag = !strcmp(mode, "diag");
  if (!wk_ctx)
    wk_ctx = coap_new_context(NULL);
  if (strcmp(filt, "~")) {
    size_t flen;
    uint8_t *fb = vf_unhex(filt, strlen(filt), &flen);
    /* coap_print_wellknown() is public and takes any coap_string_t: length-delimited, no
     * terminator promised - the bytes live in an exact-size block of their own */
    filter = (coap_string_t *)coap_malloc_type(COAP_STRING, sizeof(coap_string_t));
    filter->s = fb;
    filter->length = flen;
  }
  if (reslist && strcmp(reslist, "-")) {
    char *rs = NULL, *r;
    for (r = strtok_r(reslist, ";", &rs); r && nres < 64; r = strtok_r(NULL, ";", &rs)) {
      char *p1 = strchr(r, ':');
      char *p2 = p1 ? strchr(p1 + 1, ':') : NULL;
      coap_resource_t *rp;
      int flags;
      if (!p1 || !p2)
        continue;
      *p1 = 0;
      *p2 = 0;
      flags = atoi(p1 + 1);
      rp = coap_resource_init(mkstr(r), COAP_RESOURCE_FLAGS_RELEASE_URI |
                              ((flags & 2) ? COAP_RESOURCE_FLAGS_OSCORE_ONLY : 0));
      if (flags & 1)
        coap_resource_set_get_observable(rp, 1);
      if (p2[1] && strcmp(p2 + 1, "-")) {
        char *as = NULL, *a;
        for (a = strtok_r(p2 + 1, ",", &as); a; a = strtok_r(NULL, ",", &as)) {
          char *eq = strchr(a, '=');
          coap_str_const_t *name, *val = NULL;
          if (eq) {
            *eq = 0;
            val = mkstr(eq + 1);
          }
          name = mkstr(a);
          coap_add_attr(rp, name, val,
                        COAP_ATTR_FLAGS_RELEASE_NAME | COAP_ATTR_FLAGS_RELEASE_VALUE);
        }
      }
      coap_add_resource(wk_ctx, rp);
      res[nres++] = rp;
    }
  }

  /* full listing with a roomy buffer */
  cap = 1 << 16;
  full = (uint8_t *)malloc(cap);
  L = cap;
  st = coap_print_wellknown(wk_ctx, full, &L, 0, filter);
  if ((st & COAP_PRINT_STATUS_ERROR) || L > cap || COAP_PRINT_OUTPUT_LENGTH(st) != L) {
    fprintf(out, "FULLERR %x %zu", (unsigned)st, L);
    goto done;
  }
  fprintf(out, "%zu ", L);
  vf_puthex(out, full, L);
  blens = (size_t *)malloc((cap + 8) * sizeof(size_t)); /* serves listing and links */
  for (off = 0; off <= L + 2; off++) {
    int nb = pick_buflens(diag, L, off, blens), k;
    for (k = 0; k < nb; k++) {
      size_t blen = blens[k], total = blen;
      uint8_t *buf = (uint8_t *)malloc(blen);
      coap_print_status_t r = coap_print_wellknown(wk_ctx, buf, &total, off, filter);
      check_window(&ws, full, L, off, blen, r, total, buf);
      free(buf);
    }
  }
  fprintf(out, " %ld %ld %s", ws.n, ws.bad, ws.first);

  /* each resource's own link, all windows */
  for (i = 0; i < nres; i++) {
    uint8_t *lf = (uint8_t *)malloc(cap);
    size_t LL = cap, o0 = 0;
    wstat_t ls = {0, 0, "-"};
    coap_print_status_t r = coap_print_link(res[i], lf, &LL, &o0);
    fputs(" link:", out);
    vf_puthex(out, res[i]->uri_path->s, res[i]->uri_path->length);
    fputc(':', out);
    if ((r & COAP_PRINT_STATUS_ERROR) || LL > cap) {
      fputs("ERR", out);
      free(lf);
      continue;
    }
    vf_puthex(out, lf, LL);
    for (off = 0; off <= LL + 2; off++) {
      int nb = pick_buflens(diag, LL, off, blens), k;
      for (k = 0; k < nb; k++) {
        size_t blen = blens[k], total = blen, o = off;
        uint8_t *buf;
        if (blen > LL + 2)
          continue;
        buf = (uint8_t *)malloc(blen);
        r = coap_print_link(res[i], buf, &total, &o);
        check_window(&ls, lf, LL, off, blen, r, total, buf);
        /* with a non-empty buffer the offset is consumed by exactly min(off, LL) */
        if (blen > 0 && off - o != (off < LL ? off : LL))
          note_bad(&ls, off, blen, "offset-consumed");
        free(buf);
      }
    }
    fprintf(out, ":%ld:%ld:%s", ls.n, ls.bad, ls.first);
    free(lf);
  }
  free(blens);
done:
  free(full);
  if (filter) {
    free(filter->s);
    coap_free_type(COAP_STRING, filter);
  }
  coap_delete_all_resources(wk_ctx);
}
