/* Shared helpers for the verification harnesses (not part of libcoap). */
#ifndef VF_COMMON_H
#define VF_COMMON_H

#include "coap3/coap_libcoap_build.h"

#include <stdio.h>
#include <stdlib.h>
#include <string.h>
#include <stdint.h>
#include <signal.h>
#include <unistd.h>

/* ---- exact-size heap copies so that ASan sees a 1-byte overread ---- */
static inline uint8_t *
vf_exact(const uint8_t *src, size_t len) {
  /* malloc(0) may return a unique pointer; keep it non-NULL and unreadable */
  uint8_t *p = (uint8_t *)malloc(len ? len : 1);
  if (!p)
    abort();
  if (len)
    memcpy(p, src, len);
  if (!len) {
    /* a 1-byte block of which 0 bytes are legal would not be flagged; shrink */
    free(p);
    p = (uint8_t *)malloc(0);
  }
  return p;
}

static inline int
vf_hexval(int c) {
  if (c >= '0' && c <= '9')
    return c - '0';
  if (c >= 'a' && c <= 'f')
    return c - 'a' + 10;
  if (c >= 'A' && c <= 'F')
    return c - 'A' + 10;
  return -1;
}

/* decode hex string of given text length into freshly malloc'ed exact buffer;
 * "-" or "" means empty */
static inline uint8_t *
vf_unhex(const char *s, size_t slen, size_t *outlen) {
  size_t n, i;
  uint8_t *tmp, *out;

  if (slen == 1 && s[0] == '-')
    slen = 0;
  n = slen / 2;
  tmp = (uint8_t *)malloc(n ? n : 1);
  for (i = 0; i < n; i++)
    tmp[i] = (uint8_t)((vf_hexval(s[2 * i]) << 4) | vf_hexval(s[2 * i + 1]));
  out = vf_exact(tmp, n);
  free(tmp);
  *outlen = n;
  return out;
}

static inline void
vf_puthex(FILE *f, const uint8_t *p, size_t n) {
  static const char hx[] = "0123456789abcdef";
  size_t i;
  if (n == 0 || p == NULL) {
    fputc('-', f);
    return;
  }
  for (i = 0; i < n; i++) {
    fputc(hx[p[i] >> 4], f);
    fputc(hx[p[i] & 15], f);
  }
}

/* ---- "which case was running" on sanitizer death ---- */
extern volatile long vf_cur_case;
void vf_install_death_report(void);

#endif
