#ifndef VF_WORLD_H
#define VF_WORLD_H
#include "common.h"
#include <arpa/inet.h>

#define VF_MAX_SOCKS 512
#define VF_MAX_NODES 8

enum { VS_UDP_EP = 0, VS_UDP_CLIENT = 1, VS_TCP_LISTEN = 2, VS_TCP_CONN = 3 };

typedef struct vchunk_t {
  struct vchunk_t *next;
  coap_address_t from, to;
  int conn;
  int icmp;
  size_t len, off;
  uint8_t data[];
} vchunk_t;

typedef struct vsock_t {
  int used, id, kind, node, fd, conn, initiator, mcast, peer_closed;
  long reads;
  coap_socket_t *sock;
  coap_address_t local, remote;
  vchunk_t *q;
} vsock_t;

extern vsock_t vsocks[VF_MAX_SOCKS];
extern int vf_cur_node;
extern uint64_t vf_now_ms;
extern int vf_real_clock;
extern long vf_alloc_ord, vf_fail_at, vf_fail_at2, vf_alloc_fails, vf_bad_free;
extern size_t vf_max_alloc;
extern int vf_shadow_on;
extern int vf_send_fail_countdown;
extern int vf_defer_connect;

vsock_t *vs_find(const coap_socket_t *sock);
void vs_push(vsock_t *vs, const coap_address_t *from, const coap_address_t *to,
             const uint8_t *data, size_t len);
int vf_new_conn_id(void);
void vf_shadow_report(void);
void vf_tls_virtual_clock(void);

/* event emission (JSON lines on stdout) */
void ev_begin(const char *name);
void ev_int(const char *k, long v);
void ev_str(const char *k, const char *v);
void ev_hex(const char *k, const uint8_t *p, size_t n);
void ev_addr(const char *k, const coap_address_t *a);
void ev_end(void);

#endif
