#!/usr/bin/env python3
"""tools/showwit.py <Cnn> [substr] : print witnesses from replay/<Cnn>"""
import glob, json, sys
prop = sys.argv[1]
sub = sys.argv[2] if len(sys.argv) > 2 else ""
for f in sorted(glob.glob('/verif/replay/%s/*.json' % prop)):
    w = json.load(open(f))
    if sub not in w['signature']:
        continue
    print("=====", w['signature'], "seed", w.get('seed'))
    print(w['explanation'][:600])
    wit = w['witness']
    for k, v in wit.items():
        if k in ('script', 'stderr'):
            continue
        print("  %s: %s" % (k, str(v)[:300]))
    if len(sys.argv) > 3:
        print("\n".join(wit.get('script', [])[:int(sys.argv[3])]))
