#!/bin/sh
# tools/tryseed.sh <patch.diff> <Cnn> [tier]  - apply a seeded change to /repo, run the
# check, undo the change.  Prints the check's last lines and its exit code.
P="$1"; C="$2"; T="${3:-quick}"
cd /repo || exit 9
git diff --quiet || { echo "repo dirty"; exit 9; }
git apply "$P" || { echo "patch does not apply"; exit 9; }
# whatever happens to this script (also a reader that closes the pipe early): undo the change
trap 'git -C /repo checkout -- .' EXIT HUP INT TERM PIPE
cd /verif
VERIF_OUT=/tmp/tryseed-out ./check "$C" --tier "$T" > /tmp/tryseed.$$.log 2>&1
rc=$?
grep -E "signature:|VIOLATION|held on|INCONCLUSIVE|HARNESS|KNOWN" /tmp/tryseed.$$.log | cut -c1-220 | head -12
echo "exit=$rc"
rm -f /tmp/tryseed.$$.log
git -C /repo checkout -- .
exit 0
