#!/usr/bin/env python3
"""tools/seedtable.py - rewrite the table of DESIGN.md 7.5.1 from seeded/*/meta.json."""
import glob
import json
import os
import re

VERIF = os.path.dirname(os.path.dirname(os.path.abspath(__file__)))


def main():
    rows = []
    for f in sorted(glob.glob(os.path.join(VERIF, "seeded", "*", "meta.json"))):
        m = json.load(open(f))
        change = " ".join(m.get("change", "").split()).replace("|", "/")[:100]
        by = m.get("caught_by", m.get("why", "")).replace("|", "/")[:150]
        rows.append("| %s | %s | %s | %s | %s |" % (m["id"], change, m.get("result", "?"), by,
                                                   m.get("repo_head", "?")))
    p = os.path.join(VERIF, "DESIGN.md")
    s = open(p).read()
    head = "| id | change | result | caught by (first signatures) | /repo at |\n|---|---|---|---|---|\n"
    i = s.index(head) + len(head)
    j = s.index("\n\n", i)
    s = s[:i] + "\n".join(rows) + s[j:]
    open(p, "w").write(s)
    res = {}
    for r in rows:
        k = r.split("|")[3].strip()
        res[k] = res.get(k, 0) + 1
    print(len(rows), "rows", res)


if __name__ == "__main__":
    main()
