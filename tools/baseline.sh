#!/bin/sh
# Runs the repository's pinned test suite (176 CUnit tests) with the hook guard
# off (there are no guarded hooks; the suite is built exactly as pinned).
set -e
cmake --build /repo/_build -j16 >/dev/null
cd /repo/_build
./testdriver | tee /tmp/verif-baseline.$$.log | tail -8
grep -q "tests *176 *176 *176 *0" /tmp/verif-baseline.$$.log
rc=$?
rm -f /tmp/verif-baseline.$$.log
exit $rc
