#!/usr/bin/env python3
"""tools/coverage.py [Cnn ...] - which library code do the closed-world workloads reach?
Runs the quick tier of the world-based checks against a --coverage build of the library
(VERIF_WORLD_VARIANT=cov; evidence and replay files go to a scratch directory, no verdict is
taken from these runs) and prints, per source file, the line coverage and the functions that
never ran.  A reading aid for finding blind spots of the generators; nothing else uses it."""
import glob
import os
import re
import shutil
import subprocess
import sys

VERIF = os.path.dirname(os.path.dirname(os.path.abspath(__file__)))
BDIR = os.path.join(VERIF, "build", "cov")
WORLD = ["C02", "C05", "C06", "C07", "C08", "C09", "C10", "C11", "C12", "C14", "C15", "C17",
         "C18", "C19", "C20"]


def main():
    props = sys.argv[1:] or WORLD
    if props == ["--report"]:
        props = []
    for f in ([] if sys.argv[1:] == ["--report"] else [1]) and glob.glob(os.path.join(BDIR, "**", "*.gcda"), recursive=True):
        os.remove(f)
    env = dict(os.environ, VERIF_WORLD_VARIANT="cov", VERIF_OUT="/tmp/verif-cov-out")
    for p in props:
        r = subprocess.run([os.path.join(VERIF, "check"), p, "--tier", "quick"], env=env,
                           stdout=subprocess.PIPE, stderr=subprocess.STDOUT, text=True, cwd=VERIF)
        print(p, r.stdout.strip().splitlines()[-1][:120] if r.stdout.strip() else r.returncode,
              flush=True)
    shutil.rmtree("/tmp/verif-cov-out", ignore_errors=True)
    objdir = os.path.join(BDIR, "CMakeFiles", "coap-3.dir")
    out = ""
    for sub in ("src", "src/oscore"):
        out += subprocess.run("cd %s && gcov -f -o %s %s/*.gcda 2>/dev/null" % (objdir, sub, sub),
                              shell=True, stdout=subprocess.PIPE, text=True).stdout
    # gcov -f prints "Function 'name'\nLines executed:x% of n" and "File 'path'\nLines executed:"
    rows, never = [], {}
    cur = None
    lines = out.splitlines()
    for i, ln in enumerate(lines):
        m = re.match(r"(Function|File) '(.*)'", ln)
        if not m or i + 1 >= len(lines):
            continue
        m2 = re.match(r"Lines executed:([\d.]+)% of (\d+)", lines[i + 1])
        if not m2:
            continue
        if m.group(1) == "File":
            if "/src/" in m.group(2):
                rows.append((m.group(2).split("/src/")[1], float(m2.group(1)), int(m2.group(2))))
        elif float(m2.group(1)) == 0.0:
            never.setdefault("?", []).append((m.group(2), int(m2.group(2))))
    for f in glob.glob(os.path.join(objdir, "*.gcov")):
        os.remove(f)
    print("\nline coverage per file (closed-world quick tiers of %s):" % " ".join(props))
    for name, pct, n in sorted(rows):
        print("  %-28s %5.1f%% of %d" % (name, pct, n))
    print("\nfunctions that never ran (lines):")
    for name, n in sorted(never.get("?", []), key=lambda x: -x[1]):
        print("  %-48s %d" % (name, n))


if __name__ == "__main__":
    main()
