#!/usr/bin/env python3
"""tools/seedmatrix.py [id ...] - for each seeded change under /verif/seeded/<id>/:
   1. scratch worktree of /repo HEAD under /tmp (never /repo itself): the patch applies,
      the library builds, the 176 tests pass, the demonstration (RUN) exits 0 on the clean
      tree and non-zero with the patch (tools/confirm_seed.sh);
   2. the property's check, quick tier (thorough if quick stays silent), against the
      patched tree through VERIF_REPO (same code path as /repo, separate build directory);
   3. writes seeded/<id>/meta.json.
The worktrees and their build output are removed at the end."""
import json
import os
import re
import shutil
import subprocess
import sys

VERIF = os.path.dirname(os.path.dirname(os.path.abspath(__file__)))
SLOT = os.environ.get("SEED_SLOT", "")
WT = "/tmp/seed/matrix-wt" + SLOT
OUT = "/tmp/seed/out" + SLOT
OBSOLETE = {"C15-2": "the mechanism the change relied on (window arithmetic in "
                     "oscore_validate_sender_seq) was rewritten by fix 5e8c839; the patch no "
                     "longer applies and has no counterpart in the repaired code",
            "C14-2": "the change removed slack from coap_oscore_overhead() that the encoder relied on; "
                     "fix 9f8e99c made the estimate count the option bytes exactly and add its own "
                     "margin, so with the change applied to the repaired tree every message is still "
                     "protected correctly: the demonstration passes, it is no longer a break"}


def sh(cmd, **kw):
    return subprocess.run(cmd, shell=isinstance(cmd, str), stdout=subprocess.PIPE,
                          stderr=subprocess.STDOUT, text=True, **kw)


def notes(d):
    p = os.path.join(d, "NOTES.md")
    if not os.path.exists(p):
        return "", ""
    t = open(p).read()
    title = t.splitlines()[0].lstrip("# ").strip()
    m = re.search(r"[Nn]eeded to manifest[^\n]*\n?(.*?)(\n\n|\n\*\*|\n- [A-Z]|\nDemo|\Z)", t, re.S)
    need = " ".join((m.group(0) if m else "").split())[:700]
    return title, need


def main():
    ids = sys.argv[1:] or sorted(os.listdir(os.path.join(VERIF, "seeded")))
    head = sh("git -C /repo rev-parse --short HEAD").stdout.strip()
    os.makedirs("/tmp/seed", exist_ok=True)
    if not os.path.isdir(WT):
        sh("git -C /repo worktree add --detach %s HEAD" % WT)
    sh("git -C %s checkout -q --detach %s" % (WT, head))
    rows = []
    for sid in ids:
        d = os.path.join(VERIF, "seeded", sid)
        patch = os.path.join(d, "patch.diff")
        if not os.path.exists(patch):
            continue
        prop = sid.split("-")[0]
        title, need = notes(d)
        meta = {"id": sid, "property": prop, "change": title, "needs_to_manifest": need,
                "origin": "independent sub-agent given only the property text and a scratch "
                          "worktree of /repo", "repo_head": head}
        if sid in OBSOLETE:
            meta.update(result="obsolete", why=OBSOLETE[sid])
            json.dump(meta, open(os.path.join(d, "meta.json"), "w"), indent=1)
            rows.append((sid, "obsolete", ""))
            continue
        sh("git -C %s checkout -- ." % WT)
        if sh("git -C %s apply --check %s" % (WT, patch)).returncode != 0:
            meta.update(result="does-not-apply", why="patch no longer applies to /repo HEAD " + head)
            json.dump(meta, open(os.path.join(d, "meta.json"), "w"), indent=1)
            rows.append((sid, "does-not-apply", ""))
            continue
        c = sh("sh %s/tools/confirm_seed.sh %s" % (VERIF, d))
        meta["confirmed"] = c.stdout.strip().splitlines()[-1] if c.stdout.strip() else "?"
        meta["confirm_ok"] = c.returncode == 0
        sh("git -C %s apply %s" % (WT, patch))
        env = dict(os.environ, VERIF_REPO=WT, VERIF_OUT=OUT)
        caught, ran = None, []
        for tier in (("quick",) if os.environ.get("SEED_QUICK_ONLY") else ("quick", "thorough")):
            r = subprocess.run([os.path.join(VERIF, "check"), prop, "--tier", tier], env=env,
                               stdout=subprocess.PIPE, stderr=subprocess.STDOUT, text=True,
                               cwd=VERIF)
            sigs = sorted(set(re.findall(r"signature: (\S+)", r.stdout)))
            ran.append("VERIF_REPO=<patched worktree> ./check %s --tier %s -> exit %d"
                       % (prop, tier, r.returncode))
            if r.returncode == 1:
                caught = (tier, sigs)
                break
            if r.returncode != 0:
                caught = ("harness-exit-%d" % r.returncode, [r.stdout[-300:]])
                break
        # a change can break a neighbouring property's clause more visibly than its own:
        # seeded/<id>/ALSO names the checks to try when the property's own check is silent
        also = os.path.join(d, "ALSO")
        if not caught and os.path.exists(also):
            for other in open(also).read().split():
                r = subprocess.run([os.path.join(VERIF, "check"), other, "--tier", "quick"], env=env,
                                   stdout=subprocess.PIPE, stderr=subprocess.STDOUT, text=True,
                                   cwd=VERIF)
                sigs = sorted(set(re.findall(r"signature: (\S+)", r.stdout)))
                ran.append("VERIF_REPO=<patched worktree> ./check %s --tier quick -> exit %d"
                           % (other, r.returncode))
                if r.returncode == 1:
                    caught = ("other", ["%s quick: %s" % (other, ", ".join(sigs[:6]))])
                    break
        sh("git -C %s checkout -- ." % WT)
        meta["ran"] = ran
        if caught and caught[0] in ("quick", "thorough"):
            meta.update(result="caught", caught_by="%s %s: %s" % (prop, caught[0],
                                                                  ", ".join(caught[1][:6])))
        elif caught and caught[0] == "other":
            meta.update(result="caught-by-neighbour", caught_by=caught[1][0],
                        note="the property's own check is silent on this change")
        elif caught:
            meta.update(result=caught[0], detail=caught[1])
        else:
            meta.update(result="missed")
        json.dump(meta, open(os.path.join(d, "meta.json"), "w"), indent=1)
        rows.append((sid, meta["result"], meta.get("caught_by", "")[:120]))
        print(rows[-1], meta.get("confirmed"), flush=True)
    shutil.rmtree(OUT, ignore_errors=True)
    sh("git -C /repo worktree remove --force %s" % WT)
    sh("git -C /repo worktree remove --force /tmp/seed/confirm-wt" + SLOT)
    sh("git -C /repo worktree prune")
    import hashlib
    bdir = "/var/tmp/verif-build-%s" % hashlib.sha1(WT.encode()).hexdigest()[:10]
    shutil.rmtree(bdir, ignore_errors=True)
    print("\n".join("%-7s %-16s %s" % r for r in rows))


if __name__ == "__main__":
    main()
