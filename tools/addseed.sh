#!/bin/sh
# tools/addseed.sh <Cnn> <k> <outdir> : take a sub-agent's deliverables (patch.diff, demo, RUN,
# NOTES.md) into seeded/<Cnn>-<k>/ and run tools/seedmatrix.py on it (own slot).
C=$1; K=$2; O=$3
D=/verif/seeded/$C-$K
mkdir -p $D && cp $O/* $D/ 2>/dev/null
rm -f $D/demo $D/*.o $D/*.log
cd /verif && SEED_SLOT=-$C python3 tools/seedmatrix.py $C-$K
