#!/bin/sh
# tools/confirm_seed.sh <seeded/dir> : confirm a seeded change in a scratch worktree
# (outside /repo and /verif): clean tree -> demo exits 0; patched tree -> builds,
# 176/176 tests pass, demo exits non-zero.  Worktree is left clean.
D=$(cd "$1" && pwd)
WT=/tmp/seed/confirm-wt$SEED_SLOT
B=$WT/_b
[ -d $WT ] || git -C /repo worktree add --detach $WT HEAD >/dev/null 2>&1
git -C $WT checkout -q --detach $(git -C /repo rev-parse HEAD) 2>/dev/null
git -C $WT checkout -- .
[ -f $B/build.ninja ] || cmake -G Ninja -S $WT -B $B -DENABLE_DOCS=OFF -DENABLE_EXAMPLES=OFF -DENABLE_TESTS=ON -DCMAKE_BUILD_TYPE=RelWithDebInfo >/dev/null
cmake --build $B -j16 >/dev/null 2>&1 || { echo "clean build failed"; exit 2; }
export WT B
W=$(mktemp -d /tmp/seed/run.XXXXXX); cp $D/* $W/ 2>/dev/null; cd $W
sh ./RUN >clean.log 2>&1; c=$?
git -C $WT apply $D/patch.diff || { echo "patch does not apply"; exit 2; }
cmake --build $B -j16 >build.log 2>&1 || { echo "patched build failed"; git -C $WT checkout -- .; exit 2; }
t=$( (cd $B && ./testdriver) | grep -c "tests *176 *176 *176 *0")
sh ./RUN >patched.log 2>&1; p=$?
git -C $WT checkout -- .
cmake --build $B -j16 >/dev/null 2>&1
echo "$(basename $D): demo-clean-exit=$c tests176=$t demo-patched-exit=$p"
cd /; rm -rf $W
[ $c -eq 0 ] && [ $t -eq 1 ] && [ $p -ne 0 ]
