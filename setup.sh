#!/bin/sh
# MANIFEST.setup_cmd: build the library variants and harnesses from /repo's
# working tree and self-test the reference models.  Offline, idempotent.
set -e
cd "$(dirname "$0")"
mkdir -p evidence replay build
python3 vf/refs/coapwire.py
python3 vf/refs/oscore.py
python3 -m vf.selftest
echo "setup: OK"
