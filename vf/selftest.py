"""setup-time self-test: build the variants/harnesses every quick check needs
and run a few smoke cases through them."""
import sys
import time

from . import build, common


def main():
    t = time.time()
    exe = build.ensure_harness("asan", "pure", ["pure.c", "pure_uri.c", "pure_wk.c"])
    res, crashes = common.run_batch(exe, [
        "P init:0:1:4660:0 tok:aabb opt:11:666f6f data:6869 enc:udp",
        "P parse:udp:len:40010001e0feff cdump"])
    assert not crashes, crashes[0].stderr
    assert res[0].endswith("42011234aabbb3666f6fff6869"), res
    print("selftest: pure harness ok (%.1fs)" % (time.time() - t))
    return 0


if __name__ == "__main__":
    sys.exit(main())
