"""setup-time self-test: build the variants/harnesses every quick check needs
and run a few smoke cases through them."""
import sys
import time

from . import build, common


def main():
    t = time.time()
    exe = build.ensure_harness("asan", "pure", ["pure.c", "pure_uri.c", "pure_wk.c"])
    res, crashes = common.run_batch(exe, [
        "P init:0:1:4660:0 tok:aabb opt:11:666f6f data:6869 enc:udp",
        "P parse:udp:len:40010001e0feff cdump"])
    assert not crashes, crashes[0].stderr
    assert res[0].endswith("42011234aabbb3666f6fff6869"), res
    print("selftest: pure harness ok (%.1fs)" % (time.time() - t))
    from . import world
    wexe = build.ensure_world("asan")
    logs = []
    for _ in range(2):
        w = world.World(wexe, seed=5)
        sim = world.Sim(w)
        sim.add_node(0)
        sim.add_node(1)
        sim.cmd("ep 1 udp 10.0.0.2:5683")
        sim.cmd("res 1 72 body=fixed:6869")
        sim.cmd("sess 0 0 udp 10.0.0.2:5683")
        sim.fault = lambda sm, i, ev: [] if i == 0 else None
        sim.cmd("send 0 0 type=0 code=1 token=aa opts=11=72")
        sim.run(horizon=60000)
        evs, rc, err = w.close()
        assert rc == 0, err
        assert any(e["e"] == "rsp" and e["phex"] == "6869" for e in sim.log), "no response"
        logs.append([(e["e"], e.get("t"), e.get("b")) for e in sim.log])
    assert logs[0] == logs[1], "closed world is not deterministic"
    print("selftest: world harness ok, deterministic (%.1fs)" % (time.time() - t))
    return 0


if __name__ == "__main__":
    sys.exit(main())
