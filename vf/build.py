"""Build variants of libcoap and the harnesses, always from the current working
tree of the repository (VERIF_REPO, default /repo).  Build output only lives
under /verif/build/<variant> (or /var/tmp/verif-build-<hash> for a scratch
repo); sources are never copied."""
import fcntl
import hashlib
import os
import subprocess
import sys
import time

VERIF = os.path.dirname(os.path.dirname(os.path.abspath(__file__)))
REPO = os.path.abspath(os.environ.get("VERIF_REPO", "/repo"))
HARNESS = os.path.join(VERIF, "harness")


class BuildError(Exception):
    pass


def build_root():
    if REPO == "/repo":
        return os.path.join(VERIF, "build")
    h = hashlib.sha1(REPO.encode()).hexdigest()[:10]
    return "/var/tmp/verif-build-%s" % h


COMMON_DEFS = "-DCOAP_DTLS_RETRANSMIT_MS=100 -DCOAP_DTLS_RETRANSMIT_TOTAL_MS=1500"
SAN = ("-fsanitize=address,undefined -fno-sanitize=nonnull-attribute "
       "-fno-sanitize-recover=all")

VARIANTS = {
    # name: (CC, CFLAGS, cmake options)
    "asan": ("gcc",
             "-O1 -g -fno-omit-frame-pointer %s -DNDEBUG %s" % (SAN, COMMON_DEFS),
             ["-DWITH_EPOLL=OFF", "-DENABLE_THREAD_SAFE=OFF"]),
    "plain": ("gcc", "-O2 -g -DNDEBUG %s" % COMMON_DEFS,
              ["-DWITH_EPOLL=OFF", "-DENABLE_THREAD_SAFE=OFF"]),
    "fuzz": ("clang-14",
             "-O1 -g -fno-omit-frame-pointer -fsanitize=fuzzer-no-link %s -DNDEBUG %s"
             % (SAN, COMMON_DEFS),
             ["-DWITH_EPOLL=OFF", "-DENABLE_THREAD_SAFE=OFF"]),
    # repository defaults (thread safe ON, epoll ON) under TSan
    "tsan": ("gcc", "-O1 -g -fno-omit-frame-pointer -fsanitize=thread -DNDEBUG", []),
    "tsan-sel": ("gcc", "-O1 -g -fno-omit-frame-pointer -fsanitize=thread -DNDEBUG",
                 ["-DWITH_EPOLL=OFF"]),
    "tsan-rc": ("gcc", "-O1 -g -fno-omit-frame-pointer -fsanitize=thread -DNDEBUG",
                ["-DENABLE_THREAD_RECURSIVE_LOCK_CHECK=ON"]),
    # the repository's other build system: ./autogen.sh && ./configure --enable-thread-safe
    # (defines COAP_THREAD_SAFE 1 and COAP_THREAD_RECURSIVE_CHECK 1) on a copy of the tree
    "tsan-at": ("gcc", "-O1 -g -fno-omit-frame-pointer -fsanitize=thread -DNDEBUG", ["autotools"]),
    # line coverage of the library under the closed-world checks (tools/coverage.py): which
    # code the workloads reach at all; not used by any verdict
    "cov": ("gcc", "-O0 -g --coverage -DNDEBUG %s" % COMMON_DEFS,
            ["-DWITH_EPOLL=OFF", "-DENABLE_THREAD_SAFE=OFF"]),
    # assertions on (no NDEBUG), no sanitizer: libcoap's own lock-ownership asserts
    "lockchk": ("gcc", "-O1 -g -fno-omit-frame-pointer", []),
}

CMAKE_COMMON = ["-G", "Ninja", "-DCMAKE_BUILD_TYPE=None", "-DENABLE_DOCS=OFF",
                "-DENABLE_EXAMPLES=OFF", "-DENABLE_TESTS=OFF",
                "-DBUILD_SHARED_LIBS=OFF", "-DWARNING_TO_ERROR=OFF"]


def _run(cmd, cwd=None, env=None, what="command"):
    p = subprocess.run(cmd, cwd=cwd, env=env, stdout=subprocess.PIPE,
                       stderr=subprocess.STDOUT, text=True)
    if p.returncode != 0:
        raise BuildError("%s failed (%s):\n%s" % (what, " ".join(cmd), p.stdout[-6000:]))
    return p.stdout


class _Lock:
    def __init__(self, path):
        self.path = path

    def __enter__(self):
        os.makedirs(os.path.dirname(self.path), exist_ok=True)
        self.f = open(self.path, "w")
        fcntl.flock(self.f, fcntl.LOCK_EX)

    def __exit__(self, *a):
        fcntl.flock(self.f, fcntl.LOCK_UN)
        self.f.close()


def ensure_lib(variant):
    """Configure (once) and build (every time; ninja no-op when unchanged) the
    library for a variant.  Returns the build directory."""
    cc, cflags, opts = VARIANTS[variant]
    bdir = os.path.join(build_root(), variant)
    if opts == ["autotools"]:
        return _ensure_lib_autotools(variant, cc, cflags, bdir)
    with _Lock(os.path.join(build_root(), ".lock-" + variant)):
        if not os.path.exists(os.path.join(bdir, "build.ninja")):
            os.makedirs(bdir, exist_ok=True)
            env = dict(os.environ, CC=cc)
            _run(["cmake", "-S", REPO, "-B", bdir, "-DCMAKE_C_FLAGS=" + cflags]
                 + CMAKE_COMMON + opts, env=env, what="cmake configure " + variant)
        _run(["cmake", "--build", bdir, "-j", "16"], what="cmake build " + variant)
    return bdir


def _ensure_lib_autotools(variant, cc, cflags, bdir):
    """autotools builds in the source tree: work on a copy (rsync keeps mtimes, so make only
    redoes what changed in the repository) under the variant's build directory"""
    src = os.path.join(bdir, "src")
    with _Lock(os.path.join(build_root(), ".lock-" + variant)):
        os.makedirs(src, exist_ok=True)
        # no --delete: what autogen/configure/make generate in the copy stays; a file removed
        # from the repository would linger, which a changed Makefile.am re-run would notice
        _run(["rsync", "-a", "--exclude", "_build", "--exclude", ".git", REPO + "/", src + "/"],
             what="rsync for " + variant)
        env = dict(os.environ, CC=cc, CFLAGS=cflags)
        if not os.path.exists(os.path.join(src, "Makefile")):
            _run(["sh", "./autogen.sh"], cwd=src, env=env, what="autogen " + variant)
            _run(["./configure", "--enable-thread-safe", "--disable-doxygen", "--disable-manpages",
                  "--disable-examples", "--disable-tests", "--with-gnutls", "--disable-shared"],
                 cwd=src, env=env, what="configure " + variant)
        _run(["make", "-j", "16"], cwd=src, env=env, what="make " + variant)
        for name, target in (("libcoap-3.a", os.path.join(src, ".libs", "libcoap-3-gnutls.a")),
                             ("coap_config.h", os.path.join(src, "coap_config.h")),
                             ("include", os.path.join(src, "include"))):
            link = os.path.join(bdir, name)
            if not os.path.lexists(link):
                os.symlink(target, link)
    return bdir


def lib_path(bdir):
    return os.path.join(bdir, "libcoap-3.a")


def _newest(paths):
    m = 0.0
    for p in paths:
        if os.path.isdir(p):
            for root, _, files in os.walk(p):
                for f in files:
                    m = max(m, os.path.getmtime(os.path.join(root, f)))
        elif os.path.exists(p):
            m = max(m, os.path.getmtime(p))
    return m


_GNUTLS_LIBS = None


def gnutls_libs():
    global _GNUTLS_LIBS
    if _GNUTLS_LIBS is None:
        _GNUTLS_LIBS = subprocess.run(["pkg-config", "--libs", "gnutls"],
                                      stdout=subprocess.PIPE, text=True).stdout.split()
    return _GNUTLS_LIBS


def ensure_harness(variant, name, sources, extra_cflags=(), extra_ldflags=(),
                   wraps=()):
    """Compile harness/<sources> against the variant's library.  Returns the
    path of the executable."""
    bdir = ensure_lib(variant)
    cc, cflags, _ = VARIANTS[variant]
    exe = os.path.join(bdir, "vf_" + name)
    srcs = [os.path.join(HARNESS, s) for s in sources]
    deps = srcs + [lib_path(bdir), HARNESS]
    with _Lock(os.path.join(build_root(), ".lock-" + variant + "-" + name)):
        stamp = exe + ".cmd"
        cmd = ([cc] + cflags.split() + list(extra_cflags)
               + ["-Wall", "-Wno-deprecated-declarations", "-Wno-unused-function",
                  "-I" + bdir, "-I" + os.path.join(bdir, "include"),
                  "-I" + os.path.join(REPO, "include"), "-I" + HARNESS]
               + srcs + ["-o", exe, lib_path(bdir)] + gnutls_libs()
               + ["-lpthread", "-ldl"] + list(extra_ldflags))
        if wraps:
            cmd.append("-Wl," + ",".join("--wrap=" + w for w in wraps))
        cmdtxt = " ".join(cmd)
        old = open(stamp).read() if os.path.exists(stamp) else ""
        if (not os.path.exists(exe) or old != cmdtxt
                or os.path.getmtime(exe) < _newest(deps)):
            # link to a temporary name and rename: a check still running the old
            # executable keeps its inode
            tmp = "%s.tmp%d" % (exe, os.getpid())
            _run([tmp if x == exe else x for x in cmd],
                 what="harness build %s/%s" % (variant, name))
            os.replace(tmp, exe)
            with open(stamp, "w") as f:
                f.write(cmdtxt)
    return exe


def ensure_thr(variant):
    """the C13 stress program against a thread-safe library variant"""
    extra = ["-DVF_RC"] if variant.endswith(("-rc", "-at")) else []
    return ensure_harness(variant, "thr", ["thr.c"], extra_cflags=extra,
                          wraps=["coap_lock_lock_func"])


if __name__ == "__main__":
    t = time.time()
    for v in sys.argv[1:] or ["asan"]:
        print(v, ensure_lib(v), "%.1fs" % (time.time() - t))


WORLD_WRAPS = ["coap_ticks", "coap_socket_bind_udp", "coap_socket_connect_udp", "coap_socket_send",
               "coap_socket_recv", "coap_socket_close", "coap_socket_bind_tcp",
               "coap_socket_accept_tcp", "coap_socket_connect_tcp1", "coap_socket_connect_tcp2",
               "coap_socket_read", "coap_socket_write", "coap_malloc_type", "coap_realloc_type",
               "coap_free_type",
               # persistence crash points (harness/persist.c); pass-through unless `persist` is used
               # library-internal waits consume virtual time (wraps.c)
               "select",
               "fopen", "fclose", "fwrite", "fread", "fgets", "fflush", "fprintf", "rename", "remove"]


def ensure_world(variant="asan"):
    variant = os.environ.get("VERIF_WORLD_VARIANT", variant)
    return ensure_harness(variant, "world", ["world.c", "wraps.c", "persist.c"], wraps=WORLD_WRAPS,
                          extra_ldflags=["-rdynamic"])
