"""Minimal deterministic CBOR encoder (RFC 8949): uint, nint, bstr, tstr, array, null.

Always uses the shortest head encoding (preferred serialisation), definite lengths.
"""

__all__ = ['dumps']


def _head(major, n):
    if n < 24:
        return bytes([(major << 5) | n])
    for ai, size in ((24, 1), (25, 2), (26, 4), (27, 8)):
        if n < 1 << (8 * size):
            return bytes([(major << 5) | ai]) + n.to_bytes(size, 'big')
    raise ValueError('CBOR argument out of range')


def dumps(obj):
    if obj is None:
        return b'\xf6'
    if isinstance(obj, bool):
        raise TypeError('bool not supported by this encoder')
    if isinstance(obj, int):
        return _head(0, obj) if obj >= 0 else _head(1, -1 - obj)
    if isinstance(obj, (bytes, bytearray, memoryview)):
        return _head(2, len(obj)) + bytes(obj)
    if isinstance(obj, str):
        raw = obj.encode('utf-8')
        return _head(3, len(raw)) + raw
    if isinstance(obj, (list, tuple)):
        return _head(4, len(obj)) + b''.join(dumps(x) for x in obj)
    raise TypeError('unsupported CBOR type: %r' % type(obj))
