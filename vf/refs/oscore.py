"""Independent pure-Python reference model of OSCORE (RFC 8613) -- test oracle.

Written from RFC 8613 / 7252 / 8152 / 8949 / 3610 / 5869; stdlib only.
Message = {'type','code','mid','token','options':[(num, value)...],'payload'}.
Not modelled: replay window, sequence-number management, outer block-wise,
Proxy-Uri splitting (4.1.3.3), Appendix B.2 context re-derivation.
"""
import sys

try:
    from . import cbor
    from .aesccm import aes128_encrypt_block, ccm_encrypt, ccm_decrypt, hkdf_sha256
except ImportError:                      # run directly as a script
    import cbor
    from aesccm import aes128_encrypt_block, ccm_encrypt, ccm_decrypt, hkdf_sha256

# ---- Option placement table (RFC 8613 Figure 5 + 4.1.3; RFC 8768; RFC 9175) ----
# EDIT HERE.  Placement used by protect_*() and by the merge in unprotect_*():
#   INNER: encrypted only (class E).  An outer instance is discarded on receipt (8.2 step 1).
#   OUTER: unprotected only (class U). Kept from the outer message on receipt.
#   BOTH : see split_options() / _merge() for the per-option rules (Observe, No-Response).
# The third column is the class given by the RFC (informative; 'EU' = marked in both columns).
INNER, OUTER, BOTH = 'inner', 'outer', 'both'
OPTION_TABLE = {
    1:   ('If-Match',       INNER, 'E'),
    3:   ('Uri-Host',       OUTER, 'U'),
    4:   ('ETag',           INNER, 'E'),
    5:   ('If-None-Match',  INNER, 'E'),
    6:   ('Observe',        BOTH,  'EU'),
    7:   ('Uri-Port',       OUTER, 'U'),
    8:   ('Location-Path',  INNER, 'E'),
    9:   ('OSCORE',         OUTER, 'U'),
    11:  ('Uri-Path',       INNER, 'E'),
    12:  ('Content-Format', INNER, 'E'),
    14:  ('Max-Age',        INNER, 'EU'),   # outer Max-Age never generated here
    15:  ('Uri-Query',      INNER, 'E'),
    16:  ('Hop-Limit',      OUTER, 'U'),    # RFC 8768
    17:  ('Accept',         INNER, 'E'),
    20:  ('Location-Query', INNER, 'E'),
    23:  ('Block2',         INNER, 'EU'),   # outer block-wise not modelled
    27:  ('Block1',         INNER, 'EU'),
    28:  ('Size2',          INNER, 'EU'),
    35:  ('Proxy-Uri',      OUTER, 'U'),    # not split into Uri-Path/Uri-Query (4.1.3.3)
    39:  ('Proxy-Scheme',   OUTER, 'U'),
    60:  ('Size1',          INNER, 'EU'),
    252: ('Echo',           INNER, 'E'),    # RFC 9175
    258: ('No-Response',    BOTH,  'EU'),   # RFC 7967
    292: ('Request-Tag',    INNER, 'E'),    # RFC 9175
}
DEFAULT_PLACEMENT = INNER                   # unknown options: class E

OPT_OBSERVE, OPT_OSCORE = 6, 9
CODE_POST, CODE_FETCH, CODE_CHANGED, CODE_CONTENT = 0x02, 0x05, 0x44, 0x45
# COSE AEAD algorithms usable here (AES-128 only): alg -> (key len, nonce len, tag len)
ALGS = {10: (16, 13, 8), 30: (16, 13, 16), 12: (16, 7, 8), 32: (16, 7, 16)}
MAX_PIV = (1 << 40) - 1


class OscoreError(Exception):
    """reason in: no-option, malformed-option, no-piv, no-kid, kid-mismatch,
    kid-context-mismatch, decrypt-failed, malformed-plaintext."""

    def __init__(self, reason, detail=''):
        super().__init__(reason + (': ' + detail if detail else ''))
        self.reason, self.detail = reason, detail


def placement(number):
    return OPTION_TABLE.get(number, (None, DEFAULT_PLACEMENT))[1]


def sort_options(options):
    return sorted(((int(n), bytes(v)) for n, v in options), key=lambda o: o[0])  # stable


# ------------------------------------------------ CoAP wire format (RFC 7252) -
def _ext(n):
    """(nibble, extension bytes) for an option delta or length."""
    if n < 13:
        return n, b''
    if n < 269:
        return 13, bytes([n - 13])
    if n < 269 + 65536:
        return 14, (n - 269).to_bytes(2, 'big')
    raise ValueError('option delta/length %d not encodable' % n)


def encode_options(options):
    out, prev = bytearray(), 0
    for num, val in sort_options(options):
        dn, dx = _ext(num - prev)
        ln, lx = _ext(len(val))
        out += bytes([(dn << 4) | ln]) + dx + lx + val
        prev = num
    return bytes(out)


def decode_options(data):
    """Parse options [0xFF payload]; returns (options, payload). ValueError if malformed."""
    data = bytes(data)
    opts, pos, num, end = [], 0, 0, len(data)

    def ext(nib, pos):
        if nib < 13:
            return nib, pos
        size = nib - 12                                  # 13 -> 1 byte, 14 -> 2 bytes
        if nib == 15 or pos + size > end:
            raise ValueError('bad or truncated option delta/length')
        return int.from_bytes(data[pos:pos + size], 'big') + (13 if nib == 13 else 269), pos + size

    while pos < end:
        b = data[pos]
        pos += 1
        if b == 0xFF:
            if pos == end:
                raise ValueError('payload marker followed by empty payload')
            return opts, data[pos:]
        delta, pos = ext(b >> 4, pos)
        length, pos = ext(b & 15, pos)
        if pos + length > end:
            raise ValueError('option value runs past end')
        num += delta
        opts.append((num, data[pos:pos + length]))
        pos += length
    return opts, b''


def serialize_udp(msg):
    token = bytes(msg.get('token', b''))
    if len(token) > 8 or not 0 <= msg['type'] <= 3 or not 0 <= msg['code'] <= 255:
        raise ValueError('header field out of range')
    payload = bytes(msg.get('payload', b''))
    return (bytes([0x40 | (msg['type'] << 4) | len(token), msg['code']]) +
            (msg['mid'] & 0xffff).to_bytes(2, 'big') + token +
            encode_options(msg.get('options', [])) + (b'\xff' + payload if payload else b''))


def parse_udp(data):
    data = bytes(data)
    if len(data) < 4 or data[0] >> 6 != 1:
        raise ValueError('short datagram or bad version')
    tkl = data[0] & 15
    if tkl > 8 or len(data) < 4 + tkl:
        raise ValueError('bad token length')
    options, payload = decode_options(data[4 + tkl:])
    return {'type': (data[0] >> 4) & 3, 'code': data[1], 'mid': int.from_bytes(data[2:4], 'big'),
            'token': data[4:4 + tkl], 'options': options, 'payload': payload}


# ------------------------------------------------- Security context (3.2.1) --
class SecCtx:
    def __init__(self, master_secret, master_salt=b'', id_context=None, sender_id=b'',
                 recipient_id=b'', alg_aead=10, hkdf='sha256'):
        if hkdf != 'sha256':
            raise ValueError('only HKDF SHA-256 is implemented')
        if alg_aead not in ALGS:
            raise ValueError('unsupported AEAD algorithm %r' % (alg_aead,))
        self.key_len, self.nonce_len, self.tag_len = ALGS[alg_aead]
        self.alg_aead, self.hkdf = alg_aead, hkdf
        self.master_secret, self.master_salt = bytes(master_secret), bytes(master_salt or b'')
        self.id_context = None if id_context is None else bytes(id_context)
        self.sender_id, self.recipient_id = bytes(sender_id), bytes(recipient_id)
        if max(len(self.sender_id), len(self.recipient_id)) > self.nonce_len - 6:
            raise ValueError('sender/recipient ID longer than nonce length - 6')
        self.sender_key = self._derive(self.sender_id, 'Key', self.key_len)
        self.recipient_key = self._derive(self.recipient_id, 'Key', self.key_len)
        self.common_iv = self._derive(b'', 'IV', self.nonce_len)

    def info(self, id_, type_, length):
        return cbor.dumps([id_, self.id_context, self.alg_aead, type_, length])

    def _derive(self, id_, type_, length):
        return hkdf_sha256(self.master_salt, self.master_secret, self.info(id_, type_, length), length)


def piv_bytes(piv_int):
    """Partial IV: minimal-length big-endian, 0 -> b'\\x00' (RFC 8613 5: 0..2^40-1)."""
    if not 0 <= piv_int <= MAX_PIV:
        raise ValueError('Partial IV out of range')
    return piv_int.to_bytes(max(1, (piv_int.bit_length() + 7) // 8), 'big')


def nonce(ctx_common_iv, piv, id_piv):
    """5.2: (len(ID_PIV) | ID_PIV padded to nonce_len-6 | PIV padded to 5) XOR Common IV."""
    n = len(ctx_common_iv)
    if len(piv) > 5 or len(id_piv) > n - 6:
        raise ValueError('PIV or ID_PIV too long')
    raw = bytes([len(id_piv)]) + id_piv.rjust(n - 6, b'\0') + piv.rjust(5, b'\0')
    return bytes(a ^ b for a, b in zip(raw, ctx_common_iv))


def aad(request_kid, request_piv, alg=10, class_i_options=b''):
    """5.4: serialised Enc_structure ["Encrypt0", h'', external_aad]."""
    external = cbor.dumps([1, [alg], bytes(request_kid), bytes(request_piv), bytes(class_i_options)])
    return cbor.dumps(['Encrypt0', b'', external])


# ------------------------------------------------- OSCORE option value (6.1) -
def encode_oscore_option(piv, kid, kid_context):
    piv = piv or None                                   # zero-length PIV == no PIV (n = 0)
    if piv is None and kid is None and kid_context is None:
        return b''
    if piv is not None and len(piv) > 5:
        raise ValueError('Partial IV longer than 5 bytes')
    if kid_context is not None and len(kid_context) > 255:
        raise ValueError('kid context longer than 255 bytes')
    flags = len(piv or b'') | (0x08 if kid is not None else 0) | (0x10 if kid_context is not None else 0)
    out = bytes([flags]) + (piv or b'')
    if kid_context is not None:
        out += bytes([len(kid_context)]) + kid_context
    return out + (kid or b'')


def decode_oscore_option(value, strict=True):
    """-> dict(piv, kid, kid_context), None = absent.  ValueError if malformed.
    strict: a non-empty value whose flag byte is 0x00 is rejected (6.1: SHALL be empty)."""
    value = bytes(value)
    out = {'piv': None, 'kid': None, 'kid_context': None}
    if not value:
        return out
    flags, pos = value[0], 1
    if flags & 0xE0:
        raise ValueError('reserved flag bits set')
    n = flags & 7
    if n > 5:
        raise ValueError('reserved Partial IV length %d' % n)
    if flags == 0 and strict:
        raise ValueError('flag byte 0x00 must be sent as empty option value')
    if n:
        if pos + n > len(value):
            raise ValueError('Partial IV runs past end')
        out['piv'], pos = value[pos:pos + n], pos + n
    if flags & 0x10:
        if pos >= len(value):
            raise ValueError('kid context length missing')
        s, pos = value[pos], pos + 1
        if pos + s > len(value):
            raise ValueError('kid context runs past end')
        out['kid_context'], pos = value[pos:pos + s], pos + s
    if flags & 0x08:
        out['kid'] = value[pos:]
    elif pos != len(value):
        raise ValueError('trailing bytes but kid flag not set')
    return out


# ------------------------------------------------- inner/outer split (4.1) ---
def split_options(options, is_request):
    """-> (inner_options, outer_options), each sorted; OSCORE(9) itself goes outer as-is."""
    inner, outer = [], []
    for num, val in sort_options(options):
        where = placement(num)
        if where == INNER:
            inner.append((num, val))
        elif where == OUTER:
            outer.append((num, val))
        elif num == OPT_OBSERVE and not is_request:      # 4.1.3.5.2: inner empty, outer value
            inner.append((num, b''))
            outer.append((num, val))
        else:                                            # BOTH: same value inner and outer
            inner.append((num, val))
            outer.append((num, val))
    return inner, outer


def _merge(outer_options, inner_options, is_request):
    """8.2/8.4: drop outer class-E options, keep outer class-U, add inner options."""
    kept, outer_observe = [], None
    for num, val in outer_options:
        if num == OPT_OSCORE:
            continue
        if placement(num) == OUTER:
            kept.append((num, val))
        elif num == OPT_OBSERVE and outer_observe is None:
            outer_observe = val
    inner = []
    for num, val in inner_options:
        if num == OPT_OBSERVE and not is_request and outer_observe is not None:
            val = outer_observe                          # notification: order value from outer
        inner.append((num, val))
    return sort_options(kept + inner)


# ------------------------------------------------- protect / unprotect (8) ---
def _plaintext(code, inner_options, payload):
    payload = bytes(payload or b'')
    return bytes([code]) + encode_options(inner_options) + (b'\xff' + payload if payload else b'')


def _has_observe(msg):
    return any(num == OPT_OBSERVE for num, _ in msg.get('options', []))


def _build_outer(msg, code, outer_options, option_value, ciphertext):
    opts = [(n, v) for n, v in outer_options if n != OPT_OSCORE] + [(OPT_OSCORE, option_value)]
    return {'type': msg['type'], 'code': code, 'mid': msg['mid'], 'token': bytes(msg.get('token', b'')),
            'options': sort_options(opts), 'payload': ciphertext}


def _get_option(outer_msg):
    vals = [v for n, v in outer_msg.get('options', []) if n == OPT_OSCORE]
    if not vals:
        raise OscoreError('no-option')
    if len(vals) > 1:
        raise OscoreError('malformed-option', 'OSCORE option repeated')
    try:
        return decode_oscore_option(vals[0])
    except ValueError as e:
        raise OscoreError('malformed-option', str(e))


def _open(ctx, nonce_, aad_, outer_msg, is_request):
    pt = ccm_decrypt(ctx.recipient_key, nonce_, bytes(outer_msg.get('payload', b'')), aad_, ctx.tag_len)
    if pt is None:
        raise OscoreError('decrypt-failed')
    if not pt:
        raise OscoreError('malformed-plaintext', 'empty plaintext (no code)')
    try:
        inner_options, payload = decode_options(pt[1:])
    except ValueError as e:
        raise OscoreError('malformed-plaintext', str(e))
    return {'type': outer_msg['type'], 'code': pt[0], 'mid': outer_msg['mid'],
            'token': bytes(outer_msg.get('token', b'')),
            'options': _merge(outer_msg.get('options', []), inner_options, is_request), 'payload': payload}


def protect_request(ctx, msg, piv_int, kid_context_in_option=None):
    if kid_context_in_option is None:
        kid_context_in_option = ctx.id_context is not None
    piv = piv_bytes(piv_int)
    inner, outer = split_options(msg.get('options', []), True)
    ct = ccm_encrypt(ctx.sender_key, nonce(ctx.common_iv, piv, ctx.sender_id),
                     _plaintext(msg['code'], inner, msg.get('payload', b'')),
                     aad(ctx.sender_id, piv, ctx.alg_aead), ctx.tag_len)
    value = encode_oscore_option(piv, ctx.sender_id, ctx.id_context if kid_context_in_option else None)
    return _build_outer(msg, CODE_FETCH if _has_observe(msg) else CODE_POST, outer, value, ct)


def unprotect_request(ctx, outer_msg):
    """-> (inner_msg, piv_bytes, kid, kid_context); raises OscoreError."""
    opt = _get_option(outer_msg)
    piv, kid, kid_context = opt['piv'], opt['kid'], opt['kid_context']
    if kid is None:
        raise OscoreError('no-kid')
    if piv is None:
        raise OscoreError('no-piv')
    if kid != ctx.recipient_id:
        raise OscoreError('kid-mismatch')
    if kid_context is not None and kid_context != ctx.id_context:
        raise OscoreError('kid-context-mismatch')
    if len(kid) > ctx.nonce_len - 6:
        raise OscoreError('malformed-option', 'kid too long for nonce')
    inner = _open(ctx, nonce(ctx.common_iv, piv, kid), aad(kid, piv, ctx.alg_aead), outer_msg, True)
    return inner, piv, kid, kid_context


def protect_response(ctx, msg, request_kid, request_piv, new_piv_int=None):
    inner, outer = split_options(msg.get('options', []), False)
    if new_piv_int is None:
        piv, nonce_ = None, nonce(ctx.common_iv, request_piv, request_kid)
    else:
        piv = piv_bytes(new_piv_int)
        nonce_ = nonce(ctx.common_iv, piv, ctx.sender_id)
    ct = ccm_encrypt(ctx.sender_key, nonce_, _plaintext(msg['code'], inner, msg.get('payload', b'')),
                     aad(request_kid, request_piv, ctx.alg_aead), ctx.tag_len)
    return _build_outer(msg, CODE_CONTENT if _has_observe(msg) else CODE_CHANGED, outer,
                        encode_oscore_option(piv, None, None), ct)


def unprotect_response(ctx, outer_msg, request_kid, request_piv):
    """-> inner_msg; a kid / kid context carried in a response is parsed but ignored."""
    opt = _get_option(outer_msg)
    if opt['piv'] is not None:
        nonce_ = nonce(ctx.common_iv, opt['piv'], ctx.recipient_id)
    else:
        nonce_ = nonce(ctx.common_iv, request_piv, request_kid)
    return _open(ctx, nonce_, aad(request_kid, request_piv, ctx.alg_aead), outer_msg, False)


# ------------------------------------------------------------- self-test -----
def _selftest():
    h = bytes.fromhex
    fails, count = [], [0]

    def vector(name, checks):
        count[0] += 1
        for label, got, want in checks:
            if got != want:
                show = lambda x: x.hex() if isinstance(x, (bytes, bytearray)) else repr(x)
                fails.append('%s / %s:\n  got  %s\n  want %s' % (name, label, show(got), show(want)))

    vector('FIPS-197 C.1', [('ciphertext', aes128_encrypt_block(
        h('000102030405060708090a0b0c0d0e0f'), h('00112233445566778899aabbccddeeff')),
        h('69c4e0d86a7b0430d8cdb78070b4c55a'))])
    k, n, pkt = h('c0c1c2c3c4c5c6c7c8c9cacbcccdcecf'), h('00000003020100a0a1a2a3a4a5'), bytes(range(31))
    out = h('588c979a61c663d2f066d0c2c0f989806d5f6b61dac38417e8d12cfdf926e0')
    vector('RFC 3610 packet vector #1', [
        ('encrypt', ccm_encrypt(k, n, pkt[8:], pkt[:8]), out),
        ('decrypt', ccm_decrypt(k, n, out, pkt[:8]), pkt[8:]),
        ('tamper', ccm_decrypt(k, n, out[:-1] + b'\xe1', pkt[:8]), None)])
    vector('RFC 5869 test case 1', [('okm', hkdf_sha256(
        h('000102030405060708090a0b0c'), b'\x0b' * 22, h('f0f1f2f3f4f5f6f7f8f9'), 42),
        h('3cb25f25faacd57a90434f64d0362f2a2d2d0a90cf1a5a4c5db02d56ecc4c5bf34007208d5b887185865'))])

    secret, salt, idctx = h('0102030405060708090a0b0c0d0e0f10'), h('9e7ca92223786340'), h('37cbf3210017a2d3')
    # name, salt, id context, client id, server id, client key, server key, common iv,
    # client nonce, server nonce (both for Partial IV 0, as listed in the RFC)
    kd = [('C.1', salt, None, b'', b'\x01', 'f0910ed7295e6ad4b54fc793154302ff',
           'ffb14e093c94c9cac9471648b4f98710', '4622d4dd6d944168eefb54987c',
           '4622d4dd6d944168eefb54987c', '4722d4dd6d944169eefb54987c'),
          ('C.2', b'', None, b'\x00', b'\x01', '321b26943253c7ffb6003b0b64d74041',
           'e57b5635815177cd679ab4bcec9d7dda', 'be35ae297d2dace910c52e99f9',
           'bf35ae297d2dace910c52e99f9', 'bf35ae297d2dace810c52e99f9'),
          ('C.3', salt, idctx, b'', b'\x01', 'af2a1300a5e95788b356336eeecd2b92',
           'e39a0c7c77b43f03b4b39ab9a268699f', '2ca58fb85ff1b81c0b7181b85e',
           '2ca58fb85ff1b81c0b7181b85e', '2da58fb85ff1b81d0b7181b85e')]
    ctxs = {}
    for name, s, ic, cid, sid, ckey, skey, iv, cnonce, snonce in kd:
        for sub, role, snd, rcv, sk, rk, sn, rn in (('.1', 'client', cid, sid, ckey, skey, cnonce, snonce),
                                                    ('.2', 'server', sid, cid, skey, ckey, snonce, cnonce)):
            c = ctxs[name, role] = SecCtx(secret, s, ic, snd, rcv)
            checks = [('sender key', c.sender_key, h(sk)), ('recipient key', c.recipient_key, h(rk)),
                      ('common iv', c.common_iv, h(iv)),
                      ('sender nonce', nonce(c.common_iv, b'\x00', snd), h(sn)),
                      ('recipient nonce', nonce(c.common_iv, b'\x00', rcv), h(rn))]
            if name + sub == 'C.1.1':                    # HKDF info structures printed in the RFC
                checks += [('sender key info', c.info(b'', 'Key', 16), h('8540f60a634b657910')),
                           ('recipient key info', c.info(b'\x01', 'Key', 16), h('854101f60a634b657910')),
                           ('common iv info', c.info(b'', 'IV', 13), h('8540f60a6249560d'))]
            vector(name + sub + ' key derivation (' + role + ')', checks)

    # Requests C.4 / C.5 / C.6 (sender sequence number 20), checked in both directions.
    reqs = [('C.4', 'C.1', '44015d1f00003974396c6f63616c686f737483747631',
             '44025d1f00003974396c6f63616c686f7374620914ff612f1092f1776f1c1668b3825e',
             '0914', '8368456e63727970743040488501810a40411440', '4622d4dd6d944168eefb549868'),
            ('C.5', 'C.2', '440171c30000b932396c6f63616c686f737483747631',
             '440271c30000b932396c6f63616c686f737463091400ff4ed339a5a379b0b8bc731fffb0',
             '091400', '8368456e63727970743040498501810a4100411440', 'bf35ae297d2dace910c52e99ed'),
            ('C.6', 'C.3', '44012f8eef9bbf7a396c6f63616c686f737483747631',
             '44022f8eef9bbf7a396c6f63616c686f73746b19140837cbf3210017a2d3ff72cd7273fd331ac45cffbe55c3',
             '19140837cbf3210017a2d3', '8368456e63727970743040488501810a40411440',
             '2ca58fb85ff1b81c0b7181b84a')]
    for name, kdname, plain, prot, optval, aad_hex, nonce_hex in reqs:
        cl, sv = ctxs[kdname, 'client'], ctxs[kdname, 'server']
        msg = parse_udp(h(plain))
        outer = protect_request(cl, msg, 20)
        try:
            back = unprotect_request(sv, parse_udp(h(prot)))
        except OscoreError as e:
            back = ('OscoreError', str(e))
        vector(name + ' protected request', [
            ('reserialise plain', serialize_udp(msg), h(plain)),
            ('aad', aad(cl.sender_id, b'\x14'), h(aad_hex)),
            ('nonce', nonce(cl.common_iv, b'\x14', cl.sender_id), h(nonce_hex)),
            ('plaintext', _plaintext(msg['code'], split_options(msg['options'], True)[0], b''), h('01b3747631')),
            ('oscore option', dict(outer['options'])[OPT_OSCORE], h(optval)),
            ('protected message', serialize_udp(outer), h(prot)),
            ('unprotect', back, (msg, b'\x14', cl.sender_id, cl.id_context))])

    # Responses C.7 (no PIV) / C.8 (PIV 0) to the C.4 request (kid h'', piv h'14').
    cl, sv = ctxs['C.1', 'client'], ctxs['C.1', 'server']
    plain = '64455d1f00003974ff48656c6c6f20576f726c6421'
    for name, new_piv, prot, nonce_args, nonce_hex in [
            ('C.7', None, '64445d1f0000397490ffdbaad1e9a7e7b2a813d3c31524378303cdafae119106',
             (b'\x14', b''), '4622d4dd6d944168eefb549868'),
            ('C.8', 0, '64445d1f00003974920100ff4d4c13669384b67354b2b6175ff4b8658c666a6cf88e',
             (b'\x00', b'\x01'), '4722d4dd6d944169eefb54987c')]:
        msg = parse_udp(h(plain))
        outer = protect_response(sv, msg, b'', b'\x14', new_piv)
        try:
            back = unprotect_response(cl, parse_udp(h(prot)), b'', b'\x14')
        except OscoreError as e:
            back = ('OscoreError', str(e))
        vector(name + ' protected response', [
            ('nonce', nonce(sv.common_iv, *nonce_args), h(nonce_hex)),
            ('plaintext', _plaintext(msg['code'], [], msg['payload']), h('45ff48656c6c6f20576f726c6421')),
            ('protected message', serialize_udp(outer), h(prot)),
            ('unprotect', back, msg)])

    if fails:
        print('oscore reference self-test: FAILED (%d of %d vectors)' % (
            len({f.split(' / ')[0] for f in fails}), count[0]))
        print('\n'.join(fails))
        return 1
    print('oscore reference self-test: OK (%d vectors)' % count[0])
    return 0


if __name__ == '__main__':
    sys.exit(_selftest())
