"""Reference for RFC 6690 link-format serialisation of a resource table and
the filter semantics stated in property C20."""
import itertools

TOKEN_LIST_ATTRS = (b"rt", b"if", b"rel")


class Res:
    def __init__(self, path, attrs, observable=False, osc=False):
        self.path = path            # bytes, no leading '/'
        self.attrs = attrs          # list of (name, value-or-None); value as registered
        self.observable = observable
        self.osc = osc

    def attr_strings(self):
        out = []
        for n, v in self.attrs:
            out.append(b";" + n + (b"=" + v if v is not None else b""))
        return out

    def markers(self):
        return (b";obs" if self.observable else b"") + (b";osc" if self.osc else b"")

    def link_variants(self):
        """all admissible texts of this resource's link (attribute order is not
        specified by RFC 6690)"""
        head = b"</" + self.path + b">"
        seen = set()
        for perm in itertools.permutations(self.attr_strings()):
            t = head + b"".join(perm) + self.markers()
            if t not in seen:
                seen.add(t)
                yield t

    def link_len(self):
        return len(b"</" + self.path + b">") + sum(len(a) for a in self.attr_strings()) + \
            len(self.markers())


def unquote(v):
    if len(v) >= 2 and v[:1] == b'"' and v[-1:] == b'"':
        return v[1:-1]
    return v


def _match(text, pattern, prefix):
    return text.startswith(pattern) if prefix else text == pattern


def selects(filt, res):
    """True/False, or None when the statement does not say (not judged)"""
    if filt is None:
        return True
    if b"=" not in filt:
        return None
    name, pattern = filt.split(b"=", 1)
    if name == b"href" and pattern[:1] == b"/":
        pattern = pattern[1:]
    prefix = pattern.endswith(b"*")
    if prefix:
        pattern = pattern[:-1]
    if pattern == b"":
        # An empty pattern.  With '*' it is the prefix every text has; without, it equals only the
        # empty text.  What the statement settles: a resource that lacks the attribute is not
        # selected; "href=*" selects every resource; "rt=*" selects a resource whose rt has a
        # non-empty, properly quoted or unquoted value.  The rest (empty and value-less
        # attributes, the root path against "href=/") is left open.
        if name == b"href":
            if prefix:
                return True
            return None if res.path == b"" else False
        vals = [v for n, v in res.attrs if n == name]
        if not vals:
            return False
        if len(vals) == 1 and vals[0] is not None and prefix:
            v = vals[0]
            if v[:1] == b'"' and not (len(v) >= 2 and v[-1:] == b'"'):
                return None
            if unquote(v) != b"" and not unquote(v).startswith(b" ") and \
                    not unquote(v).endswith(b" "):
                return True
        if len(vals) == 1 and vals[0] is not None and not prefix:
            v = vals[0]
            if v[:1] == b'"' and not (len(v) >= 2 and v[-1:] == b'"'):
                return None
            if name not in TOKEN_LIST_ATTRS and unquote(v) != b"":
                return False
            if name in TOKEN_LIST_ATTRS and b"" not in unquote(v).split(b" "):
                return False
        return None
    if b"*" in pattern:
        return None
    if name == b"href":
        return _match(res.path, pattern, prefix)
    vals = [v for n, v in res.attrs if n == name]
    if not vals:
        return False
    if len(vals) > 1:
        return None
    v = vals[0]
    if v is None:
        return False
    if v[:1] == b'"' and not (len(v) >= 2 and v[-1:] == b'"'):
        return None
    text = unquote(v)
    if name in TOKEN_LIST_ATTRS:
        return any(_match(tok, pattern, prefix) for tok in text.split(b" ") if tok != b"" or True)
    return _match(text, pattern, prefix)


def match_listing(listing, resources):
    """Is `listing` the comma-joined links (in any resource order, any attribute
    order) of exactly `resources`?  Returns (True, order) or (False, reason)."""
    if not resources:
        return (listing == b"", "non-empty listing for empty selection" if listing else [])
    variants = [list(r.link_variants()) for r in resources]

    def rec(pos, used, order):
        if len(used) == len(resources):
            return order if pos == len(listing) + 1 else None
        for i, vs in enumerate(variants):
            if i in used:
                continue
            for t in vs:
                if listing.startswith(t, pos):
                    end = pos + len(t)
                    if end == len(listing) or listing[end:end + 1] == b",":
                        r_ = rec(end + 1, used | {i}, order + [i])
                        if r_ is not None:
                            return r_
        return None

    order = rec(0, frozenset(), [])
    if order is None:
        return False, "listing is not a permutation of the expected links"
    return True, order


if __name__ == "__main__":
    a = Res(b"a", [(b"rt", b'"temp hum"'), (b"if", b"sensor")], observable=True)
    b = Res(b"b/c", [], osc=True)
    ok, order = match_listing(b'</b/c>;osc,</a>;if=sensor;rt="temp hum";obs', [a, b])
    assert ok and order == [1, 0]
    assert selects(b"rt=hum", a) and not selects(b"rt=te", a) and selects(b"rt=te*", a)
    assert selects(b"href=/b*", b) and not selects(b"href=a", b)
    assert selects(b"rt=x", b) is False
    assert selects(b"rt=*", b) is False and selects(b"rt=*", a) is True
    assert selects(b"href=*", b) is True and selects(b"href=/", b) is False
    assert selects(b"if=", a) is False and selects(b"rt=", b) is False
    print("linkformat reference self-test: OK")
