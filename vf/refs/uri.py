"""Reference model for URI <-> option conversion (RFC 3986 section 3 generic
syntax restricted to the coap family, RFC 7252 sections 6.4 / 6.5).  Works
constructively: URIs are *composed* from components, so the expected
decomposition is known without a second parser."""

SCHEMES = ["coap", "coaps", "coap+tcp", "coaps+tcp", "http", "https", "coap+ws", "coaps+ws"]
DEFAULT_PORT = {"coap": 5683, "coaps": 5684, "coap+tcp": 5683, "coaps+tcp": 5684,
                "http": 80, "https": 443, "coap+ws": 80, "coaps+ws": 443}
PROXY_ONLY = {"http", "https"}

UNRESERVED = set(b"ABCDEFGHIJKLMNOPQRSTUVWXYZabcdefghijklmnopqrstuvwxyz0123456789-._~")
SUBDELIMS = set(b"!$&'()*+,;=")
PCHAR = UNRESERVED | SUBDELIMS | set(b":@")
QCHAR = PCHAR | set(b"/?")
HEX = b"0123456789ABCDEFabcdef"


def pct_decode(b):
    """decode exactly once; raises ValueError on a malformed escape"""
    out = bytearray()
    i = 0
    while i < len(b):
        c = b[i]
        if c == 0x25:
            h = b[i + 1:i + 3]
            if len(h) < 2 or h[0] not in HEX or h[1] not in HEX:
                raise ValueError("bad escape")
            out.append(int(h.decode(), 16))
            i += 3
        else:
            out.append(c)
            i += 1
    return bytes(out)


def valid_escapes(b):
    try:
        pct_decode(b)
        return True
    except ValueError:
        return False


def encode_segment(raw, r, allowed, force=False):
    """percent-encode raw bytes: everything outside `allowed` is escaped, allowed
    bytes are escaped with some probability (r may be None = minimal)"""
    out = bytearray()
    for c in raw:
        esc = c not in allowed or force or (r is not None and r.random() < 0.15)
        if esc:
            h = "%%%02X" % c
            if r is not None and r.random() < 0.5:
                h = h.lower()
            out += h.encode()
        else:
            out.append(c)
    return bytes(out)


def is_dot(seg_decoded):
    return seg_decoded in (b".", b"..")


def path_to_segments(path):
    """RFC 7252 6.4 steps 7/8 on the path *without* its leading '/'.
    Returns a list of admissible results (lists of decoded segments): dot
    segments are removed per RFC 3986 5.2.4; whether a dot segment in final
    position leaves a trailing empty segment is not judged (both admitted).
    Raises ValueError on a malformed percent escape."""
    if path == b"":
        return [[]]
    raw = path.split(b"/")
    out = []
    last_was_dot = False
    for i, seg in enumerate(raw):
        d = pct_decode(seg)
        # a segment is a dot-segment if it is '.'/'..' after decoding %2e
        # (only the unreserved '.' may be written escaped without changing meaning)
        norm = seg.replace(b"%2e", b".").replace(b"%2E", b".")
        last_was_dot = False
        if norm == b".":
            last_was_dot = True
            continue
        if norm == b"..":
            if out:
                out.pop()
            last_was_dot = True
            continue
        out.append(d)
    res = [out]
    if last_was_dot:
        res.append(out + [b""])
    if out == [b""]:
        res.append([])
    return res


def query_to_items(query):
    if query == b"":
        return [[], [b""]]
    return [[pct_decode(x) for x in query.split(b"&")]]


def compose(scheme, host, port, path, query, ipv6=False):
    """host: raw text (already escaped as wanted); port: None or text; path:
    None (no '/') or bytes after the first '/'; query: None or bytes"""
    u = scheme.encode() + b"://"
    u += (b"[" + host + b"]") if ipv6 else host
    if port is not None:
        u += b":" + port
    if path is not None:
        u += b"/" + path
    if query is not None:
        u += b"?" + query
    return u


def expected_split(scheme, host, port, path, query):
    """what coap_split_uri should report: (scheme index, host, port, path, query)"""
    p = DEFAULT_PORT[scheme] if port in (None, b"") else int(port)
    return (SCHEMES.index(scheme), host, p, path or b"", query or b"")


def path_string(segments):
    """canonical text for a list of Uri-Path values (RFC 7252 6.5 step 6),
    minimal escaping: only what cannot appear literally in a segment"""
    return b"/".join(encode_segment(s, None, PCHAR) for s in segments)


def query_string(items):
    return b"&".join(encode_segment(s, None, QCHAR - set(b"&")) for s in items)


if __name__ == "__main__":
    assert pct_decode(b"a%2Fb%2541") == b"a/b%41"
    assert path_to_segments(b"a/./b/../c") == [[b"a", b"c"]]
    assert path_to_segments(b"a/b/..") == [[b"a"], [b"a", b""]]
    assert path_to_segments(b"%2e%2E/x") == [[b"x"]]
    assert path_to_segments(b"a//b/") == [[b"a", b"", b"b", b""]]
    assert query_to_items(b"a=1&b&&c%26d") == [[b"a=1", b"b", b"", b"c&d"]]
    assert not valid_escapes(b"ab%4") and not valid_escapes(b"%zz") and valid_escapes(b"%41")
    print("uri reference self-test: OK")
