"""Executable decision table of property C10 (DESIGN.md appendix A): for one
well-formed request datagram on a UDP server endpoint and a resource table,
the SET of admissible outcomes.  Derived from the property statement, RFC 7252
5.4/5.8/8, RFC 7967, RFC 8132, RFC 8768 - not from libcoap's code.  Where
several rows apply the union is returned (precedence is not stated)."""
from . import coapwire as cw
from . import uri as U

PROXY_OWN_NAMES = {b"proxy.example"}        # names the harness's proxy resource answers for
PROXY_FORWARD = "proxy-forward"              # sentinel outcome: see admissible()
KNOWN_CRITICAL = {1, 3, 5, 7, 11, 15, 17, 23, 27, 35, 39}      # + OSCORE 9 when configured
KNOWN = set(cw.OPT_LEN)
WELLKNOWN = [b".well-known", b"core"]


class Resource:
    def __init__(self, segments, methods, code=None, body=b"", observable=False, flags=0,
                 ropts=()):
        self.segments = segments
        self.methods = set(methods)
        self.code = code
        self.body = body
        self.observable = observable
        self.flags = flags
        self.ropts = list(ropts)


class Table:
    def __init__(self, resources, unknown_methods=None, proxy=False, mcast_per_resource=False,
                 registered_options=()):
        self.resources = resources
        self.unknown_methods = unknown_methods      # None or set of methods
        self.proxy = proxy
        self.mcast_per_resource = mcast_per_resource
        self.registered = set(registered_options)

    def find(self, segments):
        canon = [] if segments == [b""] else segments
        for r in self.resources:
            rs = [] if r.segments == [b""] else r.segments
            if rs == canon:
                return r
        return None


def default_code(method):
    return {1: 0x45, 2: 0x44, 3: 0x44, 4: 0x42, 5: 0x45}.get(method, 0x44)


FLAG_HAS_MCAST = 0x8
FLAG_SUPPRESS_205 = 0x20
FLAG_SUPPRESS_2XX = 0x40
FLAG_DIS_SUPPRESS_4XX = 0x80
FLAG_DIS_SUPPRESS_5XX = 0x100


class Outcome:
    """reply: None (no datagram) | ('rst',) | ('empty-ack',) | ('reply', code)
    handler: number of handler runs; resource: which Resource/'unknown'/None ran"""
    def __init__(self, reply, handler=0, resource=None):
        self.reply = reply
        self.handler = handler
        self.resource = resource

    def key(self):
        return (self.reply, self.handler)

    def __repr__(self):
        return "Outcome(reply=%r, handler=%d)" % (self.reply, self.handler)


def bad_options(req, table):
    """unknown critical options / illegal repetitions present in the request"""
    bad = []
    prev = None
    for num, val in req["options"]:
        if num & 1 and num not in KNOWN_CRITICAL and num not in table.registered:
            bad.append(("unknown-critical", num))
        if prev == num and num in cw.NON_REPEATABLE:
            bad.append(("repeated", num))
        prev = num
    return bad


def no_response_suppresses(req, code):
    v = [val for n, val in req["options"] if n == 258]
    if not v:
        return False
    bits = int.from_bytes(v[0], "big") if v[0] else 0
    cls = code >> 5
    return bool(bits & (1 << (cls - 1)))


def admissible(req, table, mcast=False):
    """returns (list of Outcome, judged: bool)"""
    typ, code = req["type"], req["code"]
    if typ in (2, 3):
        return None, False                     # only "at most one datagram" is stated
    cls = code >> 5
    if cls in (1, 6, 7):
        return [Outcome(("rst",)), Outcome(None)], True
    if not 1 <= code <= 31:
        return None, False
    if mcast and typ == 0:
        return None, False     # RFC 7252 8.1 forbids it; what a server does with one is not stated
    con = typ == 0
    outs = []

    def err(c, resource=None):
        o = [Outcome(("reply", c), 0, resource)]
        if no_response_suppresses(req, c):
            o.append(Outcome(("empty-ack",) if con else None, 0, resource))
        return o

    nums = [n for n, _ in req["options"]]
    bad = bad_options(req, table)
    if bad:
        outs += [Outcome(("reply", 0x82))] if con else [Outcome(("rst",))]
        if con and no_response_suppresses(req, 0x82):
            outs.append(Outcome(("empty-ack",)))
    has_proxy_uri = 35 in nums
    has_proxy_scheme = 39 in nums
    if has_proxy_uri or has_proxy_scheme:
        if has_proxy_scheme and 3 not in nums:
            outs += err(0x82)
        if not table.proxy:
            outs += err(0xA5)
        else:
            # A server with proxy support (RFC 7252 5.7.1): an unknown critical option that is
            # Safe-to-Forward (bit 1 clear) does not stop a proxy request; an Unsafe one, and an
            # illegal repetition, still gives 4.02 - the option check comes before anything else
            hard = [b for b in bad if b[0] == "repeated" or b[1] & 2]
            if mcast or 9 in nums:
                return None, False     # (an OSCORE option takes the request another way)
            if hard or (has_proxy_scheme and 3 not in nums):
                return outs, True
            host = None
            for n, v in req["options"]:
                if n == 35 and v.startswith(b"coap://"):
                    host = v[7:].split(b"/")[0].split(b":")[0]
                elif n == 3 and not has_proxy_uri:
                    host = v
            simple = not mcast and all(n in (3, 11, 35, 39) or (n & 1 and not n & 2 and
                                                                 n not in KNOWN_CRITICAL)
                                       for n in nums) and code in (1, 2, 3, 4)
            if simple and host is not None and host not in PROXY_OWN_NAMES:
                # plain forwarding request to a foreign authority: the proxy handler runs once
                # and its answer is sent (what it answers is the application's business)
                return PROXY_FORWARD, True
            return None, False                 # other proxy requests: not covered in detail
    hop = [v for n, v in req["options"] if n == 16]
    if hop:
        h = hop[0][0] if len(hop[0]) == 1 else None
        if h == 1:
            outs += err(0xA8)
        elif h == 0:
            outs += err(0x80)
    segments = [v for n, v in req["options"] if n == 11]
    if any(s in (b".", b"..") for s in segments):
        return None, False                     # RFC 7252 5.10.1 forbids these values
    res = table.find(segments)
    method = code
    if res is None:
        um = table.unknown_methods
        if um is not None and method in um:
            if table.mcast_per_resource and mcast:
                outs += err(0x85)      # the unknown-resource handler has no multicast support flag
            else:
                outs += handler_outcomes(req, "unknown", con)
        if segments == WELLKNOWN and 5 in nums and not (um is not None and method in um):
            outs += err(0x8C)                  # the built-in resource exists: 4.12, whatever the method
        elif segments == WELLKNOWN:
            if 5 in nums:
                outs += err(0x8C)
            if method == 1:
                outs += [Outcome(("reply", 0x45))]
                if no_response_suppresses(req, 0x45):
                    outs.append(Outcome(("empty-ack",) if con else None))
            else:
                outs += err(0x85) + err(0x84) + ([Outcome(("reply", 0x42))] if method == 4 else [])
        elif um is not None and method in um:
            pass
        elif method == 4:
            outs += [Outcome(("reply", 0x42))]
            if no_response_suppresses(req, 0x42):
                outs.append(Outcome(("empty-ack",) if con else None))
        else:
            outs += err(0x84)
    else:
        blocked = False
        if 5 in nums:
            outs += err(0x8C, res)
            blocked = True
        if method not in res.methods:
            outs += err(0x85, res)
            blocked = True
        if method == 5 and 12 not in nums:
            outs += err(0x8F, res)
            blocked = True
        if table.mcast_per_resource and mcast and not res.flags & FLAG_HAS_MCAST:
            outs += err(0x85, res)
            blocked = True
        if not blocked:
            outs += handler_outcomes(req, res, con)
    if mcast:
        # NON to a multicast address: never RST/ACK; error classes suppressed by default;
        # an explicit No-Response option (RFC 7967 2.1) overrides the default either way
        explicit = any(n == 258 for n, _ in req["options"])
        adj = []
        for o in outs:
            if o.reply and o.reply[0] == "reply":
                c = o.reply[1]
                k = c >> 5
                # the per-resource flags only apply in coap_mcast_per_resource() mode
                flags = o.resource.flags if isinstance(o.resource, Resource) and \
                    table.mcast_per_resource else 0
                if explicit:
                    adj.append(o)
                    adj.append(Outcome(None, o.handler, o.resource))
                elif k == 4 and not flags & FLAG_DIS_SUPPRESS_4XX:
                    adj.append(Outcome(None, o.handler, o.resource))
                elif k == 5 and not flags & FLAG_DIS_SUPPRESS_5XX:
                    adj.append(Outcome(None, o.handler, o.resource))
                elif k == 2 and (flags & FLAG_SUPPRESS_2XX or
                                 (c == 0x45 and flags & FLAG_SUPPRESS_205 and
                                  isinstance(o.resource, Resource) and not o.resource.body)):
                    # ..._SUPPRESS_2_05 is documented for *empty* 2.05 responses
                    adj.append(Outcome(None, o.handler, o.resource))
                else:
                    adj.append(o)
                    if k in (4, 5):
                        adj.append(Outcome(None, o.handler, o.resource))
            elif o.reply and o.reply[0] in ("rst", "empty-ack"):
                adj.append(Outcome(None, o.handler, o.resource))
            else:
                adj.append(o)
        outs = adj
    return outs, True


def handler_outcomes(req, res, con):
    """the registered handler runs exactly once; what it sets is what is sent, modulo
    No-Response"""
    method = req["code"]
    if res == "unknown":
        code = default_code(method)
    else:
        code = res.code if res.code is not None else default_code(method)
    outs = []
    if code == 0:
        outs.append(Outcome(("empty-ack",) if con else None, 1, res))
        return outs
    if no_response_suppresses(req, code):
        outs.append(Outcome(("empty-ack",) if con else None, 1, res))
    else:
        outs.append(Outcome(("reply", code), 1, res))
    return outs
