"""Pure-Python AES-128 (FIPS-197), CCM (RFC 3610) and HKDF-SHA256 (RFC 5869).

Independent reference used as a test oracle; stdlib only.  Not constant time,
not for production use.
"""
import hashlib
import hmac
import struct
from functools import lru_cache

__all__ = ['aes128_encrypt_block', 'ccm_encrypt', 'ccm_decrypt', 'hkdf_sha256']


# ---------------------------------------------------------------- AES-128 ---
def _xtime(a):
    a <<= 1
    return (a ^ 0x11b) if a & 0x100 else a


def _build_tables():
    # GF(2^8) log/antilog with generator 3, then S-box = affine(inverse(a)).
    exp, log, x = [0] * 255, [0] * 256, 1
    for i in range(255):
        exp[i], log[x] = x, i
        x ^= _xtime(x)
    sbox = []
    for a in range(256):
        b = exp[(255 - log[a]) % 255] if a else 0
        s = b
        for _ in range(4):
            b = ((b << 1) | (b >> 7)) & 0xff
            s ^= b
        sbox.append(s ^ 0x63)
    # T-tables: column (2s, s, s, 3s) and its byte rotations.
    te0 = []
    for s in sbox:
        m2 = _xtime(s)
        te0.append((m2 << 24) | (s << 16) | (s << 8) | (m2 ^ s))
    ror = lambda w, n: ((w >> n) | (w << (32 - n))) & 0xffffffff
    return (sbox, te0, [ror(w, 8) for w in te0], [ror(w, 16) for w in te0],
            [ror(w, 24) for w in te0])


_S, _T0, _T1, _T2, _T3 = _build_tables()


@lru_cache(maxsize=64)
def _expand_key(key):
    if len(key) != 16:
        raise ValueError('AES-128 key must be 16 bytes')
    w = list(struct.unpack('>4I', key))
    rcon = 1
    for i in range(4, 44):
        t = w[i - 1]
        if i % 4 == 0:
            t = ((t << 8) | (t >> 24)) & 0xffffffff                      # RotWord
            t = ((_S[t >> 24] << 24) | (_S[(t >> 16) & 255] << 16) |
                 (_S[(t >> 8) & 255] << 8) | _S[t & 255]) ^ (rcon << 24)  # SubWord ^ Rcon
            rcon = _xtime(rcon)
        w.append(w[i - 4] ^ t)
    return tuple(w)


def _encrypt_int(rk, block):
    """Encrypt one block given and returned as a 128-bit big-endian integer."""
    T0, T1, T2, T3, S = _T0, _T1, _T2, _T3, _S
    s0 = (block >> 96) ^ rk[0]
    s1 = ((block >> 64) & 0xffffffff) ^ rk[1]
    s2 = ((block >> 32) & 0xffffffff) ^ rk[2]
    s3 = (block & 0xffffffff) ^ rk[3]
    for r in range(4, 40, 4):
        t0 = T0[s0 >> 24] ^ T1[(s1 >> 16) & 255] ^ T2[(s2 >> 8) & 255] ^ T3[s3 & 255] ^ rk[r]
        t1 = T0[s1 >> 24] ^ T1[(s2 >> 16) & 255] ^ T2[(s3 >> 8) & 255] ^ T3[s0 & 255] ^ rk[r + 1]
        t2 = T0[s2 >> 24] ^ T1[(s3 >> 16) & 255] ^ T2[(s0 >> 8) & 255] ^ T3[s1 & 255] ^ rk[r + 2]
        t3 = T0[s3 >> 24] ^ T1[(s0 >> 16) & 255] ^ T2[(s1 >> 8) & 255] ^ T3[s2 & 255] ^ rk[r + 3]
        s0, s1, s2, s3 = t0, t1, t2, t3
    # Final round: SubBytes + ShiftRows + AddRoundKey (no MixColumns).
    t0 = ((S[s0 >> 24] << 24) | (S[(s1 >> 16) & 255] << 16) | (S[(s2 >> 8) & 255] << 8) | S[s3 & 255]) ^ rk[40]
    t1 = ((S[s1 >> 24] << 24) | (S[(s2 >> 16) & 255] << 16) | (S[(s3 >> 8) & 255] << 8) | S[s0 & 255]) ^ rk[41]
    t2 = ((S[s2 >> 24] << 24) | (S[(s3 >> 16) & 255] << 16) | (S[(s0 >> 8) & 255] << 8) | S[s1 & 255]) ^ rk[42]
    t3 = ((S[s3 >> 24] << 24) | (S[(s0 >> 16) & 255] << 16) | (S[(s1 >> 8) & 255] << 8) | S[s2 & 255]) ^ rk[43]
    return (t0 << 96) | (t1 << 64) | (t2 << 32) | t3


def aes128_encrypt_block(key16, block16):
    if len(block16) != 16:
        raise ValueError('AES block must be 16 bytes')
    rk = _expand_key(bytes(key16))
    return _encrypt_int(rk, int.from_bytes(block16, 'big')).to_bytes(16, 'big')


# ------------------------------------------------------------ CCM (RFC 3610) -
def _ccm_params(nonce, taglen, msglen):
    L = 15 - len(nonce)
    if not 2 <= L <= 8:
        raise ValueError('CCM nonce must be 7..13 bytes')
    if taglen not in (4, 6, 8, 10, 12, 14, 16):
        raise ValueError('CCM tag length must be even, 4..16')
    if msglen >= 1 << (8 * L):
        raise ValueError('CCM message too long for L=%d' % L)
    return L


def _ccm_mac(rk, nonce, msg, aad, taglen, L):
    """CBC-MAC value T (untruncated, as int) per RFC 3610 section 2.2."""
    flags = (0x40 if aad else 0) | (((taglen - 2) // 2) << 3) | (L - 1)
    data = bytes([flags]) + nonce + len(msg).to_bytes(L, 'big')         # B_0
    if aad:
        la = len(aad)
        if la < 0xff00:
            hdr = la.to_bytes(2, 'big')
        elif la < 1 << 32:
            hdr = b'\xff\xfe' + la.to_bytes(4, 'big')
        else:
            hdr = b'\xff\xff' + la.to_bytes(8, 'big')
        data += hdr + aad
        data += bytes(-len(data) % 16)
    data += msg + bytes(-len(msg) % 16)
    x = 0
    for i in range(0, len(data), 16):
        x = _encrypt_int(rk, x ^ int.from_bytes(data[i:i + 16], 'big'))
    return x


def _ccm_ctr(rk, nonce, data, L, first):
    """XOR data with key stream S_first, S_first+1, ... (RFC 3610 section 2.3)."""
    a0 = int.from_bytes(bytes([L - 1]) + nonce + bytes(L), 'big')
    nblocks = (len(data) + 15) // 16
    stream = b''.join(_encrypt_int(rk, a0 | (first + i)).to_bytes(16, 'big')
                      for i in range(nblocks))
    n = len(data)
    return (int.from_bytes(data, 'big') ^ int.from_bytes(stream[:n], 'big')).to_bytes(n, 'big')


def ccm_encrypt(key, nonce13, plaintext, aad, taglen=8):
    """AES-CCM; returns ciphertext || tag.  L = 15 - len(nonce), M = taglen."""
    nonce13, plaintext, aad = bytes(nonce13), bytes(plaintext), bytes(aad)
    L = _ccm_params(nonce13, taglen, len(plaintext))
    rk = _expand_key(bytes(key))
    t = _ccm_mac(rk, nonce13, plaintext, aad, taglen, L).to_bytes(16, 'big')[:taglen]
    tag = _ccm_ctr(rk, nonce13, t, L, 0)
    return _ccm_ctr(rk, nonce13, plaintext, L, 1) + tag


def ccm_decrypt(key, nonce13, ciphertext_and_tag, aad, taglen=8):
    """Returns the plaintext, or None if authentication fails (or input too short)."""
    nonce13, data, aad = bytes(nonce13), bytes(ciphertext_and_tag), bytes(aad)
    if len(data) < taglen:
        return None
    ct, tag = data[:len(data) - taglen], data[len(data) - taglen:]
    L = _ccm_params(nonce13, taglen, len(ct))
    rk = _expand_key(bytes(key))
    pt = _ccm_ctr(rk, nonce13, ct, L, 1)
    t = _ccm_mac(rk, nonce13, pt, aad, taglen, L).to_bytes(16, 'big')[:taglen]
    return pt if hmac.compare_digest(_ccm_ctr(rk, nonce13, t, L, 0), tag) else None


# ------------------------------------------------------- HKDF (RFC 5869) ---
def hkdf_sha256(salt, ikm, info, length):
    hlen = hashlib.sha256().digest_size
    if length > 255 * hlen:
        raise ValueError('HKDF output too long')
    prk = hmac.new(bytes(salt) if salt else bytes(hlen), bytes(ikm), hashlib.sha256).digest()
    okm, t, i = b'', b'', 1
    while len(okm) < length:
        t = hmac.new(prk, t + bytes(info) + bytes([i]), hashlib.sha256).digest()
        okm += t
        i += 1
    return okm[:length]
