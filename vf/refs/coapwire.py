"""Independent reference encoder / decoder for the CoAP wire formats.

Written from RFC 7252 section 3 (UDP/DTLS), RFC 8323 sections 3.2/3.3/4 (TCP/TLS
length-prefixed messages, WebSocket messages and frames) and RFC 8974 (extended
token lengths).  Not derived from libcoap's code.

A message is a dict
   {'type': 0..3, 'code': 0..255, 'mid': 0..65535, 'token': bytes,
    'options': [(number, value-bytes), ...]  (ascending, stable), 'payload': bytes}
For the stream transports type is always 0 (CON) and mid 0, as they are not on
the wire.
"""

MAX_OPT = 65535
TOKEN_EXT_MAX = 65804

# option -> (min, max) value length, from the defining RFCs
OPT_LEN = {
    1: (0, 8), 3: (1, 255), 4: (1, 8), 5: (0, 0), 6: (0, 3), 7: (0, 2),
    8: (0, 255), 9: (0, 255), 11: (0, 255), 12: (0, 2), 14: (0, 4),
    15: (0, 255), 16: (1, 1), 17: (0, 2), 19: (0, 3), 20: (0, 255),
    23: (0, 3), 27: (0, 3), 28: (0, 4), 31: (0, 3), 35: (1, 1034),
    39: (1, 255), 60: (0, 4), 252: (1, 40), 258: (0, 1), 292: (0, 8),
}
# lengths where the RFC text and libcoap's table differ or the RFC is silent:
# executed, never judged  (predicate on length)
OPT_EITHER = {
    15: lambda n: n == 0,
    252: lambda n: n == 0,
    19: lambda n: n > 3,
    31: lambda n: n > 3,
}
# signalling options (RFC 8323 section 5), per code: option -> (min, max)
SIG_OPT_LEN = {
    0xE1: {2: (0, 4), 4: (0, 0), 6: (0, 3)},   # CSM (6: RFC 8974)
    0xE2: {2: (0, 0)},                          # Ping
    0xE3: {2: (0, 0)},                          # Pong
    0xE4: {2: (1, 255), 4: (0, 3)},             # Release
    0xE5: {2: (0, 2)},                          # Abort
}

REPEATABLE = {1, 4, 8, 11, 15, 20, 292}
NON_REPEATABLE = {3, 5, 6, 7, 9, 12, 14, 16, 17, 23, 27, 28, 35, 39, 60, 252, 258}


class Reject(Exception):
    def __init__(self, reason):
        Exception.__init__(self, reason)
        self.reason = reason


class Either(Exception):
    """Input lies in a zone where no accept/reject verdict is demanded."""
    def __init__(self, reason):
        Exception.__init__(self, reason)
        self.reason = reason


def is_stream(proto):
    return proto in ("tcp", "tls", "ws", "wss")


# ------------------------------------------------------------------ encoding

def _ext(v):
    """nibble and extension bytes for a delta or length value"""
    if v < 13:
        return v, b""
    if v < 269:
        return 13, bytes([v - 13])
    if v <= 65535 + 269:
        return 14, (v - 269).to_bytes(2, "big")
    raise ValueError("value too large for option header: %d" % v)


def encode_options(options):
    out = bytearray()
    prev = 0
    for num, val in options:
        if num < prev:
            raise ValueError("options not sorted")
        dn, de = _ext(num - prev)
        ln, le = _ext(len(val))
        out.append((dn << 4) | ln)
        out += de + le + val
        prev = num
    return bytes(out)


def sort_options(options):
    return sorted(options, key=lambda o: o[0])


def encode_token(token):
    """TKL nibble and the bytes that follow the fixed header for the token"""
    n = len(token)
    if n < 13:
        return n, token
    if n < 269:
        return 13, bytes([n - 13]) + token
    if n <= TOKEN_EXT_MAX:
        return 14, (n - 269).to_bytes(2, "big") + token
    raise ValueError("token too long")


def encode_body(msg):
    """options + payload marker + payload"""
    b = encode_options(msg["options"])
    if msg["payload"]:
        b += b"\xff" + msg["payload"]
    return b


def encode(msg, proto):
    tkl, tok = encode_token(msg["token"])
    body = encode_body(msg)
    if proto in ("udp", "dtls"):
        return bytes([0x40 | (msg["type"] << 4) | tkl, msg["code"],
                      msg["mid"] >> 8, msg["mid"] & 0xff]) + tok + body
    if proto in ("ws", "wss"):
        return bytes([tkl, msg["code"]]) + tok + body
    n = len(body)
    if n < 13:
        hdr = bytes([(n << 4) | tkl])
    elif n < 269:
        hdr = bytes([(13 << 4) | tkl, n - 13])
    elif n < 65805:
        hdr = bytes([(14 << 4) | tkl]) + (n - 269).to_bytes(2, "big")
    else:
        hdr = bytes([(15 << 4) | tkl]) + (n - 65805).to_bytes(4, "big")
    return hdr + bytes([msg["code"]]) + tok + body


# ------------------------------------------------------------------ decoding

def _take_token(tkl, data, pos):
    if tkl < 13:
        n = tkl
    elif tkl == 13:
        if pos + 1 > len(data):
            raise Reject("ext-token-length-truncated")
        n = data[pos] + 13
        pos += 1
    elif tkl == 14:
        if pos + 2 > len(data):
            raise Reject("ext-token-length-truncated")
        n = int.from_bytes(data[pos:pos + 2], "big") + 269
        pos += 2
    else:
        raise Reject("tkl-15")
    if pos + n > len(data):
        raise Reject("token-truncated")
    return data[pos:pos + n], pos + n


def decode_options(data, pos, code, stream):
    """returns (options, payload).  Raises Reject / Either."""
    options = []
    num = 0
    either = None
    bad_len = None
    n = len(data)
    while pos < n:
        b = data[pos]
        if b == 0xFF:
            if pos + 1 == n:
                raise Reject("marker-without-payload")
            if bad_len:
                raise Reject(bad_len)
            if either:
                raise Either(either)
            return options, data[pos + 1:]
        dn, ln = b >> 4, b & 15
        pos += 1
        if dn == 15:
            raise Reject("delta-nibble-15")
        if dn == 13:
            if pos >= n:
                raise Reject("delta-ext-truncated")
            delta = data[pos] + 13
            pos += 1
        elif dn == 14:
            if pos + 2 > n:
                raise Reject("delta-ext-truncated")
            delta = int.from_bytes(data[pos:pos + 2], "big") + 269
            pos += 2
        else:
            delta = dn
        if ln == 15:
            raise Reject("length-nibble-15")
        if ln == 13:
            if pos >= n:
                raise Reject("length-ext-truncated")
            length = data[pos] + 13
            pos += 1
        elif ln == 14:
            if pos + 2 > n:
                raise Reject("length-ext-truncated")
            length = int.from_bytes(data[pos:pos + 2], "big") + 269
            pos += 2
        else:
            length = ln
        num += delta
        if num > MAX_OPT:
            raise Reject("option-number>65535")
        if pos + length > n:
            raise Reject("value-truncated")
        val = data[pos:pos + length]
        pos += length
        options.append((num, val))
        # per-option length limits
        if code >= 0xE0:
            if not stream:
                either = either or "signalling-on-datagram"
            tab = SIG_OPT_LEN.get(code)
            if tab is not None:
                if num in tab:
                    lo, hi = tab[num]
                    if not lo <= length <= hi:
                        bad_len = bad_len or "sig-option-%d-length" % num
                elif num & 1:
                    either = either or "unknown-critical-signalling-option"
        else:
            if num in OPT_EITHER and OPT_EITHER[num](length):
                either = either or "option-%d-length-%d" % (num, min(length, 9))
            elif num in OPT_LEN:
                lo, hi = OPT_LEN[num]
                if not lo <= length <= hi:
                    bad_len = bad_len or "option-%d-length" % num
    if bad_len:
        raise Reject(bad_len)
    if either:
        raise Either(either)
    return options, b""


def decode(data, proto):
    """Decode one message that occupies exactly `data`.
    Returns msg; raises Reject(reason) or Either(reason)."""
    data = bytes(data)
    if proto in ("udp", "dtls"):
        if len(data) < 4:
            raise Reject("short-header")
        if data[0] >> 6 != 1:
            raise Reject("version")
        typ = (data[0] >> 4) & 3
        tkl = data[0] & 15
        code = data[1]
        mid = (data[2] << 8) | data[3]
        pos = 4
    elif proto in ("ws", "wss"):
        if len(data) < 2:
            raise Reject("short-header")
        # RFC 8323 4.2: Len nibble must be zero for WebSockets ("MUST be set to
        # zero and ignored" is about senders/receivers; a non-zero nibble is
        # not judged)
        tkl = data[0] & 15
        code = data[1]
        typ, mid, pos = 0, 0, 2
        lennib = data[0] >> 4
    else:
        if len(data) < 2:
            raise Reject("short-header")
        lennib = data[0] >> 4
        tkl = data[0] & 15
        extn = {13: 1, 14: 2, 15: 4}.get(lennib, 0)
        if len(data) < 1 + extn + 1:
            raise Reject("short-header")
        if lennib < 13:
            declared = lennib
        elif lennib == 13:
            declared = data[1] + 13
        elif lennib == 14:
            declared = int.from_bytes(data[1:3], "big") + 269
        else:
            declared = int.from_bytes(data[1:5], "big") + 65805
        code = data[1 + extn]
        typ, mid, pos = 0, 0, 2 + extn
    token, pos = _take_token(tkl, data, pos)
    if proto in ("tcp", "tls"):
        # Len counts options + payload marker + payload
        if declared != len(data) - pos:
            raise Either("len-field-inconsistent")
    if code == 0:
        if len(token) or pos != len(data):
            raise Reject("empty-message-not-empty")
        return {"type": typ, "code": 0, "mid": mid, "token": b"", "options": [],
                "payload": b""}
    options, payload = decode_options(data, pos, code, is_stream(proto))
    if proto in ("ws", "wss") and lennib != 0:
        raise Either("ws-len-nibble-nonzero")
    return {"type": typ, "code": code, "mid": mid, "token": token,
            "options": options, "payload": payload}


def verdict(data, proto):
    """('accept', msg) | ('reject', reason) | ('either', reason)"""
    try:
        return "accept", decode(data, proto)
    except Reject as r:
        return "reject", r.reason
    except Either as e:
        return "either", e.reason


# ----------------------------------------------------------- stream framing

def tcp_frame_length(prefix):
    """Given the first bytes of a TCP/TLS message, return the total size of the
    message (header + token + body) or None if more bytes are needed.
    Raises Reject for TKL 15."""
    if not prefix:
        return None
    lennib = prefix[0] >> 4
    tkl = prefix[0] & 15
    extn = {13: 1, 14: 2, 15: 4}.get(lennib, 0)
    if len(prefix) < 1 + extn:
        return None
    if lennib < 13:
        n = lennib
    elif lennib == 13:
        n = prefix[1] + 13
    elif lennib == 14:
        n = int.from_bytes(prefix[1:3], "big") + 269
    else:
        n = int.from_bytes(prefix[1:5], "big") + 65805
    pos = 1 + extn + 1
    if tkl < 13:
        t = tkl
    elif tkl == 13:
        if len(prefix) < pos + 1:
            return None
        t = prefix[pos] + 13 + 1
    elif tkl == 14:
        if len(prefix) < pos + 2:
            return None
        t = int.from_bytes(prefix[pos:pos + 2], "big") + 269 + 2
    else:
        raise Reject("tkl-15")
    return pos + t + n


def split_tcp_stream(stream):
    """Cut a TCP byte stream into its messages.  Returns (list of message byte
    strings, remainder)."""
    out = []
    pos = 0
    while pos < len(stream):
        n = tcp_frame_length(stream[pos:pos + 16])
        if n is None or pos + n > len(stream):
            break
        out.append(stream[pos:pos + n])
        pos += n
    return out, stream[pos:]


def ws_frame(payload, mask=None, opcode=2, fin=True):
    """RFC 6455 frame.  mask: 4 bytes or None"""
    b0 = (0x80 if fin else 0) | opcode
    n = len(payload)
    mbit = 0x80 if mask is not None else 0
    if n < 126:
        hdr = bytes([b0, mbit | n])
    elif n < 65536:
        hdr = bytes([b0, mbit | 126]) + n.to_bytes(2, "big")
    else:
        hdr = bytes([b0, mbit | 127]) + n.to_bytes(8, "big")
    if mask is not None:
        payload = bytes(c ^ mask[i & 3] for i, c in enumerate(payload))
        hdr += mask
    return hdr + payload


def ws_parse_frames(stream):
    """returns (list of (fin, opcode, payload-unmasked), remainder)"""
    out = []
    pos = 0
    while True:
        if len(stream) - pos < 2:
            break
        b0, b1 = stream[pos], stream[pos + 1]
        n = b1 & 0x7f
        p = pos + 2
        if n == 126:
            if len(stream) - p < 2:
                break
            n = int.from_bytes(stream[p:p + 2], "big")
            p += 2
        elif n == 127:
            if len(stream) - p < 8:
                break
            n = int.from_bytes(stream[p:p + 8], "big")
            p += 8
        mask = None
        if b1 & 0x80:
            if len(stream) - p < 4:
                break
            mask = stream[p:p + 4]
            p += 4
        if len(stream) - p < n:
            break
        pl = stream[p:p + n]
        if mask:
            pl = bytes(c ^ mask[i & 3] for i, c in enumerate(pl))
        out.append((bool(b0 & 0x80), b0 & 15, pl))
        pos = p + n
    return out, stream[pos:]


def msg(code, type=0, mid=0, token=b"", options=(), payload=b""):
    return {"type": type, "code": code, "mid": mid, "token": bytes(token),
            "options": sort_options(list(options)), "payload": bytes(payload)}


def uint_bytes(v):
    """minimal-length big-endian encoding of an unsigned option value"""
    out = b""
    while v:
        out = bytes([v & 0xff]) + out
        v >>= 8
    return out


if __name__ == "__main__":
    # worked examples
    m = msg(1, type=0, mid=0x1234, token=b"\xaa\xbb",
            options=[(11, b"foo"), (11, b"bar"), (3, b"host")], payload=b"hello")
    w = encode(m, "udp")
    assert w.hex() == "42011234aabb34686f737483666f6f03626172ff68656c6c6f", w.hex()
    assert decode(w, "udp") == m
    for proto in ("tcp", "ws"):
        m2 = dict(m, mid=0)
        assert decode(encode(m2, proto), proto) == m2
    assert verdict(bytes.fromhex("40010001e0feff"), "udp") == ("reject", "option-number>65535")
    assert verdict(bytes.fromhex("40000001ff"), "udp")[0] == "reject"
    assert verdict(bytes.fromhex("400100 01 ff".replace(" ", "")), "udp") == ("reject", "marker-without-payload")
    big = msg(2, token=bytes(300), options=[(65535, bytes(65804))], payload=bytes(10))
    for proto in ("udp", "tcp", "ws"):
        assert decode(encode(big, proto), proto) == big
    st = encode(msg(0xE1), "tcp") + encode(dict(m, mid=0), "tcp")
    parts, rem = split_tcp_stream(st)
    assert len(parts) == 2 and rem == b""
    fr = ws_frame(b"abc", mask=b"\x01\x02\x03\x04")
    assert ws_parse_frames(fr)[0] == [(True, 2, b"abc")]
    print("coapwire self-test: OK")
