"""Generators for CoAP messages and hostile byte strings (shared by several
properties).  Everything draws from the random.Random instance passed in."""
from .refs import coapwire as cw

KNOWN_OPTS = sorted(cw.OPT_LEN)
REQ_CODES = [1, 2, 3, 4, 5, 6, 7]
RSP_CODES = [0x41, 0x42, 0x43, 0x44, 0x45, 0x5f, 0x80, 0x81, 0x84, 0x85, 0x8c, 0xa0, 0xa5]
SIG_CODES = [0xE1, 0xE2, 0xE3, 0xE4, 0xE5]
TOKEN_LENS_COMMON = [0, 1, 2, 4, 7, 8]
TOKEN_LENS_EDGE = [9, 12, 13, 14, 15, 268, 269, 270]
TOKEN_LENS_HUGE = [4096, 65803, 65804]
LEN_EDGES = [0, 1, 11, 12, 13, 14, 268, 269, 270]


def rbytes(r, n):
    return bytes(r.getrandbits(8) for _ in range(n)) if n < 64 else r.randbytes(n)


def token_len(r, allow_huge=True):
    x = r.random()
    if x < 0.70:
        return r.choice(TOKEN_LENS_COMMON)
    if x < 0.97 or not allow_huge:
        return r.choice(TOKEN_LENS_EDGE)
    return r.choice(TOKEN_LENS_HUGE)


def legal_len(r, num):
    """a value length legal for option `num` (and outside the either zones)"""
    if num in cw.OPT_LEN:
        lo, hi = cw.OPT_LEN[num]
        if num in (15, 252):
            lo = max(lo, 1)
        x = r.random()
        if x < 0.25:
            return lo
        if x < 0.5:
            return hi
        cands = [v for v in LEN_EDGES if lo <= v <= hi]
        if cands and x < 0.75:
            return r.choice(cands)
        return r.randint(lo, hi)
    x = r.random()
    if x < 0.6:
        return r.randint(0, 12)
    if x < 0.95:
        return r.choice(LEN_EDGES)
    if x < 0.995:
        return r.randint(271, 2000)
    return r.choice([65535 + 268, 65535 + 269, 65535])


def option_numbers(r, count, sig=None):
    """a multiset of option numbers with deltas around the encoding boundaries"""
    nums = []
    for _ in range(count):
        x = r.random()
        if sig is not None:
            nums.append(r.choice([2, 4, 6] if x < 0.8 else [8, 10, 64]))
        elif x < 0.55:
            nums.append(r.choice(KNOWN_OPTS))
        elif x < 0.75 and nums:
            base = r.choice(nums)
            nums.append(max(0, min(65535, base + r.choice([0, 1, 12, 13, 14, 268, 269, 270, -1,
                                                            -12, -13, -14, -268, -269, -270]))))
        elif x < 0.9:
            nums.append(r.choice([0, 2, 10, 13, 14, 64, 65, 268, 269, 270, 300, 2048, 65000,
                                  65534, 65535]))
        else:
            nums.append(r.randint(0, 65535))
    return nums


def gen_message(r, proto, allow_huge=True, legal_repeat=True):
    """A well-formed message (reference accepts it) as a dict; options are in
    *insertion* order (not sorted) under key 'insert_order'."""
    stream = cw.is_stream(proto)
    x = r.random()
    if x < 0.03:
        # Empty message
        return {"type": 0 if stream else r.randint(0, 3), "code": 0,
                "mid": 0 if stream else r.getrandbits(16), "token": b"", "options": [],
                "payload": b"", "insert_order": []}
    sig = None
    if stream and x < 0.15:
        code = r.choice(SIG_CODES)
        sig = code
    elif x < 0.55:
        code = r.choice(REQ_CODES)
    elif x < 0.9:
        code = r.choice(RSP_CODES)
    else:
        code = r.randint(1, 0xDF)
    tok = rbytes(r, token_len(r, allow_huge))
    nopt = r.choice([0, 1, 1, 2, 2, 3, 3, 4, 5, 6, 8])
    nums = option_numbers(r, nopt, sig)
    order = []
    seen = set()
    for n in nums:
        if legal_repeat and n in seen and n in cw.NON_REPEATABLE and sig is None:
            continue
        seen.add(n)
        if sig is not None:
            tab = cw.SIG_OPT_LEN.get(sig, {})
            if n in tab:
                ln = r.randint(*tab[n])
            elif n & 1:
                continue
            else:
                ln = r.randint(0, 5)
        else:
            ln = legal_len(r, n)
        order.append((n, rbytes(r, ln)))
    x = r.random()
    if x < 0.35:
        pl = b""
    elif x < 0.9:
        pl = rbytes(r, r.randint(1, 40))
    elif x < 0.98:
        pl = rbytes(r, r.choice([12, 13, 255, 256, 268, 269, 1024, 1100]))
    else:
        pl = rbytes(r, r.choice([65000, 65804, 65805, 66000]) if allow_huge else 2000)
    return {"type": 0 if stream else r.randint(0, 3), "code": code,
            "mid": 0 if stream else r.getrandbits(16), "token": tok,
            "options": cw.sort_options(order), "payload": pl, "insert_order": order}


def strip(m):
    return {k: m[k] for k in ("type", "code", "mid", "token", "options", "payload")}


# ---------------------------------------------------------------- mutations

def _header_len(proto, data):
    if proto in ("udp", "dtls"):
        return 4
    if proto in ("ws", "wss"):
        return 2
    ln = data[0] >> 4
    return 2 + {13: 1, 14: 2, 15: 4}.get(ln, 0)


def refit_tcp_len(data):
    """Recompute the RFC 8323 Len field so that it is consistent with the bytes
    that follow (the property speaks about a *consistent* length prefix)."""
    try:
        lennib = data[0] >> 4
        tkl = data[0] & 15
        extn = {13: 1, 14: 2, 15: 4}.get(lennib, 0)
        code = data[1 + extn]
        rest = data[2 + extn:]
    except IndexError:
        return data
    # token part
    if tkl < 13:
        t = tkl
    elif tkl == 13:
        t = (rest[0] + 13 + 1) if len(rest) >= 1 else 0
    elif tkl == 14:
        t = (int.from_bytes(rest[0:2], "big") + 269 + 2) if len(rest) >= 2 else 0
    else:
        t = 0
    n = max(0, len(rest) - t)
    if n < 13:
        hdr = bytes([(n << 4) | tkl])
    elif n < 269:
        hdr = bytes([(13 << 4) | tkl, n - 13])
    elif n < 65805:
        hdr = bytes([(14 << 4) | tkl]) + (n - 269).to_bytes(2, "big")
    else:
        hdr = bytes([(15 << 4) | tkl]) + (n - 65805).to_bytes(4, "big")
    return hdr + bytes([code]) + rest


MUTATIONS = ["nibble-delta", "nibble-len", "ext-byte", "tkl", "truncate", "marker-end",
             "marker-mid", "append", "flip", "version", "delta-overflow", "len+1", "code0",
             "optlen-edge", "ext-token-bytes", "insert-bytes"]


def mutate(r, m, proto):
    """Return (mutation-class, bytes) for one mutation of the valid message m."""
    data = bytearray(cw.encode(strip(m), proto))
    hl = _header_len(proto, data)
    kind = r.choice(MUTATIONS)
    tkn, tokb = cw.encode_token(m["token"])
    opt_start = hl + len(tokb)
    body = cw.encode_options(m["options"])
    opt_end = opt_start + len(body)
    if kind in ("nibble-delta", "nibble-len", "ext-byte", "len+1", "flip") and opt_end > opt_start:
        # find option header positions
        pos = opt_start
        heads = []
        prev = 0
        for num, val in m["options"]:
            heads.append(pos)
            dn, de = cw._ext(num - prev)
            ln, le = cw._ext(len(val))
            pos += 1 + len(de) + len(le) + len(val)
            prev = num
        h = r.choice(heads)
        if kind == "nibble-delta":
            data[h] = (r.choice([13, 14, 15]) << 4) | (data[h] & 15)
        elif kind == "nibble-len":
            data[h] = (data[h] & 0xf0) | r.choice([13, 14, 15])
        elif kind == "ext-byte":
            if h + 1 < len(data):
                data[h + 1] = r.choice([0, 0xff, (data[h + 1] + 1) & 255, (data[h + 1] - 1) & 255])
        elif kind == "len+1":
            ln = data[h] & 15
            if ln < 12:
                data[h] = (data[h] & 0xf0) | (ln + 1)
            else:
                data[h] = (data[h] & 0xf0) | 12
        else:
            data[r.randrange(opt_start, opt_end)] ^= 1 << r.randrange(8)
    elif kind == "tkl":
        data[0] = (data[0] & 0xf0) | r.choice([9, 10, 11, 12, 13, 14, 15, r.randrange(16)])
    elif kind == "truncate":
        if len(data) > 1:
            del data[r.randrange(1, len(data)):]
    elif kind == "marker-end":
        del data[opt_end:]
        data += b"\xff"
    elif kind == "marker-mid":
        p = r.randint(opt_start, opt_end)
        data[p:p] = b"\xff"
    elif kind == "append":
        data += rbytes(r, r.randint(1, 4))
    elif kind == "flip":
        data[r.randrange(len(data))] ^= 1 << r.randrange(8)
    elif kind == "version":
        if proto in ("udp", "dtls"):
            data[0] = (data[0] & 0x3f) | (r.choice([0, 2, 3]) << 6)
        else:
            data[0] ^= 0x10
    elif kind == "delta-overflow":
        # append an option whose delta pushes the running number over 65535
        last = m["options"][-1][0] if m["options"] else 0
        need = 65536 - last + r.choice([0, 0, 1, 255, 12])
        need = max(269, min(need, 65535 + 269))
        opt = bytes([0xE0]) + (need - 269).to_bytes(2, "big")
        del data[opt_end:]
        data += opt
    elif kind == "code0":
        if proto in ("udp", "dtls"):
            data[1] = 0
        else:
            data[hl - 1] = 0
    elif kind == "optlen-edge":
        # replace the options by one tabled option at min-1/min/max/max+1
        num = r.choice(sorted(cw.OPT_LEN))
        lo, hi = cw.OPT_LEN[num]
        ln = r.choice([lo - 1, lo, hi, hi + 1])
        if ln < 0:
            ln = hi + 1
        if r.random() < 0.12 and 65536 + lo <= 65535 + 269:
            # far above the limit, and equal to a legal length modulo 2^16
            ln = 65536 + r.randint(lo, min(hi, 268))
        del data[opt_start:]
        data += cw.encode_options([(num, rbytes(r, ln))])
    elif kind == "ext-token-bytes":
        if tkn >= 13:
            data[hl] = r.choice([0, 0xff, (data[hl] + 1) & 255])
        else:
            data[0] = (data[0] & 0xf0) | 13
    elif kind == "insert-bytes":
        p = r.randint(opt_start, len(data))
        data[p:p] = rbytes(r, r.randint(1, 3))
    else:
        data[r.randrange(len(data))] ^= 1 << r.randrange(8)
    data = bytes(data)
    if proto in ("tcp", "tls") and data:
        data = refit_tcp_len(data)
    return kind, data


def blind(r, proto, maxlen=64):
    n = r.choice([0, 1, 2, 3, 4, 5, 6, 8, 12, 16]) if r.random() < 0.5 else r.randint(0, maxlen)
    b = bytearray(rbytes(r, n))
    if b and r.random() < 0.7:
        if proto in ("udp", "dtls"):
            b[0] = 0x40 | (b[0] & 0x3f)
        if len(b) > 1 and r.random() < 0.5:
            b[1] = r.choice(REQ_CODES + RSP_CODES + [0])
    b = bytes(b)
    if proto in ("tcp", "tls") and b:
        b = refit_tcp_len(b)
    return b
