"""C20 - /.well-known/core lists exactly the registered resources in any
window / filter.  coap_print_wellknown() and coap_print_link() on exact-size
heap buffers for every (offset, buflen); the full listing is compared with the
RFC 6690 reference as a set of links."""
from .. import build, common, world
from ..refs import linkformat as LF

import re
PRESENT = re.compile(rb"(?:^|,)</([^>]*)>")
NAMES = [b"rt", b"if", b"rel", b"ct", b"sz", b"title", b"x"]
WORDS = [b"temp", b"hum", b"sensor", b"core.s", b"a", b"ab", b"abc", b"t", b"te", b"light-lux"]


def gen_value(r, name):
    x = r.random()
    if x < 0.12:
        return None                              # value-less attribute
    if x < 0.2:
        return b""                               # empty value
    if x < 0.23:
        # a quote that is not one of a pair (judged for memory safety and listing text only)
        return r.choice([b'"', b'"ab', b'ab"', b'""', b'"a b'])
    if name in (b"rt", b"if", b"rel") and x < 0.6:
        toks = [r.choice(WORDS) for _ in range(r.randint(1, 3))]
        return b'"' + b" ".join(toks) + b'"'
    if x < 0.8:
        return r.choice(WORDS)
    if x < 0.9:
        return b'"' + r.choice(WORDS) + b'"'
    return str(r.randint(0, 70000)).encode()


def gen_table(r):
    n = r.choice([0, 1, 1, 2, 3, 4, 6, 8, 12])
    paths = set()
    out = []
    for _ in range(n):
        segs = [r.choice([b"a", b"b", b"sensors", b"t", b"temp", b"x1", b"~", b"a-b"])
                for _ in range(r.randint(0, 3))]
        p = b"/".join(segs)
        if p in paths or p == b".well-known/core":
            continue
        paths.add(p)
        attrs = []
        for nm in r.sample(NAMES, r.choice([0, 1, 1, 2, 3])):
            attrs.append((nm, gen_value(r, nm)))
        out.append(LF.Res(p, attrs, observable=r.random() < 0.3, osc=r.random() < 0.15))
    return out


def gen_filter(r, table):
    x = r.random()
    if x < 0.2:
        return None
    if x < 0.28:
        # patterns that are empty once '/' and '*' are taken off
        return r.choice([b"rt=*", b"if=*", b"rel=*", b"ct=*", b"title=*", b"zz=*", b"href=*",
                         b"href=/*", b"href=/", b"href=", b"rt=", b"if=", b"title=", b"sz=*",
                         b"x=*", b"x="])
    if x < 0.45 and table:
        res = r.choice(table)
        p = res.path
        y = r.random()
        pat = p if y < 0.3 else (p[:r.randint(0, len(p))] + b"*") if y < 0.7 else p + b"x"
        if r.random() < 0.4:
            pat = b"/" + pat
        return b"href=" + pat
    # most filters are derived from an attribute that really is in the table, aiming
    # at a particular token (first / middle / last) of a multi-token value
    cands = [(n, v) for res in table for n, v in res.attrs if v]
    if cands and x < 0.85:
        name, v = r.choice(cands)
        toks = LF.unquote(v).split(b" ")
        w = r.choice([toks[0], toks[-1], r.choice(toks)])
        y = r.random()
        if y < 0.45:
            pat = w
        elif y < 0.75:
            pat = w[:r.randint(0, len(w))] + b"*"
        elif y < 0.85:
            pat = w + b"*"
        elif y < 0.95:
            pat = w + r.choice([b"x", b" ", b"*x"])
        else:
            pat = LF.unquote(v)
        return name + b"=" + pat
    name = r.choice([b"rt", b"if", b"rel", b"ct", b"title", b"zz"])
    w = r.choice(WORDS)
    y = r.random()
    pat = w if y < 0.5 else w[:r.randint(0, len(w))] + b"*" if y < 0.85 else b""
    if r.random() < 0.05:
        return name                              # no '=' (not judged)
    return name + b"=" + pat


def encode_table(table):
    if not table:
        return "-"
    parts = []
    for res in table:
        attrs = []
        for n, v in res.attrs:
            attrs.append(n.hex() + ("" if v is None else "=" + (v.hex() if v else "-")))
        parts.append("%s:%d:%s" % (res.path.hex() or "-", (1 if res.observable else 0)
                                   | (2 if res.osc else 0), ",".join(attrs) or "-"))
    return ";".join(parts)


def work(job):
    idx, ntables, nfilters, maxall, exe = job
    r = common.rng("c20-%d" % idx)
    cases = []
    for _ in range(ntables):
        table = gen_table(r)
        filters = [None] + [gen_filter(r, table) for _ in range(nfilters - 1)]
        for f in filters:
            estimate = sum(x.link_len() + 1 for x in table)
            mode = "all" if estimate <= maxall else "diag"
            cases.append((table, f, mode))
    lines = ["W %s %s %s" % (mode, f.hex() if f is not None else "~", encode_table(t))
             for t, f, mode in cases]
    # empty filter string cannot be expressed as hex: skip those
    results, crashes = common.run_batch(exe, lines, timeout=1200)
    vios = []
    cov = set()
    windows = 0
    judged_sets = 0
    partial_sets = [0]
    sample = None
    for (table, f, mode), res, line in zip(cases, results, lines):
        if res is None:
            continue
        fl = res.split(" ")
        if fl[0] == "FULLERR":
            vios.append(("print_wellknown/full-print-error", {"case": line}, res))
            continue
        L = int(fl[0])
        full = common.unhx(fl[1])
        nwin, nbad, first = int(fl[2]), int(fl[3]), fl[4]
        windows += nwin
        if nbad:
            what = first.split(",")[2]
            vios.append(("print_wellknown/window/%s" % what, {"case": line},
                         "listing length %d: %d of %d windows wrong, first (offset,buflen,what)="
                         "%s" % (L, nbad, nwin, first)))
        sel = [LF.selects(f, x) for x in table]
        fk = "none" if f is None else f.split(b"=")[0].decode("latin1") + \
            ("*" if f.endswith(b"*") else "")
        cov.add((fk, len(table), min(L, 400) // 40, mode))
        if None not in sel:
            judged_sets += 1
            expect = [x for x, s in zip(table, sel) if s]
            ok, why = LF.match_listing(full, expect)
            if not ok:
                vios.append(("print_wellknown/listing-differs/%s" % fk, {"case": line},
                             "filter %r\nexpected links (any order): %r\nlisting: %r" %
                             (f, [next(x.link_variants()) for x in expect], full)))
        elif any(s_ is not None for s_ in sel):
            # the statement settles some resources and leaves others open (empty pattern):
            # the settled ones must be in / out, and what is listed must be whole links
            present = set(PRESENT.findall(full))
            bad = [(x.path, s_) for x, s_ in zip(table, sel)
                   if s_ is not None and (x.path in present) != s_]
            expect = [x for x in table if x.path in present]
            ok, why = LF.match_listing(full, expect)
            partial_sets[0] += 1
            if bad or not ok:
                vios.append(("print_wellknown/listing-differs/%s" % fk, {"case": line},
                             "filter %r\nresources wrongly listed/left out (path, should be "
                             "listed): %r\nlisting: %r" % (f, bad, full)))
        for item in fl[5:]:
            if not item.startswith("link:"):
                continue
            parts = item.split(":")
            path = common.unhx(parts[1])
            if parts[2] == "ERR":
                vios.append(("print_link/error", {"case": line}, item))
                continue
            text = common.unhx(parts[2])
            windows += int(parts[3])
            if int(parts[4]):
                vios.append(("print_link/window/%s" % parts[5].split(",")[2], {"case": line},
                             "link %r: %s of %s windows wrong, first %s" %
                             (text, parts[4], parts[3], parts[5])))
            res_ = [x for x in table if x.path == path]
            if res_ and text not in set(res_[0].link_variants()):
                vios.append(("print_link/text-differs", {"case": line},
                             "resource %r attrs %r -> %r" % (path, res_[0].attrs, text)))
        if sample is None and table:
            sample = {"filter": None if f is None else f.decode("latin1"),
                      "listing": full.decode("latin1")[:200], "windows": nwin, "mode": mode}
    crash_out = []
    for cr in crashes:
        if cr.index == -2:
            continue
        sig = common.sanitizer_signature(cr.stderr) or ("abort-rc%d" % cr.rc)
        w = {"stderr": cr.stderr[-3000:]}
        if cr.index >= 0:
            w["case"] = lines[cr.index]
        crash_out.append((sig, w))
    return len(cases), cov, vios, crash_out, windows, judged_sets, sample


def get_work(job):
    """the body a client obtains by GET /.well-known/core (plain and Block2, with and without
    a filter) is the listing of exactly the selected resources"""
    idx, n, exe = job
    run = common.Run("C20", "quick", "exploration")
    stats = dict(gets=0, blockwise_gets=0, get_judged=0)
    cov = set()
    for k in range(n):
        r = common.rng("c20-get-%d-%d" % (idx, k))
        table = [x for x in gen_table(r) if x.path]        # the root resource has no URI here
        w = world.World(exe, seed=r.getrandbits(30))
        sim = world.Sim(w, latency=1)
        witness = {"table": [(x.path.decode("latin1"), [(a.decode("latin1"), None if v is None
                                                         else v.decode("latin1"))
                                                        for a, v in x.attrs], x.observable,
                              x.osc) for x in table], "script": w.script}
        try:
            mtu = r.choice([0, 0, 80, 96, 128, 200])      # 64 cannot hold a 16-byte block
            sim.cmd("fullpayload 1")
            sim.add_node(0, block_mode=3)
            sim.add_node(1, block_mode=r.choice([1, 3]))
            if mtu:
                sim.cmd("ctx 1 srv_mtu=%d" % mtu)
            sim.cmd("ep 1 udp 10.0.0.2:5683")
            for x in table:
                line = "res 1 %s body=fixed:78" % x.path.hex()
                if x.observable:
                    line += " obs=1"
                if x.osc:
                    line += " flags=%d" % 0x400
                if x.attrs:
                    line += " attr=" + ",".join(a.hex() + ("" if v is None else ":" + v.hex())
                                                for a, v in x.attrs)
                sim.cmd(line)
            sim.cmd("sess 0 0 udp 10.0.0.2:5683%s" % (" mtu=%d" % mtu if mtu else ""))
            # the listing is asked for again after the table changed: "currently registered"
            rounds = [[None] + [gen_filter(r, table) for _ in range(3)]]
            for _ in range(r.choice([0, 1, 2, 3])):
                rounds.append([None, gen_filter(r, table)])
            tokn = [0]
            for rnd, filters in enumerate(rounds):
                if rnd:
                    x = r.random()
                    if x < 0.35 and table:
                        t_ = r.choice(table)
                        t_.observable = not t_.observable
                        sim.cmd("resmod 1 %s obs=%d" % (t_.path.hex(), 1 if t_.observable else 0))
                    elif x < 0.6 and table:
                        t_ = r.choice(table)
                        nm = r.choice([n_ for n_ in NAMES if n_ not in [a for a, _ in t_.attrs]] or
                                      [None])
                        if nm is not None:
                            v = gen_value(r, nm)
                            t_.attrs.append((nm, v))
                            sim.cmd("resmod 1 %s attr=%s" % (t_.path.hex(), nm.hex() +
                                                             ("" if v is None else ":" + v.hex())))
                    elif x < 0.8 and table:
                        t_ = table.pop(r.randrange(len(table)))
                        sim.cmd("delres 1 %s" % t_.path.hex())
                    else:
                        pth = b"new%d" % rnd
                        t_ = LF.Res(pth, [(b"rt", b"late")], observable=r.random() < 0.5)
                        table.append(t_)
                        sim.cmd("res 1 %s body=fixed:78%s attr=%s:%s" % (
                            pth.hex(), " obs=1" if t_.observable else "", b"rt".hex(), b"late".hex()))
                    witness["table_after_round_%d" % rnd] = [
                        (x_.path.decode("latin1"), x_.observable) for x_ in table]
                for f in filters:
                    j = tokn[0]
                    tokn[0] += 1
                    if f is not None and (b"=" not in f or f.endswith(b"=") or b"&" in f or not f):
                        continue
                    tok = bytes([0xB0 + j])
                    opts = "11=%s,11=%s" % (b".well-known".hex(), b"core".hex())
                    if f is not None:
                        opts += ",15=%s" % f.hex()
                    mark = len(sim.log)
                    sim.cmd("send 0 0 type=0 code=1 token=%s opts=%s" % (tok.hex(), opts))
                    sim.run(until=sim.elapsed() + 5000, quiesce=False)
                    rsp = [e for e in sim.log[mark:] if e["e"] == "rsp" and e.get("n") == 0
                           and e["tok"] == tok.hex()]
                    nblocks = sum(1 for e in sim.log[mark:] if e["e"] == "wire" and
                                  e["from"].startswith("10.0.0.2"))
                    stats["gets"] += 1
                    if nblocks > 1:
                        stats["blockwise_gets"] += 1
                    sel = [LF.selects(f, x) for x in table]
                    if None in sel:
                        continue
                    expect = [x for x, s_ in zip(table, sel) if s_]
                    fk = "none" if f is None else f.split(b"=")[0].decode("latin1")
                    cov.add((fk, len(table), nblocks > 1, mtu))
                    if not rsp:
                        run.violation("get/no-response/%s" % fk, dict(witness, filter=repr(f)),
                                      "GET /.well-known/core%s got no response" %
                                      ("?" + f.decode("latin1") if f else ""))
                        continue
                    e = rsp[-1]
                    stats["get_judged"] += 1
                    if not expect and e["code"] in (0x84, 0x45) and not e.get("phex"):
                        continue             # nothing selected: 4.04 or an empty 2.05 are both fine
                    body = bytes.fromhex(e.get("phex") or "")
                    if e["code"] != 0x45:
                        run.violation("get/wrong-code/%s" % fk, dict(witness, filter=repr(f)),
                                      "GET /.well-known/core answered %d.%02d, %d links expected" %
                                      (e["code"] >> 5, e["code"] & 31, len(expect)))
                        continue
                    ok, why = LF.match_listing(body, expect)
                    if not ok:
                        run.violation("get/listing-differs/%s/%s" % (
                            fk, "blockwise" if nblocks > 1 else "single"),
                            dict(witness, filter=repr(f), body=body.decode("latin1")),
                            "filter %r, %d datagrams\nexpected links (any order): %r\nbody: %r" %
                            (f, nblocks, [next(x.link_variants()) for x in expect], body))
            evs, rc, err = w.close()
            if rc not in (0, None):
                sg = common.sanitizer_signature(err) or "exit-rc%s" % rc
                run.violation("get/teardown/%s" % sg, dict(witness, stderr=err[-3000:]),
                              err[-1500:])
        except world.WorldCrash as e:
            world.crash_violation(run, "get", e, witness)
        finally:
            if not w.closed:
                w.close(kill=True)
    return stats, cov, run.export()


def main(tier):
    run = common.Run("C20", tier, "exploration")
    run.rule = ("resource tables of 0..12 resources (paths of 0..3 segments, attributes with "
                "quoted / unquoted / empty / absent values, multi-token rt/if/rel, observable "
                "and OSCORE-only flags) x filters (none, href exact/prefix/leading slash, rt/if/"
                "rel token, other attribute, unknown attribute); for every table/filter pair "
                "every (offset, buflen) window up to listing length + 2 on exact-size heap "
                "buffers (larger listings: the diagonal family of buffer sizes); "
                "the same tables served by a server node and fetched by a client node with GET "
                "/.well-known/core[?filter], path MTU 64..200 (Block2) or default; "
                "distinct_nontrivial = distinct (filter kind, table size, listing-length "
                "bucket, window mode)")
    run.assumptions = ["vf/refs/linkformat.py; attribute order inside a link and resource order "
                       "are unspecified and not judged", "filters without '=', with empty "
                       "pattern or inner '*' are executed (windows checked) but the selected set "
                       "is not judged", "the window oracle lives in harness/pure_wk.c"]
    exe = build.ensure_harness("asan", "pure", ["pure.c", "pure_uri.c", "pure_wk.c"])
    if tier == "quick":
        jobs = [(i, 10, 10, 160, exe) for i in range(16)]
    else:
        jobs = [(i, 40, 10, 420, exe) for i in range(80)]
    windows = judged = 0
    for n, cov, vios, crashes, w, j, sample in common.parallel_map(work, jobs):
        run.evaluations += n
        run.nontrivial |= cov
        windows += w
        judged += j
        for tail, wit, text in vios:
            run.violation(tail, wit, text)
        for sig, wit in crashes:
            run.violation("sanitizer/" + sig, wit, wit.get("stderr", "")[-1200:])
        if sample:
            run.sample(sample)
    # the listing as a client sees it: GET (plain and Block2) through two nodes
    wexe = build.ensure_world("asan")
    gjobs = [(i, 12 if tier == "quick" else 40, wexe) for i in range(16 if tier == "quick" else 64)]
    gtot = {}
    for st, cov, vios in common.parallel_map(get_work, gjobs):
        for k, v in st.items():
            gtot[k] = gtot.get(k, 0) + v
        run.nontrivial |= cov
        run.merge(vios)
    run.evaluations += gtot.get("gets", 0)
    run.extra.update(gtot)
    run.require("get_judged", gtot.get("get_judged", 0), 100)
    run.require("blockwise_gets", gtot.get("blockwise_gets", 0), 40)
    run.extra["windows_checked"] = windows
    run.extra["listings_judged_against_reference"] = judged
    run.exhaustive = False
    run.require("windows_checked", windows, 100000)
    run.require("listings_judged", judged, 100)
    return run.finish()
