"""C16 - URI text and CoAP options convert both ways without loss, confusion
or overread.  Real URI functions on exact-size heap copies (ASan+UBSan) against
the constructive reference in vf/refs/uri.py; collision search for the
reconstructed path / query strings."""
from .. import build, common, gen
from ..refs import uri as U

SPECIAL = b"/%&?#.=+ ;:@!$'()*,~-_\x00\x7f\xff\x80"
ALNUM = b"abcXYZ019"


def raw_segment(r, maxlen=12):
    x = r.random()
    n = 0 if x < 0.08 else r.randint(1, maxlen) if x < 0.97 else r.choice([12, 13, 14, 254, 255])
    out = bytearray()
    for _ in range(n):
        y = r.random()
        if y < 0.5:
            out.append(r.choice(ALNUM))
        elif y < 0.85:
            out.append(r.choice(SPECIAL))
        else:
            out.append(r.getrandbits(8))
    return bytes(out)


DOTS = [b".", b"..", b"%2e", b"%2E", b"%2e%2e", b".%2E", b"%2E.", b"%2e%2E"]


def gen_path(r):
    """returns (encoded path text, tags)"""
    tags = set()
    n = r.choice([0, 1, 1, 2, 2, 3, 4, 6])
    parts = []
    depth = 0
    for i in range(n):
        x = r.random()
        if x < 0.18:
            d = r.choice(DOTS)
            parts.append(d)
            norm = d.replace(b"%2e", b".").replace(b"%2E", b".")
            if b"%" in d:
                tags.add("pct-dot")
            if norm == b"..":
                if depth == 0:
                    tags.add("excess-dotdot")
                depth = max(0, depth - 1)
            if i == n - 1:
                tags.add("trailing-dot")
        else:
            raw = raw_segment(r)
            if raw in (b".", b".."):
                raw = b"x"
            if raw == b"":
                tags.add("empty-seg")
            enc = U.encode_segment(raw, r, U.PCHAR)
            if enc in (b".", b".."):
                enc = U.encode_segment(raw, None, U.PCHAR, force=True)
            parts.append(enc)
            depth += 1
    return b"/".join(parts), tags


def gen_query(r):
    n = r.choice([1, 1, 2, 3, 5])
    items = []
    for _ in range(n):
        raw = raw_segment(r)
        items.append(U.encode_segment(raw, r, U.QCHAR - set(b"&")))
    return b"&".join(items)


HOSTS = [b"example.com", b"EXAMPLE.Com", b"a", b"host-1.local", b"10.0.0.1", b"127.0.0.1",
         b"x%41y", b"h%2dz", b"1.2.3.4.5", b"xn--bcher-kva.example"]
HOSTS6 = [b"::1", b"2001:db8::1", b"fe80::1", b"::ffff:10.0.0.1"]
PORTS = [None, None, None, b"", b"0", b"1", b"80", b"443", b"5683", b"5684", b"65535", b"61616"]


def gen_uri(r):
    scheme = r.choice(U.SCHEMES)
    tags = set()
    ipv6 = r.random() < 0.2
    host = r.choice(HOSTS6) if ipv6 else r.choice(HOSTS)
    port = r.choice(PORTS)
    if r.random() < 0.1:
        port = str(r.randint(0, 65535)).encode()
    x = r.random()
    if x < 0.12:
        path = None
    else:
        path, t = gen_path(r)
        tags |= t
    query = gen_query(r) if r.random() < 0.45 else (b"" if r.random() < 0.05 else None)
    if path is None and query is not None:
        tags.add("query-without-slash")
    return scheme, host, port, path, query, ipv6, tags


def peak_need(text, isq):
    """largest buffer use while splitting: segments are written before a later
    '..' takes them back, so the transient need can exceed the final one"""
    if isq:
        return sum(optsize(len(U.pct_decode(x))) for x in text.split(b"&"))
    cur = []
    peak = 0
    for seg in text.split(b"/"):
        norm = seg.replace(b"%2e", b".").replace(b"%2E", b".")
        if norm == b".":
            continue
        if norm == b"..":
            if cur:
                cur.pop()
            continue
        cur.append(optsize(len(U.pct_decode(seg))))
        peak = max(peak, sum(cur))
    return peak


def optsize(n):
    return 1 + (0 if n < 13 else 1 if n < 269 else 2) + n


def tagstr(tags):
    return "+".join(sorted(tags)) or "plain"


# ------------------------------------------------------------------ cases

def make_cases(r, n):
    """list of (line, judge-function-args)"""
    cases = []
    for _ in range(n):
        x = r.random()
        if x < 0.22:
            scheme, host, port, path, query, ipv6, tags = gen_uri(r)
            u = U.compose(scheme, host, port, path, query, ipv6)
            proxy = r.random() < 0.3
            exp = U.expected_split(scheme, host, port, path, query)
            if not proxy and scheme in U.PROXY_ONLY:
                exp = None
            cases.append(("U %s %s" % ("splitproxy" if proxy else "split", common.hx(u)),
                          ("split", u, exp, tags)))
        elif x < 0.30:
            kind, u = malformed_uri(r)
            cases.append(("U split %s" % common.hx(u), ("malformed", u, kind)))
        elif x < 0.40:
            # corruptions / dangling escapes: memory safety only
            scheme, host, port, path, query, ipv6, tags = gen_uri(r)
            u = bytearray(U.compose(scheme, host, port, path, query, ipv6))
            y = r.random()
            if y < 0.4:
                u[r.randrange(len(u))] = r.choice(b"%[]:/?#@\x00\xff") if r.random() < 0.7 else r.getrandbits(8)
            elif y < 0.7:
                u += r.choice([b"%", b"%4", b"%f", b"/%", b"?%", b"&%4", b"%zz", b"/%2"])
            else:
                del u[r.randrange(len(u)):]
            if not u:
                u = bytearray(b"c")
            fn = r.choice(["split", "splitproxy", "newuri", "uriopt 1 127.0.0.1"])
            cases.append(("U %s %s" % (fn, common.hx(bytes(u))), ("safety", bytes(u))))
        elif x < 0.55:
            scheme, host, port, path, query, ipv6, tags = gen_uri(r)
            if scheme in U.PROXY_ONLY:
                scheme = "coap"
            u = U.compose(scheme, host, port, path, query, ipv6)
            dst = r.choice(["127.0.0.1", "10.0.0.1", "::1", "2001:db8::1"])
            create = 1 if r.random() < 0.85 else 0
            cases.append(("U uriopt %d %s %s" % (create, dst, common.hx(u)),
                          ("uriopt", u, (scheme, host, port, path, query, ipv6), dst, create,
                           tags)))
        elif x < 0.72:
            path, tags = gen_path(r)
            isq = r.random() < 0.35
            text = gen_query(r) if isq else path
            if r.random() < 0.08:
                text += r.choice([b"%", b"%4", b"%zz", b"/%", b"%%2e"])
            try:
                exp = U.query_to_items(text) if isq else U.path_to_segments(text)
                if isq:
                    exp = [[U.pct_decode(x_) for x_ in text.split(b"&")]]
            except ValueError:
                exp = None
            need = peak_need(text, isq) if exp else 0
            y = r.random()
            if exp is None:
                buflen = r.choice([0, 1, 8, 64, 600])
            elif y < 0.4:
                buflen = need
            elif y < 0.6:
                buflen = need + r.choice([1, 2, 50])
            else:
                buflen = r.randint(0, max(0, need))
            if r.random() < 0.5:
                cases.append(("U %s %d %s" % ("query" if isq else "path", buflen, common.hx(text)),
                              ("splitbuf", isq, text, exp, buflen, need, tags)))
            else:
                cases.append(("U %s %s" % ("queryopt" if isq else "pathopt", common.hx(text)),
                              ("splitopt", isq, text, exp, tags)))
        elif x < 0.76:
            scheme, host, port, path, query, ipv6, tags = gen_uri(r)
            u = U.compose(scheme, host, port, path, query, ipv6)
            exp = U.expected_split(scheme, host, port, path, query)
            if scheme in U.PROXY_ONLY:
                exp = None
            cases.append(("U newuri %s" % common.hx(u), ("newuri", u, exp, tags)))
        else:
            isq = r.random() < 0.4
            segs = seg_list(r, isq)
            name = "getquery" if isq else "getpath"
            cases.append(("U %s %s" % (name, ",".join(common.hx(s) for s in segs) or "none"),
                          ("reverse", isq, segs)))
    return cases


def seg_list(r, isq):
    """segment lists built to collide if escaping is incomplete: lists that
    differ only by splitting/merging at separator characters"""
    n = r.choice([0, 1, 1, 2, 2, 3, 4])
    segs = []
    for _ in range(n):
        x = r.random()
        if x < 0.35:
            a, b = r.choice([b"a", b"b", b"", b"ab"]), r.choice([b"a", b"b", b"", b"c"])
            sep = r.choice([b"/", b"&", b"%", b"%2F", b"%26", b"?", b"#", b"=", b"%25", b" "])
            if r.random() < 0.5:
                segs.append(a + sep + b)
            else:
                segs.extend([a, b])
        else:
            s = raw_segment(r, 6)
            segs.append(s)
    out = []
    for s in segs:
        if not isq and s in (b".", b".."):
            s = b"x"                      # RFC 7252 5.10.1: not valid Uri-Path values
        out.append(s[:255])
    # Empty Uri-Query items: libcoap's parser refuses them on the wire, but coap_get_query() is
    # public API and takes any PDU (a client's own request), and the quantifier names empty
    # segments - so they are in, in every position
    if isq and r.random() < 0.25:
        for _ in range(r.choice([1, 1, 2])):
            out.insert(r.choice([0, 0, len(out), r.randint(0, len(out))]), b"")
    return out


def malformed_uri(r):
    k = r.choice(["no-scheme-terminator", "unknown-scheme", "empty-host", "unterminated-bracket",
                  "empty-brackets", "port>65535", "junk-after-port", "huge-port"])
    if k == "no-scheme-terminator":
        u = r.choice([b"coap:/host/x", b"coap//host", b"coaphost/x", b"coap:", b"c", b"coap:/"])
    elif k == "unknown-scheme":
        u = r.choice([b"coapx://h/x", b"ftp://h/", b"coa://h", b"coap+udp://h/", b"://h/x",
                      b"coaps+tc://h/"])
    elif k == "empty-host":
        u = r.choice([b"coap:///x", b"coap://", b"coap://:5683/x", b"coaps://?a=b", b"coap:///"])
    elif k == "unterminated-bracket":
        u = r.choice([b"coap://[::1/x", b"coap://[::1", b"coap://[2001:db8::1:5683/x"])
    elif k == "empty-brackets":
        u = r.choice([b"coap://[]/x", b"coap://[]:5683/", b"coap://[]"])
    elif k == "port>65535":
        u = b"coap://h:" + str(r.choice([65536, 65537, 70000, 99999, 100000])).encode() + b"/x"
    elif k == "huge-port":
        u = b"coap://h:" + r.choice([b"99999999999", b"4294967296", b"18446744073709551616",
                                     b"4295032831", b"00000000000000000065536"]) + b"/x"
    else:
        u = r.choice([b"coap://h:12ab/x", b"coap://h:5683x", b"coap://h:-1/x", b"coap://h: 80/",
                      b"coap://[::1]x/y", b"coap://[::1]5683/"])
    return k, u


# ------------------------------------------------------------------ judging

def _s(x):
    return b"" if x in ("~", "-") else bytes.fromhex(x)


def parse_optlist(s):
    if s == "-":
        return []
    out = []
    for item in s.split(";"):
        k, v = item.split("=")
        out.append((int(k), common.unhx(v)))
    return out


def parse_segs(s):
    if s == "-":
        return []
    return [bytes.fromhex(x[1:]) for x in s.split(";")]


def expected_uriopt(comp, dst, create):
    scheme, host, port, path, query, ipv6 = comp
    res = []
    base = []
    if create:
        unix = host[:3].lower() == b"%2f"
        if not unix:
            if host.decode("latin1") != dst:
                base.append((3, U.pct_decode(host).lower()))
            p = U.DEFAULT_PORT[scheme] if port in (None, b"") else int(port)
            if p != U.DEFAULT_PORT[scheme]:
                base.append((7, p.to_bytes(2, "big").lstrip(b"\0")))
    paths = U.path_to_segments(path) if path else [[]]
    queries = U.query_to_items(query) if query else [[]]
    for ps in paths:
        for qs in queries:
            res.append(base + [(11, s) for s in ps] + [(15, s) for s in qs])
    return res


def judge(info, res):
    """returns list of (signature-tail, text)"""
    kind = info[0]
    if res is None:
        return []
    f = res.split(" ")
    if kind == "split" or kind == "newuri":
        _, u, exp, tags = info
        if kind == "newuri":
            if f[0] == "null":
                got = None
            else:
                got = (int(f[1]), _s(f[2]), int(f[3]), _s(f[4]), _s(f[5]))
                clone = (_s(f[7]), int(f[8]), _s(f[9]), _s(f[10])) if f[7] != "null" else None
                if clone is not None and clone != (got[1], got[2], got[3], got[4]):
                    return [("clone_uri/differs", "uri %r: new %r clone %r" % (u, got, clone))]
        else:
            got = None if int(f[0]) < 0 else (int(f[1]), _s(f[2]), int(f[3]), _s(f[4]), _s(f[5]))
        fn = "split_uri" if kind == "split" else "new_uri"
        if exp is None:
            if got is not None:
                return [("%s/accepts-proxy-only-scheme" % fn, "uri %r accepted: %r" % (u, got))]
            return []
        if got is None:
            return [("%s/rejects-wellformed/%s" % (fn, tagstr(tags & {"query-without-slash"})),
                     "well-formed URI %r rejected" % u)]
        if got != exp:
            diff = [n for n, a, b in zip(("scheme", "host", "port", "path", "query"), got, exp)
                    if a != b]
            return [("%s/components-differ/%s" % (fn, ",".join(diff)),
                     "uri %r\nwant %r\ngot  %r" % (u, exp, got))]
        return []
    if kind == "malformed":
        _, u, k = info
        if int(f[0]) >= 0:
            return [("split_uri/accepts-malformed/%s" % k, "malformed URI %r accepted: %s" % (u, res))]
        return []
    if kind == "safety":
        return []
    if kind == "uriopt":
        _, u, comp, dst, create, tags = info
        if int(f[0]) < 0:
            return [("split_uri/rejects-wellformed/%s" % tagstr(tags & {"query-without-slash"}),
                     "well-formed URI %r rejected" % u)]
        try:
            admissible = expected_uriopt(comp, dst, create)
        except ValueError:
            return []
        got = parse_optlist(f[2])
        # IPv6 literal equal to dst in another spelling: not judged
        if got not in admissible:
            # [""] == []
            norm = [o for o in got if not (o == (11, b""))]
            if any(norm == [o for o in a if o != (11, b"")] for a in admissible) and \
                    len(got) - len(norm) <= 1 and "empty-seg" not in tags:
                return []
            if int(f[1]) == 0:
                return [("uri_into_optlist/fails/%s" % tagstr(tags), "uri %r: returned 0" % u)]
            return [("uri_into_optlist/options-differ/%s" % tagstr(tags - {"pct-dot", "empty-seg"}),
                     "uri %r dst %s create %d\nwant %r\ngot  %r" % (u, dst, create,
                                                                     admissible[0], got))]
        return []
    if kind == "splitbuf":
        _, isq, text, exp, buflen, need, tags = info
        fn = "split_query" if isq else "split_path"
        n, used = int(f[0]), int(f[1])
        if f[2] in ("OVER",) or used > buflen:
            return [("%s/reports-more-than-buffer" % fn, "%r buflen %d -> used %d" % (text, buflen, used))]
        if exp is None:
            return []
        if "BAD" in f[2]:
            return [("%s/unparsable-output" % fn, "%r -> %s" % (text, res))]
        got = parse_segs(f[2])
        if buflen >= need:
            ok = any(got == e for e in exp) or (got == [b""] and [] in exp) or \
                (got == [] and [b""] in exp)
            if not ok:
                return [("%s/segments-differ/%s" % (fn, tagstr(tags - {"empty-seg"})),
                         "%r\nwant %r\ngot  %r" % (text, exp[0], got))]
            if n != len(got):
                return [("%s/count-differs" % fn, "%r n=%d segs=%r" % (text, n, got))]
        return []
    if kind == "splitopt":
        _, isq, text, exp, tags = info
        fn = "query_into_optlist" if isq else "path_into_optlist"
        if exp is None:
            return []
        got = [v for _, v in parse_optlist(f[1])]
        ok = any(got == e for e in exp) or (got == [b""] and [] in exp) or \
            (got == [] and [b""] in exp)
        if not ok:
            return [("%s/segments-differ/%s" % (fn, tagstr(tags - {"empty-seg"})),
                     "%r\nwant %r\ngot  %r" % (text, exp[0], got))]
        return []
    if kind == "reverse":
        _, isq, segs = info
        fn = "get_query" if isq else "get_uri_path"
        if f[0] in ("nopdu",):
            return []
        if f[0] == "null":
            if segs and any(segs):
                return [("%s/null-for-nonempty" % fn, "%r -> NULL" % (segs,))]
            return []
        back = parse_segs(f[2])
        canon = [] if segs == [b""] else segs
        bcanon = [] if back == [b""] else back
        if bcanon != canon:
            why = "amp" if any(b"&" in s for s in segs) and isq else "other"
            return [("%s/does-not-feed-back/%s" % (fn, why),
                     "segments %r -> %r -> %r" % (segs, _s(f[0]), back))]
        return []
    return []


def work(job):
    idx, n, exe = job
    r = common.rng("c16-%d" % idx)
    cases = make_cases(r, n)
    lines = [c[0] for c in cases]
    results, crashes = common.run_batch(exe, lines)
    vios = []
    cov = set()
    strings = {}
    judged = 0
    for (line, info), res in zip(cases, results):
        kind = info[0]
        tags = ()
        if kind in ("split", "newuri"):
            tags = tuple(sorted(info[3]))
        cov.add((kind, tags, res.split(" ")[0][:3] if res else "crash"))
        for tail, text in judge(info, res):
            vios.append((tail, {"case": line[:3000]}, text))
        if kind not in ("safety",):
            judged += 1
        if kind == "reverse" and res and res.split(" ")[0] not in ("null", "nopdu"):
            segs = info[2]
            canon = tuple([] if segs == [b""] else segs)
            strings.setdefault((info[1], res.split(" ")[0]), set()).add(canon)
    crash_out = []
    for cr in crashes:
        if cr.index == -2:
            continue
        sig = common.sanitizer_signature(cr.stderr) or ("abort-rc%d" % cr.rc)
        w = {"stderr": cr.stderr[-3000:]}
        if cr.index >= 0:
            w["case"] = lines[cr.index][:3000]
        crash_out.append((sig, w))
    sample = {"case": lines[0][:200], "result": (results[0] or "")[:200]}
    return len(cases), cov, vios, crash_out, strings, judged, sample


def main(tier):
    run = common.Run("C16", tier, "exploration")
    run.rule = ("grammar-composed URIs (8 schemes, reg-name/IPv4/IPv6 hosts, ports, paths over "
                "the full byte alphabet with literal and %2e dot segments, queries), listed "
                "malformed classes, one-character corruptions and dangling escapes (memory "
                "safety only), exact-size output buffers 0..needed+2, and segment lists built to "
                "collide; outputs compared with vf/refs/uri.py; collision search over all "
                "reconstructed strings; distinct_nontrivial = distinct (function, feature tags, "
                "result class)")
    run.assumptions = ["vf/refs/uri.py models RFC 3986 s3 + RFC 7252 s6.4/6.5",
                       "invalid percent escapes: only memory safety is judged",
                       "whether a final dot segment leaves a trailing empty segment, [''] vs [], "
                       "'#' fragments, upper-case schemes and IPv6 re-spellings are not judged"]
    exe = build.ensure_harness("asan", "pure", ["pure.c", "pure_uri.c", "pure_wk.c"])
    total, per = (120000, 4000) if tier == "quick" else (4000000, 20000)
    jobs = [(i, per, exe) for i in range(total // per)]
    allstrings = {}
    judged = 0
    for n, cov, vios, crashes, strings, j, sample in common.parallel_map(work, jobs):
        run.evaluations += n
        run.nontrivial |= cov
        judged += j
        for tail, w, text in vios:
            run.violation(tail, w, text)
        for sig, w in crashes:
            run.violation("sanitizer/" + sig, w, w.get("stderr", "")[-1200:])
        for k, v in strings.items():
            allstrings.setdefault(k, set()).update(v)
        run.sample(sample)
    # injectivity: equal reconstructed strings => equal segment lists
    ncoll = 0
    for (isq, s), lists in allstrings.items():
        if len(lists) > 1:
            ncoll += 1
            a, b = sorted(lists)[:2]
            fn = "get_query" if isq else "get_uri_path"
            why = "amp" if isq and any(b"&" in x for l in (a, b) for x in l) else "other"
            run.violation("%s/not-injective/%s" % (fn, why),
                          {"string": s, "lists": [[x.hex() for x in a], [x.hex() for x in b]]},
                          "different lists %r and %r both reconstruct to %r" %
                          (list(a), list(b), common.unhx(s)))
    run.extra["distinct_reconstructed_strings"] = len(allstrings)
    run.extra["collisions"] = ncoll
    run.extra["judged_cases"] = judged
    run.require("judged_cases", judged, 10000)
    run.require("distinct_reconstructed_strings", len(allstrings), 1000)
    return run.finish()
