"""C13 - advertised thread safety.  harness/thr.c stresses two contexts over real
loopback sockets with 2..8 application threads, one I/O thread per context and
every callback type re-entering the API, built against thread-safe library
variants under ThreadSanitizer (and once with the library's own assertions).
Oracles: no ThreadSanitizer report (one justified suppression), every worker
finishes (watchdog on progress counters), every tracked CON request answered or
NACKed."""
import json
import os
import re
import shutil
import subprocess
import tempfile
from .. import build, common

SUPP = "race:^coap_lock_lock_func$\n"

FRAME = re.compile(r"^\s+#(\d+) (\S+) (\S+)")


def parse_reports(text):
    """-> list of (kind, [stack, ...]) with stack = list of function names"""
    out = []
    cur = None
    stack = None
    for line in text.splitlines():
        m = re.match(r"^WARNING: ThreadSanitizer: (.+?) \(pid=", line) or \
            re.match(r"^==\d+==ERROR: ThreadSanitizer: (\S+)", line)
        if m:
            cur = {"kind": m.group(1).replace(" ", "-"), "stacks": [], "text": []}
            out.append(cur)
            stack = None
        if cur is None:
            continue
        cur["text"].append(line)
        if line.startswith("SUMMARY:"):
            cur = None
            continue
        f = FRAME.match(line)
        if f:
            if f.group(1) == "0" or stack is None:
                stack = []
                cur["stacks"].append(stack)
            stack.append(f.group(2))
        elif not line.strip():
            stack = None
    return out


def libframes(stack, n=2):
    skip = ("free", "malloc", "calloc", "realloc", "memcpy", "memset", "memmove", "memcmp", "strlen",
            "pthread_", "__tsan", "__interceptor", "operator", "close", "read", "write", "epoll_")
    fr = [f for f in stack if not f.startswith(skip) and not f.startswith("__wrap_")]
    return fr[:n]


IO_FRAME = "coap_io_process_with_fds_lkd"
KNOWN_CLASSES = ("both-threads-processing-io-of-one-context",
                 "io-loop-uses-session-freed-by-another-thread")


def signature(rep, variant=""):
    """kind + the top library frames of the first two stacks (the two accesses), order-free.
    Two classes are named by their cause instead of by the colliding lines:
    - both threads were inside the I/O processing of a context (coap_io_process,
      coap_io_pending, or coap_new_pdu waiting for a CSM): whatever they collide on, the
      root is that I/O processing of one context is not serialised across handler calls;
    - the I/O loop touches a session that another thread's coap_session_release() freed
      while the loop had the lock released (around select/epoll_wait or a handler)."""
    two = rep["stacks"][:2]
    if len(two) == 2 and all(IO_FRAME in st for st in two):
        return "both-threads-processing-io-of-one-context"
    if (rep["kind"] == "heap-use-after-free" and len(two) == 2 and IO_FRAME in two[0]
            and "coap_session_free" in two[1]):
        return "io-loop-uses-session-freed-by-another-thread/%s" % (
            "select" if variant.endswith("-sel") else "epoll")
    tops = []
    for st in rep["stacks"][:2]:
        fr = libframes(st, 2)
        tops.append("<".join(fr) if fr else "?")
    if rep["kind"] in ("data-race",):
        tops.sort()
    return "%s/%s" % (rep["kind"], "~".join(tops))


def entry_points(rep):
    out = []
    for st in rep["stacks"][:2]:
        api = [f for f in st if f.startswith("coap_") and not f.endswith("_lkd")]
        out.append(api[-1] if api else "?")
    return out


def one_run(exe, workers, ops, seed, stall, tag, dual=0):
    d = tempfile.mkdtemp(prefix="vf-c13-")
    try:
        supp = os.path.join(d, "supp")
        with open(supp, "w") as f:
            f.write(SUPP)
        env = dict(os.environ)
        env["TSAN_OPTIONS"] = ("halt_on_error=0 log_path=%s/tsan suppressions=%s history_size=4 "
                               "second_deadlock_stack=1 exitcode=66" % (d, supp))
        env["VF_STACKS"] = os.path.join(d, "stacks")
        try:
            p = subprocess.run([exe, str(workers), str(ops), str(seed), str(stall), str(dual)],
                               env=env,
                               stdout=subprocess.PIPE, stderr=subprocess.PIPE, timeout=420)
            rc, out, err = p.returncode, p.stdout.decode("latin1"), p.stderr.decode("latin1")
        except subprocess.TimeoutExpired as e:
            rc, out, err = None, (e.stdout or b"").decode("latin1"), "WALL-CLOCK-TIMEOUT"
        logs = ""
        for fn in sorted(os.listdir(d)):
            if fn.startswith("tsan"):
                with open(os.path.join(d, fn), errors="replace") as f:
                    logs += f.read()
        stacks = ""
        if os.path.exists(env["VF_STACKS"]):
            with open(env["VF_STACKS"], errors="replace") as f:
                stacks = f.read()
        info = None
        for line in out.splitlines():
            if line.startswith("{"):
                try:
                    info = json.loads(line)
                except ValueError:
                    pass
        return {"rc": rc, "info": info, "reports": parse_reports(logs + "\n" + err), "stderr": err[-3000:],
                "stacks": stacks[-12000:], "tag": tag,
                "argv": [os.path.basename(exe), workers, ops, seed, stall, dual]}
    finally:
        shutil.rmtree(d, ignore_errors=True)


def work(job):
    variant, exe, workers, ops, seed, stall, dual = job
    return variant, one_run(exe, workers, ops, seed, stall, variant, dual)


def judge(run, variant, res, stats, rerun):
    wit = {"variant": variant, "argv": res["argv"], "info": res["info"]}
    info = res["info"]
    stats["runs"] += 1
    if res["rc"] is None:
        stats["inconclusive"] += 1
        return
    if res["rc"] == 5 and not res["reports"]:
        # the stress program could not set itself up (ports): says nothing about the library
        stats["inconclusive"] += 1
        stats["setup_failures"] = stats.get("setup_failures", 0) + 1
        return
    if info:
        for k in ("request_handler", "response_handler", "nack_handler", "event_handler",
                  "ping_handler", "pong_handler", "release_handler", "reentry_calls",
                  "lock_acquisitions",
                  "lock_handovers", "tracked_con", "notifications", "failed_context_calls",
                  "signals_to_io_threads"):
            stats[k] = stats.get(k, 0) + info.get(k, 0)
        stats["pairs"] |= set(info.get("pairs", []))
        if info.get("supported") == 0:
            stats["unsupported"] += 1
            return
    seen = set()
    dual_class = False
    sigs = [(signature(rep, variant), rep) for rep in res["reports"]]
    # once one of the two cause-named collisions happened, what else the run shows (other
    # reports on the freed memory, a lost response, a crash) is its consequence
    if any(any(c in sg for c in KNOWN_CLASSES) for sg, _ in sigs):
        dual_class = True
        sigs = [(sg, rep) for sg, rep in sigs if any(c in sg for c in KNOWN_CLASSES)]
    for sig, rep in sigs:
        if sig in seen:
            continue
        seen.add(sig)
        stats["reports"] += 1
        run.violation("tsan/%s" % sig, dict(wit, entry_points=entry_points(rep),
                                            report="\n".join(rep["text"][:70])),
                      "\n".join(rep["text"][:45]))
    if dual_class:
        # what follows such a collision (lost response, crash) is its consequence
        stats["runs_with_named_collision"] += 1
        return
    if info and info.get("deadlock"):
        if variant in stats["deadlocked_variants"]:
            return
        # confirm once: a loaded machine must not be mistaken for a deadlock
        again = rerun()
        if again["info"] and again["info"].get("deadlock"):
            stuck = sorted(set(info.get("stuck", [])) - {"done"})
            stats["deadlocked_variants"].add(variant)
            run.violation("deadlock/%s" % variant,
                          dict(wit, stacks=res["stacks"], again=again["info"]),
                          "no worker made progress for the stall period, twice; workers were in "
                          "%r\n%s" % (info.get("stuck"), res["stacks"][-3000:]))
        else:
            stats["inconclusive"] += 1
        return
    if res["argv"][-1] and res["rc"] not in (0, 66):
        # a dual-io run: a lost response or a crash without a ThreadSanitizer report is the
        # same collision seen from outside (two threads reading one TCP session's stream)
        run.violation("tsan/both-threads-processing-io-of-one-context",
                      dict(wit, stderr=res["stderr"][-1500:]),
                      "dual-io run ended with rc %s (%s)" % (res["rc"], info and
                                                             info.get("unanswered_list")))
        return
    if res["rc"] == 4 and info:
        run.violation("unanswered-requests/%s" % variant, wit,
                      "%d of %d tracked CON requests got neither a response nor a NACK"
                      % (info["unanswered"], info["tracked_con"]))
    elif res["rc"] not in (0, 66, 4):
        if any(r["kind"] in ("SEGV", "heap-use-after-free") for r in res["reports"]):
            return       # already reported above
        run.violation("abnormal-exit/%s/rc%s" % (variant, res["rc"]),
                      dict(wit, stderr=res["stderr"]), res["stderr"][-1500:])


def main(tier):
    run = common.Run("C13", tier, "exploration")
    run.rule = ("thr.c: server + client context over loopback UDP and TCP, one thread per context in "
                "coap_io_process(), 2..8 workers issuing send (CON/NON, own and shared sessions, TCP, "
                "to a dead port), notify, observe register/cancel, session create+reference+release, "
                "resource add+delete, async, ping, state queries, a second context that cannot bind; a "
                "signal every 1.5 ms to the I/O threads (EINTR in epoll_wait/select); request/response/NACK/event/ping/"
                "pong handlers re-enter the API (notify, cache, async, send, can_exit, io_pending). "
                "Variants: repository CMake defaults (epoll) and select(), recursive-lock-check, "
                "the autotools build (./configure --enable-thread-safe on a copy of the tree; "
                "thorough tier), all under gcc ThreadSanitizer; assertions-on build without "
                "sanitizer. Lock acquisitions, "
                "owner hand-overs and distinct (previous owner's operation > next owner's operation) "
                "pairs are recorded through a link-time wrap of coap_lock_lock_func")
    run.assumptions = ["suppression race:^coap_lock_lock_func$ (the lock's own unlocked pre-check of "
                       "pid/in_callback, see DESIGN.md)",
                       "the application keeps a session alive while it uses it; only the library's "
                       "internal accesses are judged",
                       "TSan sees executed interleavings only"]
    variants = ["tsan", "tsan-sel"] if tier == "quick" else ["tsan", "tsan-sel", "tsan-rc", "tsan-at",
                                                             "lockchk"]
    small = ("tsan-sel",)      # select() I/O loop: known finding, reproduced by one small run
    exes = {}
    for v in variants:
        exes[v] = build.ensure_thr(v)
    base = common.seed() * 1000
    jobs = []
    stall = 20 if tier == "quick" else 30
    if tier == "quick":
        plan = [(2, 600), (4, 500), (8, 300)]
        reps = 3
    else:
        plan = [(2, 1500), (3, 1200), (4, 1000), (6, 800), (8, 600)]
        reps = 8
    for v in variants:
        if v in small:
            jobs.append((v, exes[v], 4, 200, base + len(jobs), stall, 0))
            continue
        for i in range(reps):
            for w, ops in plan:
                jobs.append((v, exes[v], w, ops, base + len(jobs), stall, 0))
        # I/O of one context processed by two threads at once (coap_io_pending from workers)
        for i in range(2 if tier == "quick" else 6):
            jobs.append((v, exes[v], 3, 200, base + len(jobs), stall, 1))
    stats = dict(runs=0, reports=0, inconclusive=0, unsupported=0, runs_with_named_collision=0, pairs=set(),
                 deadlocked_variants=set())
    # the stress is timing sensitive: at most 4 at a time on 16 cores
    for variant, res in common.parallel_map(work, jobs, workers=4):
        job = [j for j in jobs if j[0] == variant and list(j[2:5]) == res["argv"][1:4]][0]
        judge(run, variant, res, stats,
              lambda job=job: one_run(job[1], job[2], job[3], job[4], job[5], variant, job[6]))
    pairs = stats.pop("pairs")
    stats["deadlocked_variants"] = sorted(stats["deadlocked_variants"])
    run.evaluations = stats["runs"]
    run.extra.update(stats)
    run.extra["distinct_handover_pairs"] = len(pairs)
    run.nontrivial |= pairs
    run.sample({"argv": ["vf_thr", 4, 200, base, 25], "variant": "tsan"})
    if stats["inconclusive"] * 4 > stats["runs"]:
        raise common.Inconclusive("%d of %d stress runs were inconclusive" %
                                  (stats["inconclusive"], stats["runs"]))
    if stats["unsupported"] == stats["runs"]:
        run.extra["vacuous"] = "coap_threadsafe_is_supported() == 0 in every variant"
    else:
        run.require("lock_handovers", stats.get("lock_handovers", 0), 2000)
        run.require("distinct_handover_pairs", len(pairs), 30)
        run.require("reentry_calls", stats.get("reentry_calls", 0), 200)
        for k in ("request_handler", "response_handler", "nack_handler", "event_handler",
                  "ping_handler", "pong_handler", "release_handler"):
            run.require(k, stats.get(k, 0), 5)
        run.require("failed_context_calls", stats.get("failed_context_calls", 0), 5)
        run.require("signals_to_io_threads", stats.get("signals_to_io_threads", 0), 500)
    return run.finish()
