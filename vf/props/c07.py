"""C07 - each request concludes exactly once despite loss, duplication and
delay.  Client node <-> server node in the closed world; exactly-once counting
per token over the handler / NACK / wire trace."""
import itertools

from .. import build, common, world
from ..refs import coapwire as cw

STYLES = ["piggy", "sepcon", "sepnon", "async", "trigger"]
METHODS = [1, 2, 3, 4, 5]


def setup(exe, seed, style, latency=5, echo=False):
    w = world.World(exe, seed=seed)
    sim = world.Sim(w, latency=latency)
    if echo:
        sim.add_node(0, block_mode=1)
    else:
        sim.add_node(0)
    sim.add_node(1)
    sim.cmd("ep 1 udp 10.0.0.2:5683")
    # "trigger": the server defers with an untimed async entry (delay 0) and answers when its
    # application says so (coap_async_trigger()), here 700 ms after the request was taken
    cfg = {"piggy": "", "sepcon": "sep=40", "sepnon": "sep=40 rtype=1",
           "async": "sep=900", "trigger": "sep=0"}[style]
    if echo:
        # responses that carry an Echo option (RFC 9175); a client that lets libcoap handle
        # block-wise transfers also lets it carry the Echo value into its next request
        cfg += " ropts=252=aabbccdd"
    sim.cmd("res 1 %s body=fixed:%s %s" % (b"r".hex(), b"answer".hex(), cfg))
    sim.cmd("sess 0 0 udp 10.0.0.2:5683")
    if style == "trigger":
        def on_async(sm, ev):
            if ev["e"] == "async" and ev.get("ok"):
                sm.call_at(sm.now + 700, lambda s2: s2.cmd("trigger 1"))
        sim.on_event.append(on_async)
    return w, sim


def run_exchanges(sim, reqs, fail_tokens, reqs1=()):
    """submit the requests one at a time: the next one when the previous has
    concluded (response or NACK seen) - the property's precondition.  reqs1: the same on a
    second session of the client context (one exchange outstanding per session; the two
    sessions share the context's send queue)"""
    for t in fail_tokens:
        sim.cmd("verdict 0 %s" % t.hex())
    refused = _drive(sim, 0, reqs, final=not reqs1)
    if reqs1:
        refused |= _drive(sim, 1, list(reqs1), final=True)
    return refused


def _drive(sim, sid, reqs, final=True):
    state = {"i": 0, "concluded": set(), "refused": set()}
    mine = set(t.hex() for _, _, t in reqs)

    def submit(sm):
        i = state["i"]
        if i >= len(reqs):
            return
        typ, code, tok = reqs[i]
        state["i"] += 1
        state["t_submit"] = sm.now
        opts = "11=72" + (",12=" if code in (2, 3, 5) else "")
        evs = sm.cmd("send 0 %d type=%d code=%d token=%s opts=%s%s" %
                     (sid, typ, code, tok.hex(), opts, " payload=7878" if code in (2, 3, 5) else ""))
        if any(e["e"] == "sent" and e.get("mid", 0) < 0 for e in evs):
            # coap_send() refused it (the socket write failed): not a request the application
            # sent; go on with the next one
            state["refused"].add(tok)
            sm.call_at(sm.now + 1, submit)

    def monitor(sm, ev):
        if ev["e"] in ("rsp", "nack") and ev.get("n") == 0:
            tok = ev.get("tok", "")
            if tok and tok in mine and tok not in state["concluded"]:
                state["concluded"].add(tok)
                if state["i"] < len(reqs):
                    sm.call_at(sm.now + 1, submit)

    sim.on_event.append(monitor)
    submit(sim)
    # NON requests have no conclusion event when everything is lost: move on after a while
    def nudge(sm):
        # (idle for this driver: nothing of its own pending for two minutes; with a second
        # driver on the other session the event queue itself is never empty)
        if state["i"] < len(reqs) and (not sm.q or sm.now - state.get("t_submit", 0) >= 119000):
            submit(sm)
        if state["i"] < len(reqs):
            sm.call_at(sm.now + 120000, nudge)
    sim.call_at(sim.now + 120000, nudge)
    if final:
        sim.run(horizon=900000)
    return state["refused"]


def judge(run, sim, reqs, fail_tokens, witness, stats, lossless, refused=()):
    client, server = "10.0.0.1", "10.0.0.2"
    rsp = {}
    nack = {}
    for ev in sim.log:
        if ev.get("n") == 0 and ev["e"] == "rsp":
            rsp.setdefault(ev["tok"], []).append(ev)
        elif ev.get("n") == 0 and ev["e"] == "nack":
            nack.setdefault(ev.get("tok", "?"), []).append(ev)
    # wire view
    rx_client = [e for e in sim.log if e["e"] == "rx" and e["to"].startswith(client)]
    # (a write the socket refused - failsend - is a datagram the node sent and the network lost)
    tx_client = [e for e in sim.log if e["e"] in ("wire", "wirefail") and
                 e["from"].startswith(client)]
    stats["failed_writes"] = stats.get("failed_writes", 0) + sum(
        1 for e in sim.log if e["e"] == "wirefail")
    for typ, code, tokb in reqs:
        tok = tokb.hex()
        if tokb in refused:
            stats["refused_by_api"] = stats.get("refused_by_api", 0) + 1
            continue
        w = dict(witness, token=tok)
        nr, nn = len(rsp.get(tok, [])), len(nack.get(tok, []))
        if typ == 0:
            stats["con_requests"] += 1
            non_rsp_lost = any(
                (e["e"] == "wirefail" or (e["e"] == "wire" and not e.get("plan"))) and
                e["from"].startswith(server) and
                (bytes.fromhex(e["b"])[0] >> 4) & 3 == 1 and tokb in bytes.fromhex(e["b"])
                for e in sim.log)
            srv_gave_up = any(e["e"] == "nack" and e.get("n") == 1 and e.get("tok") == tok
                              for e in sim.log)
            srv_wire_mids = set((bytes.fromhex(e["b"])[2] << 8) | bytes.fromhex(e["b"])[3]
                                for e in sim.log if e["e"] == "wire" and
                                e["from"].startswith(server))
            srv_refused = any(
                e["e"] == "wirefail" and e["from"].startswith(server) and
                bytes.fromhex(e["b"])[1] >= 64 and tokb in bytes.fromhex(e["b"]) and
                ((bytes.fromhex(e["b"])[2] << 8) | bytes.fromhex(e["b"])[3]) not in srv_wire_mids
                for e in sim.log)
            if nr + nn == 0 and srv_refused:
                # the first write of the server's separate response failed: coap_send()
                # returned COAP_INVALID_MID to the server application, which was thereby told
                # that it has not answered; as for the client, the server did not respond
                stats["response_refused_at_server_socket"] = \
                    stats.get("response_refused_at_server_socket", 0) + 1
            elif nr + nn == 0 and srv_gave_up:
                # the network swallowed the separate response and all its retransmissions:
                # the server was told (NACK); nothing can reach the client
                stats["response_abandoned_by_server"] = \
                    stats.get("response_abandoned_by_server", 0) + 1
            elif nr + nn == 0 and non_rsp_lost:
                # a lost separate NON response is outside the statement ("piggybacked or
                # separate Confirmable response")
                stats["lost_non_response"] = stats.get("lost_non_response", 0) + 1
            elif nr + nn == 0:
                run.violation("request-never-concluded", w,
                              "CON request token %s: no response and no NACK by quiescence "
                              "(+horizon)" % tok)
            elif nr and nn:
                nk0 = nack[tok][0]
                late = nk0["reason"] == 0 and all(e["t"] > nk0["t"] for e in rsp[tok])
                # "after give-up" is the recorded finding only when the give-up itself was due:
                # with the default parameters a request is given up 31 x T after its first
                # transmission, T >= ACK_TIMEOUT = 2 s.  A NACK that comes sooner is another
                # matter (a send queue that lost time) and gets a signature of its own
                first_tx = [e["t"] for e in tx_client if tokb in bytes.fromhex(e["b"])]
                early = late and first_tx and nk0["t"] - min(first_tx) < 61000
                run.violation("response-and-nack/" + ("gave-up-before-retransmissions-were-due"
                                                      if early else
                                                      "response-arrived-after-give-up" if late
                                                      else "other"), w,
                              "token %s: %d responses and %d NACKs (NACK reason %d at %d, "
                              "responses at %r)" % (tok, nr, nn, nk0["reason"], nk0["t"],
                                                    [e["t"] for e in rsp[tok]]))
            elif nr > 1 and all(e["type"] == 1 for e in rsp[tok][1:]):
                # further NON responses: "delivered once per datagram received" (judged below)
                stats["extra_non_responses"] = stats.get("extra_non_responses", 0) + 1
            elif nr > 1:
                mids = [e["mid"] for e in rsp[tok]]
                srv_runs = sum(1 for e in sim.log if e["e"] == "req" and e.get("n") == 1
                               and e["tok"] == tok)
                if len(set(mids)) < len(mids):
                    # was a CON response with another message id delivered in between?
                    first_t = rsp[tok][0]["t"]
                    dup = [e for e in rsp[tok][1:] if e["mid"] == mids[0]]
                    second_t = dup[0]["t"] if dup else rsp[tok][1]["t"]
                    between = [e for e in sim.log if e["e"] == "rsp" and e.get("n") == 0 and
                               e["mid"] != mids[0] and first_t <= e["t"] <= second_t]
                    why = ("older-duplicate-after-newer-response" if between
                           else "consecutive-duplicate-redelivered")
                elif srv_runs > 1:
                    why = "server-answered-duplicate-request"
                else:
                    why = "other"
                run.violation("response-delivered-twice/" + why, w,
                              "token %s delivered %d times (mids %r); the server handler ran "
                              "%d times for it" % (tok, nr, mids, srv_runs))
            elif nn > 1:
                run.violation("nack-twice", w, "token %s: %d NACKs" % (tok, nn))
            stats["concluded_by_response"] += 1 if nr else 0
            stats["concluded_by_nack"] += 1 if nn else 0
            # a delivered response stops retransmission of the request
            if nr:
                t_r = rsp[tok][0]["t"]
                req_mids = set()
                for e in tx_client:
                    b = bytes.fromhex(e["b"])
                    if (b[0] >> 4) & 3 == 0 and 0 < b[1] < 32:
                        try:
                            m = cw.decode(b, "udp")
                        except Exception:
                            continue
                        if m["token"] == tokb and e["t"] > t_r:
                            run.violation("request-retransmitted-after-response", w,
                                          "token %s: response at %d, request sent again at %d"
                                          % (tok, t_r, e["t"]))
                            break
        else:
            stats["non_requests"] += 1
            # NON: handler invocations = NON response datagrams delivered
            delivered = 0
            for e in rx_client:
                b = bytes.fromhex(e["b"])
                if len(b) >= 4 and b[1] >= 64:
                    try:
                        m = cw.decode(b, "udp")
                    except Exception:
                        continue
                    if m["token"] == tokb:
                        delivered += 1
            if nr != delivered:
                run.violation("non-response-delivery-count", w,
                              "token %s: %d response datagrams delivered to the client, "
                              "handler ran %d times" % (tok, delivered, nr))
    # while the server application has deferred its answer (async entry pending), a repeated
    # request is acknowledged again by the library and not handed to the handler a second time
    # (a `req` event that follows a delivery with no timer step in between was caused by it)
    sep = {"sepcon": 40, "sepnon": 40, "async": 900, "trigger": None}.get(witness.get("style"))
    if witness.get("style") in ("sepcon", "sepnon", "async", "trigger"):
        cause, pending = "timer", {}
        for ev in sim.log:
            k = ev["e"]
            if k == "rx":
                cause = "deliver"
            elif k in ("timeout", "triggered"):
                cause = "timer"
            elif k == "async" and ev.get("ok") and ev.get("tok") is not None:
                pending[ev["tok"]] = ev["t"]
            elif k == "req" and ev.get("n") == 1 and ev["tok"] in pending:
                if cause == "timer":
                    del pending[ev["tok"]]          # the deferred call: answers now
                elif sep is None or ev["t"] != pending[ev["tok"]] + sep:
                    # the symptom the statement names: the client's handler called twice
                    if len(rsp.get(ev["tok"], [])) > 1:
                        run.violation("response-delivered-twice/repeated-request-handled-while-"
                                      "response-deferred", dict(witness, token=ev["tok"]),
                                      "token %s: the server application deferred its answer at "
                                      "%d; a repeated request delivered at %d was handed to it "
                                      "again, and the client's handler ran %d times" %
                                      (ev["tok"], pending[ev["tok"]], ev["t"],
                                       len(rsp[ev["tok"]])))
                    del pending[ev["tok"]]
        stats["deferred_exchanges"] = stats.get("deferred_exchanges", 0) + 1
    # an acknowledgement is an Empty message: 4 bytes (RFC 7252 4.1)
    for x in tx_client:
        xb = bytes.fromhex(x["b"])
        if len(xb) > 4 and xb[1] == 0:
            run.violation("malformed-acknowledgement", dict(witness, datagram=x["b"]),
                          "the client wrote the Empty message %s, which is not empty" % x["b"])
            break
    # every CON response delivered to the client is acknowledged (RST when the verdict is FAIL)
    for e in rx_client:
        b = bytes.fromhex(e["b"])
        if len(b) < 4 or (b[0] >> 4) & 3 != 0 or b[1] < 64:
            continue
        mid = (b[2] << 8) | b[3]
        try:
            m = cw.decode(b, "udp")
        except Exception:
            continue
        stats["con_responses_delivered"] += 1
        replies = []
        for x in tx_client:
            xb = bytes.fromhex(x["b"])
            if x["t"] == e["t"] and len(xb) >= 4 and (xb[0] >> 4) & 3 in (2, 3) and \
                    ((xb[2] << 8) | xb[3]) == mid:
                replies.append((xb[0] >> 4) & 3)
        w = dict(witness, response_mid=mid, token=m["token"].hex())
        if not replies:
            run.violation("con-response-not-acknowledged", w,
                          "CON response mid %d (token %s) delivered at %d: no ACK/RST emitted"
                          % (mid, m["token"].hex(), e["t"]))
        elif m["token"] in fail_tokens and m["token"].hex() in rsp and 2 in replies and \
                rsp[m["token"].hex()][0]["t"] == e["t"]:
            run.violation("fail-verdict-without-reset", w,
                          "handler returned FAIL for token %s but an ACK was sent" %
                          m["token"].hex())
        elif m["token"] in fail_tokens and 3 in replies:
            stats["resets_for_fail"] += 1
        elif 3 in replies and m["token"] not in fail_tokens and any(
                ev.get("mid") == mid and ev.get("verdict") == 1 and ev["t"] <= e["t"]
                for ev in rsp.get(m["token"].hex(), [])):
            # the handler took this very message (same mid, verdict OK): it - and any later
            # copy of it - is acknowledged, whatever the verdict on some earlier response of
            # the session was.  (Another response with the same token but a new mid, e.g. from a
            # server that answered a duplicated request again, may rightly be reset.)
            run.violation("accepted-con-response-answered-with-reset", w,
                          "CON response mid %d (token %s, handler verdict OK) delivered at %d was "
                          "answered with a Reset" % (mid, m["token"].hex(), e["t"]))
    if lossless:
        for typ, code, tokb in reqs:
            if len(rsp.get(tokb.hex(), [])) != 1:
                run.violation("lossless-exchange-without-single-response",
                              dict(witness, token=tokb.hex()),
                              "no loss/duplication, yet token %s got %d responses" %
                              (tokb.hex(), len(rsp.get(tokb.hex(), []))))


def work(job):
    kind, items, exe = job
    run = common.Run("C07", "quick", "exploration")
    stats = dict(con_requests=0, non_requests=0, concluded_by_response=0, concluded_by_nack=0,
                 con_responses_delivered=0, resets_for_fail=0)
    sigs = set()
    n = 0
    sample = None
    for it in items:
        w = None
        witness = {"kind": kind, "item": repr(it), "seed": common.seed()}
        try:
            if kind == "enum":
                style, assign = it
                w, sim = setup(exe, 7 + common.seed(), style)
                plan = dict(enumerate(assign))

                def fault(sm, i, ev, plan=plan):
                    a = plan.get(i, 0)
                    b = bytes.fromhex(ev["b"])
                    if a == 1:
                        return []
                    if a == 2:
                        return [(5, b), (9, b)]
                    return None
                sim.fault = fault
                reqs = [(0, 1, b"\xc7\x01")]
                fails = set()
                lossless = not any(assign)
                sig = ("enum", style, assign)
            else:
                r = common.rng("c07-%s" % (it,))
                style = r.choice(STYLES)
                echo = r.random() < 0.2
                w, sim = setup(exe, r.getrandbits(30), style, echo=echo)
                nreq = r.choice([1, 2, 3])
                reqs = [(r.choice([0, 0, 0, 1]), r.choice(METHODS), bytes([0xd0 + k, r.getrandbits(8)]))
                        for k in range(nreq)]
                fails = set(t for _, _, t in reqs if r.random() < 0.25)
                ploss, pdup = r.choice([(0, 0), (0.15, 0.1), (0.3, 0.2), (0.5, 0.3)])
                dmax = r.choice([5, 200, 1500])
                fr = common.rng("c07f-%s" % (it,))

                def fault(sm, i, ev, fr=fr, ploss=ploss, pdup=pdup, dmax=dmax):
                    b = bytes.fromhex(ev["b"])
                    x = fr.random()
                    if x < ploss:
                        return []
                    if x < ploss + pdup:
                        return [(fr.randint(1, dmax), b), (fr.randint(1, dmax), b)]
                    return [(fr.randint(1, dmax), b)]
                sim.fault = fault
                lossless = False
                # a third of the plans: a second session of the same client context runs
                # exchanges of its own at the same time (one outstanding per session; the two
                # share the context's send queue, where entries are timed relative to each other)
                reqs1 = []
                if r.random() < 0.33:
                    sim.cmd("sess 0 1 udp 10.0.0.2:5683")
                    reqs1 = [(0, r.choice(METHODS), bytes([0xe0 + k, r.getrandbits(8)]))
                             for k in range(r.choice([1, 2, 3]))]
                failsend = r.choice([1, 2, 2, 3, 3, 4, 5, 6, 8]) if r.random() < 0.25 else 0
                if failsend:
                    # the k-th datagram write of the process (either node) fails with ENOBUFS
                    sim.cmd("failsend %d" % failsend)
                sig = ("rand", style, nreq, tuple(t for t, _, _ in reqs), bool(fails),
                       ploss, dmax, failsend)
            witness["style"] = style
            if kind == "enum":
                reqs1 = []
            refused = run_exchanges(sim, reqs, fails, reqs1)
            witness["script"] = w.script[-300:]
            if reqs1:
                stats["plans_with_two_sessions"] = stats.get("plans_with_two_sessions", 0) + 1
            judge(run, sim, reqs + reqs1, fails, witness, stats, lossless, refused)
            world.teardown_check(run, "C07", w, witness)
            sigs.add(sig)
            n += 1
            if sample is None:
                sample = {"style": style, "requests": [(t, c, k.hex()) for t, c, k in reqs],
                          "datagrams": sim.wire_index}
        except world.WorldCrash as e:
            world.crash_violation(run, "C07", e, witness)
            n += 1
        except common.Inconclusive:
            stats["inconclusive"] = stats.get("inconclusive", 0) + 1
        finally:
            if w is not None and not w.closed:
                w.close(kill=True)
    return n, sigs, run.export(), stats, sample


def main(tier):
    run = common.Run("C07", tier, "exploration")
    run.rule = ("client node <-> server node, one exchange outstanding per session; server styles "
                "piggybacked / empty ACK + separate CON / + separate NON / delayed async; for a "
                "single exchange of each style every assignment of {deliver, drop, duplicate} to "
                "its first N datagrams; random loss/duplication/delay (< ACK_TIMEOUT) plans over "
                "1-3 request sequences, CON and NON, verdict OK/FAIL; distinct_nontrivial = "
                "distinct (style, fault assignment) / (style, sequence, fault parameters)")
    run.assumptions = ["precondition of the property enforced by the generator: one exchange "
                       "outstanding per session, network delays below ACK_TIMEOUT",
                       "'never neither' judged as bounded progress: at quiescence and again "
                       "after a 15 virtual-minute horizon"]
    exe = build.ensure_world("asan")
    nfirst, nrand = (4, 5000) if tier == "quick" else (6, 40000)
    jobs = []
    enum = [(s, a) for s in STYLES for a in itertools.product((0, 1, 2), repeat=nfirst)]
    chunk = 12
    for i in range(0, len(enum), chunk):
        jobs.append(("enum", enum[i:i + chunk], exe))
    for i in range(0, nrand, chunk):
        jobs.append(("rand", list(range(i, min(nrand, i + chunk))), exe))
    stats = {}
    for n, sigs, vios, st, sample in common.parallel_map(work, jobs):
        run.evaluations += n
        run.nontrivial |= sigs
        run.merge(vios)
        for k, v in st.items():
            stats[k] = stats.get(k, 0) + v
        if sample:
            run.sample(sample)
    run.extra.update(stats)
    run.extra["fault_assignments_enumerated"] = "3^%d per style x %d styles" % (nfirst, len(STYLES))
    run.require("concluded_by_response", stats.get("concluded_by_response", 0), 200)
    run.require("concluded_by_nack", stats.get("concluded_by_nack", 0), 5)
    run.require("con_responses_delivered", stats.get("con_responses_delivered", 0), 100)
    return run.finish()
