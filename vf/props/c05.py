"""C05 - stream transports deliver the same messages however the byte stream
is cut.  Virtual stream sockets (ld --wrap of coap_socket_read/write/accept/
connect) feed reference-encoded TCP / WebSocket streams to libcoap sessions in
chunks chosen by a cut plan; metamorphic + reference oracle."""
import base64
import hashlib
import itertools

from .. import build, common, gen, world
from ..refs import coapwire as cw
from .c09 import fnv64

TCP_EP = "10.0.0.1:5683"
WS_EP = "10.0.0.1:80"
PEER = "10.0.7.1:50000"
CLIENT_PEER = "10.0.9.1:5683"
WS_CLIENT_PEER = "10.0.9.1:80"


def gen_stream_messages(r, role):
    """list of message dicts for the stream after the CSM"""
    n = r.choice([1, 2, 3, 5, 8, 12])
    out = []
    for k in range(n):
        x = r.random()
        # (RFC 8974 extended tokens, TKL 13 and 14, where the peers' CSMs allow them)
        tok = bytes(r.getrandbits(8) for _ in range(r.choice([0, 1, 2, 4, 8, 8, 8, 12, 13, 14, 20,
                                                              40, 64])))
        if role == "server":
            if x < 0.08:
                out.append(cw.msg(0xE2, token=tok))                         # Ping
                continue
            code = r.choice([1, 1, 2, 3, 4, 5])
            opts = [(11, r.choice([b"r", b"r", b"r", b"nope"]))]
            if code == 5 or r.random() < 0.3:
                opts.append((12, b"\x2a"))
            if r.random() < 0.3:
                opts.append((15, b"k=" + bytes(r.choice(b"abcxyz") for _ in range(r.randint(0, 20)))))
            if r.random() < 0.15:
                opts.append((2050, bytes(r.getrandbits(8) for _ in range(r.choice([13, 100, 269, 300])))))
        else:
            if x < 0.08:
                out.append(cw.msg(0xE3, token=tok))                         # Pong
                continue
            code = r.choice([0x45, 0x44, 0x41, 0x84, 0xA0])
            opts = [(12, b"\x2a")] if r.random() < 0.5 else []
            if r.random() < 0.2:
                opts.append((4, b"\x01\x02"))
        y = r.random()
        pl = b"" if y < 0.3 else bytes(r.getrandbits(8) for _ in range(
            r.choice([1, 5, 12, 13, 14, 100, 268, 269, 270, 700])))
        if r.random() < 0.06:
            out.append(cw.msg(0, token=b""))                                # Empty message
            continue
        out.append(cw.msg(code, token=tok, options=opts, payload=pl))
    if n >= 3 and r.random() < 0.12:
        # RFC 8323 5.5/5.6: after Release or Abort the connection is over; what the peer
        # still sends behind it is not for this session any more
        out.insert(r.randrange(1, n - 1), cw.msg(r.choice([0xE4, 0xE5]), token=b""))
    return out


def cut_plans(r, n, tier, exhaustive_limit):
    """list of cut position tuples (sorted positions in 1..n-1)"""
    plans = [(), tuple(range(1, n))]                      # whole, one byte per read
    if n <= exhaustive_limit:
        for a in range(1, n):
            plans.append((a,))
        for a, b in itertools.combinations(range(1, n), 2):
            plans.append((a, b))
    else:
        for _ in range(12):
            plans.append((r.randrange(1, n),))
    for _ in range(8 if tier == "quick" else 30):
        k = r.choice([2, 3, 5, 9])
        plans.append(tuple(sorted(set(r.randrange(1, n) for _ in range(k)))))
    return plans


def chunks(stream, plan):
    pos = [0] + list(plan) + [len(stream)]
    return [stream[a:b] for a, b in zip(pos, pos[1:]) if b > a]


def digest(ev):
    return (ev["code"], ev["tok"], ev["opts"], ev.get("plen", -1), ev.get("pfnv"))


def server_tcp_run(exe, stream, plan, seed, proto="tcp", preamble=None):
    """feed `stream` to a fresh server session in the chunks of `plan`"""
    w = world.World(exe, seed=seed, cmd_timeout=20)
    try:
        w.cmd("node 0")
        w.cmd("ctx 0 max_token=64")
        ep = TCP_EP if proto == "tcp" else WS_EP
        w.cmd("ep 0 %s %s" % (proto, ep))
        w.cmd("res 0 %s body=echo" % b"r".hex())
        evs = w.cmd("tcp_accept %s %s conn=77" % (ep, PEER))
        log = list(evs)
        if preamble:
            log += w.cmd("stream 77 0 %s" % preamble.hex())
        for ch in chunks(stream, plan):
            log += w.cmd("stream 77 0 %s" % ch.hex())
        log += w.cmd("prepare 0")
        surfaced = [digest(e) for e in log if e["e"] == "req"]
        pings = sum(1 for e in log if e["e"] == "ping")
        written = b"".join(bytes.fromhex(e["b"]) for e in log if e["e"] == "swrite")
        closed = any(e["e"] == "closed" and e.get("conn") == 77 for e in log)
        evs, rc, err = w.close()
        return {"surfaced": surfaced, "written": written, "closed": closed, "rc": rc, "err": err,
                "pings": pings, "maxalloc": max([e.get("maxalloc", 0) for e in evs
                                                 if e.get("e") == "shadow"] or [0])}
    except world.WorldCrash as e:
        return {"crash": e}
    finally:
        if not w.closed:
            w.close(kill=True)


def client_tcp_run(exe, stream, plan, seed):
    w = world.World(exe, seed=seed, cmd_timeout=20)
    try:
        w.cmd("node 0")
        w.cmd("ctx 0 max_token=64")
        log = list(w.cmd("sess 0 0 tcp %s" % CLIENT_PEER))
        conn = [e["conn"] for e in log if e["e"] == "tcp_connect"]
        if not conn:
            return {"crash": None, "nosess": True}
        log += w.cmd("prepare 0")
        for ch in chunks(stream, plan):
            log += w.cmd("stream %d 1 %s" % (conn[0], ch.hex()))
        log += w.cmd("prepare 0")
        surfaced = [digest(e) for e in log if e["e"] == "rsp"]
        written = b"".join(bytes.fromhex(e["b"]) for e in log if e["e"] == "swrite")
        closed = any(e["e"] == "closed" for e in log)
        evs, rc, err = w.close()
        return {"surfaced": surfaced, "written": written, "closed": closed, "rc": rc, "err": err,
                "pings": sum(1 for e in log if e["e"] == "pong")}
    except world.WorldCrash as e:
        return {"crash": e}
    finally:
        if not w.closed:
            w.close(kill=True)


WS_GUID = b"258EAFA5-E914-47DA-95CA-C5AB0DC85B11"


def ws_client_run(exe, stream_of, plan, seed):
    """a WebSocket client session; stream_of(request bytes) -> what the server sends (the HTTP
    answer to the upgrade request depends on the key in it), cut by `plan`"""
    w = world.World(exe, seed=seed, cmd_timeout=20)
    try:
        w.cmd("node 0")
        w.cmd("ctx 0 max_token=64")
        log = list(w.cmd("sess 0 0 ws %s" % WS_CLIENT_PEER))
        conn = [e["conn"] for e in log if e["e"] == "tcp_connect"]
        reqb = b"".join(bytes.fromhex(e["b"]) for e in log if e["e"] == "swrite")
        if not conn or not reqb:
            return {"crash": None, "nosess": True}
        stream = stream_of(reqb)
        log += w.cmd("prepare 0")
        for ch in chunks(stream, plan):
            log += w.cmd("stream %d 1 %s" % (conn[0], ch.hex()))
        log += w.cmd("prepare 0")
        surfaced = [digest(e) for e in log if e["e"] == "rsp"]
        written = b"".join(bytes.fromhex(e["b"]) for e in log if e["e"] == "swrite")
        closed = any(e["e"] == "closed" for e in log)
        evs, rc, err = w.close()
        return {"surfaced": surfaced, "written": written, "closed": closed, "rc": rc, "err": err,
                "pings": sum(1 for e in log if e["e"] == "pong"), "stream": stream}
    except world.WorldCrash as e:
        return {"crash": e}
    finally:
        if not w.closed:
            w.close(kill=True)


def ws_server_stream(r, msgs):
    """-> function(request bytes) -> HTTP 101 answer + unmasked frames (RFC 6455: a server does
    not mask) with the CSM and the messages"""
    frames = b"".join(cw.ws_frame(cw.encode(m, "ws")) for m in [cw.msg(0xE1)] + msgs)

    def stream_of(reqb):
        key = b""
        for line in reqb.split(b"\r\n"):
            if line.lower().startswith(b"sec-websocket-key:"):
                key = line.split(b":", 1)[1].strip()
        acc = base64.b64encode(hashlib.sha1(key + WS_GUID).digest())
        return (b"HTTP/1.1 101 Switching Protocols\r\nUpgrade: websocket\r\nConnection: Upgrade\r\n"
                b"Sec-WebSocket-Accept: " + acc + b"\r\nSec-WebSocket-Protocol: coap\r\n\r\n" + frames)
    return stream_of, frames


def expected_surface(msgs, role):
    out = []
    for m in msgs:
        if m["code"] in (0xE4, 0xE5):
            break
        if role == "server":
            if 1 <= m["code"] <= 31 and (11, b"r") in m["options"] and \
                    not (m["code"] == 5 and not any(n == 12 for n, _ in m["options"])):
                o = ";".join("%d=%s" % (n, v.hex()) for n, v in m["options"])
                out.append((m["code"], m["token"].hex(), o, len(m["payload"]) or -1,
                            fnv64(m["payload"]) if m["payload"] else None))
        else:
            if m["code"] >= 64 and m["code"] < 0xE0:
                o = ";".join("%d=%s" % (n, v.hex()) for n, v in m["options"])
                out.append((m["code"], m["token"].hex(), o, len(m["payload"]) or -1,
                            fnv64(m["payload"]) if m["payload"] else None))
    return out


def ws_handshake(r):
    key = base64.b64encode(bytes(r.getrandbits(8) for _ in range(16)))
    lines = [b"GET /.well-known/coap HTTP/1.1", b"Host: example.org", b"Upgrade: websocket",
             b"Connection: Upgrade", b"Sec-WebSocket-Key: " + key,
             b"Sec-WebSocket-Protocol: coap", b"Sec-WebSocket-Version: 13"]
    if r.random() < 0.5:
        lines.insert(2, b"User-Agent: vf")
    if r.random() < 0.6:
        # a header line close to what the library's line buffer (160 bytes) takes: 120..159
        # bytes including CR LF are all legal and must be accepted however they are cut
        n = r.choice([120, 140, 146, 147, 150, 155, 158, 159, r.randint(100, 159)])
        name = r.choice([b"X-Forwarded-For: ", b"Origin: http://", b"Cookie: k="])
        lines.insert(r.randint(1, len(lines)), name + b"p" * (n - 2 - len(name)))
    return b"\r\n".join(lines) + b"\r\n\r\n"


def ws_stream(r, msgs):
    out = b""
    for m in [cw.msg(0xE1)] + msgs:
        body = cw.encode(m, "ws")
        mask = bytes(r.getrandbits(8) for _ in range(4))
        out += cw.ws_frame(body, mask=mask)
    return out


def judge(run, kind, base, res, plan, stream, witness, stats, want):
    if res.get("crash") is not None:
        world.crash_violation(run, "C05", res["crash"], dict(witness, plan=list(plan)[:40]))
        return
    if res.get("rc") not in (0,):
        s = common.sanitizer_signature(res.get("err", "")) or "exit-rc%s" % res.get("rc")
        run.violation("teardown/%s/%s" % (kind, s), dict(witness, plan=list(plan)[:40],
                                                         stderr=res.get("err", "")[-3000:]),
                      res.get("err", "")[-1200:])
        return
    stats["runs"] += 1
    stats["surfaced"] += len(res["surfaced"])
    if want is not None and res["surfaced"] != want and plan == ():
        run.violation("surfaced-messages-differ-from-reference/%s" % kind,
                      dict(witness, plan=[]),
                      "whole stream in one read: reference expects %d messages %r\nlibcoap "
                      "surfaced %d: %r" % (len(want), want[:4], len(res["surfaced"]),
                                           res["surfaced"][:4]))
    if base is None:
        return
    if res["surfaced"] != base["surfaced"] or res["written"] != base["written"] or \
            res["pings"] != base["pings"]:
        cutclass = "one-byte-reads" if len(plan) == len(stream) - 1 else "%d-cuts" % len(plan)
        inhdr = ""
        run.violation("segmentation-changes-messages/%s" % kind,
                      dict(witness, plan=list(plan)[:60], stream=stream.hex()[:4000]),
                      "cut plan %r (%s): surfaced %d messages / wrote %d bytes, the unsegmented "
                      "stream surfaced %d / wrote %d" %
                      (list(plan)[:12], cutclass, len(res["surfaced"]), len(res["written"]),
                       len(base["surfaced"]), len(base["written"])))


def work(job):
    kind, items, exe, tier = job
    run = common.Run("C05", "quick", "exploration")
    stats = dict(runs=0, streams=0, surfaced=0, plans=0)
    sigs = set()
    for it in items:
        r = common.rng("c05-%s-%d" % (kind, it))
        witness = {"kind": kind, "item": it, "seed": common.seed()}
        seed = 5 + common.seed()
        if kind in ("tcp-server", "tcp-client"):
            role = "server" if kind == "tcp-server" else "client"
            msgs = gen_stream_messages(r, role)
            csm = cw.msg(0xE1, options=[(2, (1152).to_bytes(2, "big"))] if r.random() < 0.5 else [])
            if any(len(m["token"]) > 8 for m in msgs):
                # Extended-Token-Length: the peer announces what it is about to use
                csm["options"].append((6, bytes([64])))
            stream = b"".join(cw.encode(m, "tcp") for m in [csm] + msgs)
            if len(stream) > (64 if tier == "quick" else 120) and r.random() < 0.5:
                # keep a share of short streams for the exhaustive 1- and 2-cut placements
                msgs = msgs[:1]
                msgs[0]["payload"] = msgs[0]["payload"][:5]
                stream = b"".join(cw.encode(m, "tcp") for m in [csm] + msgs)
            want = expected_surface(msgs, role)
            runner = (lambda p: server_tcp_run(exe, stream, p, seed)) if role == "server" \
                else (lambda p: client_tcp_run(exe, stream, p, seed))
            plans = cut_plans(r, len(stream), tier, 40 if tier == "quick" else 100)
            # cuts pinned inside every length / extended-length / token-length field
            pos = 0
            for mbytes in [cw.encode(m, "tcp") for m in [csm] + msgs]:
                for k in range(1, min(8, len(mbytes))):
                    plans.append((pos + k,))
                    if pos + k + 1 < len(stream):
                        plans.append((pos + k, pos + k + 1))
                pos += len(mbytes)
        elif kind == "ws-client":
            # responses of a WebSocket server to a libcoap client: small unmasked frames, so
            # that several of them fit into one read of the frame-header buffer
            msgs = gen_stream_messages(r, "client")
            if r.random() < 0.5:
                for m in msgs:
                    m["token"] = m["token"][:2]
                    m["payload"] = m["payload"][:r.choice([0, 1, 3])]
                    m["options"] = []
            stream_of, frames = ws_server_stream(r, msgs)
            probe = ws_client_run(exe, stream_of, (), seed)
            if probe.get("crash") is not None or probe.get("nosess"):
                judge(run, kind, None, probe, (), b"", witness, stats, None)
                continue
            stream = probe["stream"]
            hs_len = len(stream) - len(frames)
            want = expected_surface(msgs, "client")
            runner = lambda p: ws_client_run(exe, stream_of, p, seed)
            plans = cut_plans(r, len(stream), tier, 0)
            plans.append((hs_len,))
            fpos = hs_len
            rest = frames
            while rest:
                (_, _, pl), rem = cw.ws_parse_frames(rest)[0][0], None
                hdrlen = 2 + (2 if len(pl) >= 126 else 0)
                for k in range(0, hdrlen + 2):
                    if fpos + k < len(stream):
                        plans.append((fpos + k,))
                        plans.append((hs_len, fpos + k))
                flen = hdrlen + len(pl)
                fpos += flen
                rest = rest[flen:]
            plans = plans[:160 if tier == "quick" else 1500]
        elif kind == "ws-server":
            msgs = gen_stream_messages(r, "server")
            hs = ws_handshake(r)
            frames = ws_stream(r, msgs)
            stream = hs + frames
            want = expected_surface(msgs, "server")
            runner = lambda p: server_tcp_run(exe, stream, p, seed, proto="ws")
            plans = cut_plans(r, len(stream), tier, 0)
            # one cut at every position of a long header line's tail (the part of the line that
            # is in the buffer when the next read is due decides what a bounded read may take)
            pos = 0
            long_cuts = []
            for ln in hs.split(b"\r\n"):
                if len(ln) + 2 >= 100:
                    long_cuts += [(pos + j,) for j in range(max(1, len(ln) - 30), len(ln) + 2)]
                pos += len(ln) + 2
            plans = long_cuts + plans
            # cuts inside every frame header, between CR and LF, at the end of the handshake
            fpos = len(hs)
            rest = frames
            while rest:
                (_, _, pl), rem = cw.ws_parse_frames(rest)[0][0], None
                hdrlen = 2 + (2 if len(pl) >= 126 else 0) + (6 if len(pl) >= 65536 else 0) + 4
                for k in range(1, hdrlen + 2):
                    if fpos + k < len(stream):
                        plans.append((fpos + k,))
                        plans.append((fpos, fpos + k))
                flen = hdrlen + len(pl)
                fpos += flen
                rest = rest[flen:]
            for k in range(len(hs)):
                if hs[k:k + 1] == b"\r":
                    plans.append((k + 1,))
            plans = plans[:160 if tier == "quick" else 1500]
        stats["streams"] += 1
        base = runner(())
        judge(run, kind, None, base, (), stream, witness, stats, want)
        if base.get("crash") is not None or base.get("rc") != 0:
            continue
        seen = set()
        for plan in plans:
            plan = tuple(p for p in plan if 0 < p < len(stream))
            if plan in seen or plan == ():
                continue
            seen.add(plan)
            stats["plans"] += 1
            res = runner(plan)
            judge(run, kind, base, res, plan, stream, witness, stats, None)
        sigs.add((kind, len(msgs), min(len(stream), 2000) // 50, len(seen) // 10))
    return stats, sigs, run.export()


def hostile(exe, run, stats):
    """declared lengths above the maximum and over-long handshake lines close the session"""
    cases = []
    for extra in (8 * 1024 * 1024 + 257, 2 ** 24, 2 ** 31, 2 ** 32 - 1):
        hdr = bytes([0xF0]) + max(0, extra - 65805).to_bytes(4, "big") + b"\x01"
        cases.append(("tcp", "declared-length-%d" % extra, hdr + bytes(64), None))
    # the largest values of the 32-bit field itself: field + 65805 does not fit 32 bits
    for field in (0xFFFEFEF2, 0xFFFEFEF3, 0xFFFEFEF4, 0xFFFF0000, 0xFFFFFFFE, 0xFFFFFFFF):
        hdr = bytes([0xF0]) + field.to_bytes(4, "big") + b"\x01"
        cases.append(("tcp", "declared-length-%d" % (field + 65805), hdr + bytes(64), None))
    for n in (159, 160, 161, 300, 4096):
        cases.append(("ws", "handshake-line-%d" % n, b"GET /" + b"a" * n, None))
        cases.append(("ws", "handshake-header-line-%d" % n,
                      b"GET /.well-known/coap HTTP/1.1\r\nX-Long: " + b"b" * n, None))
    for n in (2 ** 31, 2 ** 40, 2 ** 63 - 1):
        cases.append(("ws", "frame-length-%d" % n,
                      bytes([0x82, 0xFF]) + n.to_bytes(8, "big") + b"\x01\x02\x03\x04" + bytes(32),
                      "handshake"))
    r = common.rng("c05-hostile")
    for proto, name, data, pre in cases:
        for plan in ((), tuple(range(1, min(len(data), 400)))):
            preamble = (cw.encode(cw.msg(0xE1), "tcp") if proto == "tcp" else
                        (ws_handshake(r) if pre == "handshake" else None))
            res = server_tcp_run(exe, data, plan, 9, proto=proto, preamble=preamble)
            witness = {"hostile": name, "plan": "whole" if plan == () else "one-byte-reads"}
            stats["hostile"] = stats.get("hostile", 0) + 1
            if res.get("crash") is not None:
                world.crash_violation(run, "C05/hostile/%s" % name.rsplit("-", 1)[0],
                                      res["crash"], witness)
                continue
            if res.get("rc") != 0:
                s = common.sanitizer_signature(res.get("err", "")) or "exit-rc%s" % res.get("rc")
                run.violation("hostile/%s/teardown/%s" % (name.rsplit("-", 1)[0], s),
                              dict(witness, stderr=res.get("err", "")[-3000:]),
                              res.get("err", "")[-1200:])
                continue
            if not res["closed"]:
                run.violation("oversize-not-closed/%s" % name.rsplit("-", 1)[0], witness,
                              "%s: the session was not closed" % name)
            if res["maxalloc"] > 9 * 1024 * 1024:
                run.violation("oversize-buffered/%s" % name.rsplit("-", 1)[0], witness,
                              "an allocation of %d bytes was requested" % res["maxalloc"])


def main(tier):
    run = common.Run("C05", tier, "exploration")
    run.rule = ("reference-encoded streams (CSM, then 1..12 messages over the TCP length forms, "
                "tokens 0..8, options up to 300 bytes, payloads crossing 12/13 and 268/269, Ping/"
                "Pong, Empty) fed to a server session and to a client session; WebSocket: HTTP "
                "upgrade + masked binary frames (7/16-bit lengths); cut plans: whole, one byte "
                "per read, exhaustive 1- and 2-cut placements on short streams, cuts pinned "
                "inside every length/extended-length/token/frame-header field and between CR "
                "and LF, random multi-cuts; hostile: declared lengths above the maximum, over-"
                "long handshake lines, 64-bit frame lengths; distinct_nontrivial = distinct "
                "(kind, messages, stream length class, plan count class)")
    run.assumptions = ["harness/wraps.c virtual stream sockets (one coap_socket_read per arrival, "
                       "short reads clear CAN_READ like the real function)",
                       "TLS/WSS record layers are not exercised here"]
    exe = build.ensure_world("asan")
    n = {"tcp-server": 40, "tcp-client": 24, "ws-server": 16, "ws-client": 16} if tier == "quick" \
        else {"tcp-server": 1500, "tcp-client": 800, "ws-server": 500, "ws-client": 500}
    jobs = []
    for kind, cnt in n.items():
        for i in range(0, cnt, 2):
            jobs.append((kind, list(range(i, min(cnt, i + 2))), exe, tier))
    tot = {}
    for st, sigs, vios in common.parallel_map(work, jobs):
        for k, v in st.items():
            tot[k] = tot.get(k, 0) + v
        run.nontrivial |= sigs
        run.merge(vios)
    hostile(exe, run, tot)
    run.evaluations = tot.get("runs", 0) + tot.get("hostile", 0)
    run.extra.update(tot)
    run.sample({"stream": "CSM + GET /r (token 8) + PUT /r 269-byte payload", "plan": [3, 4]})
    run.require("cut_plans", tot.get("plans", 0), 1500)
    run.require("surfaced_messages", tot.get("surfaced", 0), 3000)
    return run.finish()
