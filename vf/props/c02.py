"""C02 - arbitrary network input never breaks memory safety, liveness or the
endpoint.  A server node and a client node in the closed world (ASan+UBSan,
virtual clock) run valid exchanges - Block1 upload, Block2 download, an
observation, an OSCORE exchange - while hostile datagrams (mutations of the
traffic recorded so far, field-level edits that stay well-formed, blind strings)
are delivered to both of them from spoofed and foreign addresses, with virtual
time jumps in between; hostile byte streams are fed to TCP and WebSocket
sessions in random chunks.  Afterwards canary requests must be answered."""
import os
import re

from .. import build, common, gen, world
from ..refs import coapwire as cw
from . import c05, c14

SRV = "10.0.0.2:5683"
SRV_TCP = "10.0.0.2:5683"
SRV_WS = "10.0.0.2:80"
STRANGER = "10.0.66.6:6666"
CANARY = "10.0.77.7:7777"
BODY = b"canary-body-5d1e"


MEMCHECK = ["valgrind", "-q", "--error-exitcode=97", "--exit-on-first-error=yes",
            "--leak-check=no", "--undef-value-errors=yes", "--track-origins=yes"]
MODE = {"memcheck": False}


def new_world(exe, seed):
    """ASan+UBSan build, or - memcheck pass - the uninstrumented build under valgrind (reads of
    uninitialised memory that steer control flow are invisible to ASan)"""
    if MODE["memcheck"]:
        return world.World(exe, seed=seed, cmd_timeout=600, argv_prefix=MEMCHECK)
    return world.World(exe, seed=seed, cmd_timeout=60)


def u(v):
    return cw.uint_bytes(v)


def semantic_mutation(r, m):
    """a well-formed message whose fields attack the state machines"""
    m = {"type": m["type"], "code": m["code"], "mid": m["mid"], "token": m["token"],
         "options": list(m["options"]), "payload": m["payload"]}
    kind = r.choice(["block", "block", "block", "size", "observe", "etag", "rtag", "token", "mid",
                     "type", "code", "dup-opt", "payload", "drop-opt", "qblock", "oscore-opt",
                     "noresponse", "echo"])
    if any(n == 9 and v for n, v in m["options"]) and r.random() < 0.5:
        kind = r.choice(["oscore-piv", "oscore-piv", "oscore-kidctx"])

    def setopt(num, val):
        m["options"] = [(n, v) for n, v in m["options"] if n != num] + [(num, val)]
    if kind == "block":
        num = r.choice([23, 27])
        setopt(num, u((r.choice([0, 1, 2, 3, 7, 100, 2 ** 20 - 1]) << 4) |
                      (r.choice([0, 8])) | r.choice([0, 1, 2, 5, 6, 7])))
    elif kind == "qblock":
        setopt(r.choice([19, 31]), u((r.choice([0, 1, 5, 1000]) << 4) | r.choice([0, 8]) |
                                     r.choice([0, 2, 6])))
    elif kind == "size":
        setopt(r.choice([28, 60]), u(r.choice([0, 1, 15, 16, 1499, 1500, 1501, 65536, 2 ** 32 - 1])))
    elif kind == "observe":
        setopt(6, u(r.choice([0, 1, 2, 3, 255, 256, 2 ** 24 - 1, r.getrandbits(24)])))
    elif kind == "etag":
        setopt(4, bytes(r.getrandbits(8) for _ in range(r.choice([1, 2, 8]))))
    elif kind == "rtag":
        setopt(292, bytes(r.getrandbits(8) for _ in range(r.choice([0, 1, 8]))))
    elif kind == "token":
        m["token"] = bytes(r.getrandbits(8) for _ in range(r.choice([0, 1, 4, 8])))
    elif kind == "mid":
        m["mid"] = (m["mid"] + r.choice([1, -1, 0x8000, 7])) & 0xffff
    elif kind == "type":
        m["type"] = r.randrange(4)
    elif kind == "code":
        m["code"] = r.choice([0, 1, 2, 3, 4, 5, 6, 7, 31, 64, 65, 68, 69, 95, 128, 132, 136, 141, 160,
                              162, 224, 225, 226, 227, 228, 229, 255])
        if m["code"] == 0:
            m["token"], m["options"], m["payload"] = b"", [], b""
    elif kind == "dup-opt" and m["options"]:
        m["options"].append(r.choice(m["options"]))
    elif kind == "payload":
        m["payload"] = bytes(r.getrandbits(8) for _ in range(r.choice([0, 1, 15, 16, 17, 64, 1024, 1100])))
    elif kind == "drop-opt" and m["options"]:
        m["options"].pop(r.randrange(len(m["options"])))
    elif kind == "oscore-opt":
        setopt(9, bytes(r.getrandbits(8) for _ in range(r.choice([0, 1, 2, 3, 9, 12]))))
    elif kind == "oscore-kidctx":
        # the recorded sender's kid (it travels in the clear) under a kid context of the
        # forger's making: for a server that does RFC 8613 Appendix B.2 the kid context is a
        # CBOR byte string, so heads that promise more than is there, and plain garbage
        ov = [v for n, v in m["options"] if n == 9][0]
        flags = ov[0]
        pl = flags & 7
        pos = 1 + pl
        if flags & 0x10 and pos < len(ov):
            pos += 1 + ov[pos]
        kid = ov[pos:] if flags & 0x08 else b""
        kc = r.choice([b"\x59\xff\xff", b"\x58\xff", b"\x5a\x00\x01\x00\x00", b"\x5b" + bytes(7)
                       + b"\x40", b"\x18", b"\x19\xff", b"\x58", b"\x59\x01", b"\x44abcd",
                       b"\x48abc", b"\x40", b"\x57" + bytes(3),
                       bytes(r.getrandbits(8) for _ in range(r.choice([1, 2, 9])))])
        if r.random() < 0.3:
            kc = kc + bytes(r.getrandbits(8) for _ in range(r.choice([1, 8, 30])))
        setopt(9, bytes([(flags & 0x07) | 0x18]) + ov[1:1 + pl] + bytes([len(kc)]) + kc + kid)
    elif kind == "oscore-piv":
        # a protected message of the recorded traffic with the sender's kid kept (it travels in
        # the clear) and a Partial IV of the forger's choosing; ciphertext as recorded, cut
        # short (shorter than the AEAD tag included) or random
        ov = [v for n, v in m["options"] if n == 9][0]
        flags = ov[0]
        pl = flags & 7
        rest = ov[1 + pl:]
        piv = r.choice([bytes([r.getrandbits(8)]), b"\x7f\xff", b"\xff\xff\xff\xff\xfe",
                        b"\xff\xff\xff\xff\xff", (int.from_bytes(ov[1:1 + pl] or b"\0", "big")
                                                   + r.choice([1, 2, 40])).to_bytes(5, "big")
                        .lstrip(b"\0") or b"\0"])
        setopt(9, bytes([(flags & 0xF8) | len(piv)]) + piv + rest)
        y = r.random()
        if y < 0.4:
            m["payload"] = m["payload"][:r.choice([1, 3, 7, 8, 9])]
        elif y < 0.6:
            m["payload"] = bytes(r.getrandbits(8) for _ in range(r.choice([1, 5, 8, 20])))
        m["mid"] = r.getrandbits(16)
    elif kind == "noresponse":
        setopt(258, u(r.choice([0, 2, 8, 16, 26, 127])))
    elif kind == "echo":
        setopt(252, bytes(r.getrandbits(8) for _ in range(r.choice([1, 8, 40]))))
    m["options"] = cw.sort_options(m["options"])
    try:
        return "field-" + kind, cw.encode(m, "udp")
    except Exception:
        return "field-" + kind, cw.encode(cw.msg(m["code"] or 1, mid=m["mid"]), "udp")


def hostile_datagram(r, seeds):
    """-> (class, from, to, bytes)"""
    x = r.random()
    if seeds and x < 0.8:
        frm, to, data = r.choice(seeds[-60:] if r.random() < 0.7 else seeds)
        try:
            m = cw.decode(data, "udp")
        except (cw.Reject, cw.Either):
            m = None
        y = r.random()
        if m is None or y < 0.1:
            b = bytearray(data)
            if b:
                for _ in range(r.choice([1, 1, 2, 5])):
                    b[r.randrange(len(b))] ^= 1 << r.randrange(8)
            kind, out = "bitflip", bytes(b)
        elif y < 0.5:
            kind, out = semantic_mutation(r, m)
        elif y < 0.55:
            kind, out = "replay", data
        else:
            kind, out = gen.mutate(r, m, "udp")
            kind = "syntax-" + kind
        if r.random() < 0.2:
            frm = STRANGER
        return kind, frm, to, out
    to = r.choice([SRV, "client"])
    return "blind", r.choice([STRANGER, "peer"]), to, gen.blind(r, "udp", maxlen=r.choice([16, 64, 300, 1472]))


def udp_scenario(exe, r, run, stats, idx):
    w = new_world(exe, r.getrandbits(30))
    sim = world.Sim(w, latency=r.choice([1, 5]))
    wit = {"kind": "udp", "scenario_seed": idx, "script": w.script}
    try:
        return _udp(exe, r, run, stats, w, sim, wit)
    except world.WorldCrash as e:
        wit["script"] = [x for x in w.script if not x.startswith(("peek", "prepare"))][-120:]
        world.crash_violation(run, "udp", e, wit)
    except common.Inconclusive:
        stats["step_budget_exhausted"] = stats.get("step_budget_exhausted", 0) + 1
    finally:
        if not w.closed:
            w.close(kill=True)


def _udp(exe, r, run, stats, w, sim, wit):
    level = r.choice([0, 3, 4, 6, 7, 7, 7, 8])
    sim.cmd("log %d" % level)
    wit["log_level"] = level
    smode = r.choice([1, 3, 1 | 8, 3 | 8])        # USE_LIBCOAP, +SINGLE_BODY, +TRY_Q_BLOCK
    cmode = r.choice([1, 3, 1 | 8])
    sim.add_node(0, block_mode=cmode)
    sim.add_node(1, block_mode=smode, session_timeout=r.choice([5, 300]))
    wit["block_modes"] = [cmode, smode]
    osc = None
    if r.random() < 0.5:
        osc = c14.gen_ctx(r)
        # (room for the whole run: a sender that has used up its 2^40 sequence numbers rightly
        # refuses to send, which is not what the canary at the end is about)
        osc["start"] = min(osc["start"], 2 ** 40 - 100000)
        b12srv = r.random() < 0.3
        b2srv = r.random() < 0.4
        wit["oscore_server_appendix_b2"] = b2srv
        sim.cmd("oscore_server 1 %s" % c14.conf_text(osc["secret"], osc["salt"], osc["server_id"],
                                                     osc["client_id"], osc["idctx"],
                                                     b12srv, b2=b2srv))
    sim.cmd("ep 1 udp %s" % SRV)
    # (attributes with several values: discovery requests with rt=/if= filters walk them)
    sim.cmd("res 1 %s body=fixed:%s attr=%s:%s,%s:%s" % (
        b"r".hex(), BODY.hex(), b"rt".hex(), b'"temp sensor lux"'.hex(), b"if".hex(),
        r.choice([b'"core.s a"', b"a", b'""', b'"a  b "']).hex()))
    sim.cmd("res 1 %s body=gen:%d:7 large=1 attr=%s:%s" % (
        b"big".hex(), r.choice([700, 1500, 4000]), b"rt".hex(),
        r.choice([b'"t sensor"', b"lux", b'"x y z lux"']).hex()))
    sim.cmd("res 1 %s store=1 body=stored" % b"up".hex())
    sim.cmd("res 1 %s body=counter obs=1" % b"o".hex())
    sim.cmd("res 1 %s body=fixed:%s sep=500" % (b"sep".hex(), b"later".hex()))
    if r.random() < 0.5:
        sim.cmd("res 1 - kind=unknown dyn=1")
    mtu = r.choice([128, 256, 1152])
    sim.cmd("ctx 1 srv_mtu=%d" % mtu)
    evs = sim.cmd("sess 0 0 udp %s mtu=%d" % (SRV, mtu))
    cli_addr = [e["local"] for e in evs if e["e"] == "sess"][0]
    if osc:
        evs = sim.cmd("sess 0 1 udp %s oscore=%s start_seq=%d" % (
            SRV, c14.conf_text(osc["secret"], osc["salt"], osc["client_id"], osc["server_id"],
                               osc["idctx"], False), osc["start"]))
        if not any(e["e"] == "sess" and e.get("ok") for e in evs):
            osc = None     # (a context the library declines, e.g. an over-long ID Context)
    # valid work in progress on both sides
    valid = [
        "send 0 0 type=0 code=1 token=b1 opts=11=%s" % b"big".hex(),
        "send 0 0 type=0 code=3 token=b2 opts=11=%s,12=2a large=%d:3" % (b"up".hex(),
                                                                      r.choice([600, 1500, 3000])),
        "send 0 0 type=0 code=1 token=b3 opts=6=,11=%s" % b"o".hex(),
        "send 0 0 type=1 code=1 token=b4 opts=11=%s" % b"r".hex(),
        "send 0 0 type=0 code=1 token=b5 opts=11=%s" % b"sep".hex(),
        "send 0 0 type=0 code=5 token=b6 opts=11=%s,12=2a large=%d:5" % (b"up".hex(),
                                                                      r.choice([300, 2000])),
    ]
    for _ in range(r.choice([1, 2, 3])):
        filt = r.choice([b"rt", b"if", b"rel", b"href", b"title"]) + b"=" + \
            r.choice([b"sensor", b"lux", b"temp", b"se*", b"l*", b"zz", b"a", b"core.s", b"*",
                      b"", b"sensorsensor", b"lu", b"/r", b"/b*", b"temp sensor"])
        valid.append("send 0 0 type=0 code=1 token=%02x opts=11=%s,11=%s,15=%s" % (
            0xd0 + len(valid), b".well-known".hex(), b"core".hex(), filt.hex()))
    if osc:
        # one OSCORE request per run: a second one before the first response makes libcoap
        # wait inside coap_send (coap_client_delay_first), which never returns under the
        # virtual clock - an artefact of the harness, not an input-driven hang
        valid.append(r.choice(["send 0 1 type=0 code=1 token=c1 opts=11=%s" % b"r".hex(),
                               "send 0 1 type=0 code=1 token=c2 opts=11=%s" % b"big".hex(),
                               "send 0 1 type=0 code=1 token=c3 opts=6=,11=%s" % b"o".hex()]))
    r.shuffle(valid)
    nsteps = r.choice([10, 25, 60, 120])
    hostile_left = nsteps
    delivered = 0
    classes = set()
    while hostile_left > 0:
        x = r.random()
        if valid and x < 0.25:
            sim.cmd(valid.pop())
        elif x < 0.45:
            sim.run(until=sim.elapsed() + r.choice([1, 3, 10, 40]), quiesce=False)
        elif x < 0.5:
            sim.cmd("notify 1 o")
        elif x < 0.56:
            sim.run(until=sim.elapsed() + r.choice([1000, 2500, 10000, 50000, 130000, 400000]),
                    quiesce=False)
        else:
            hostile_left -= 1
            seeds = [(e["from"], e["to"], bytes.fromhex(e["b"])) for e in sim.log
                     if e["e"] == "wire"]
            kind, frm, to, data = hostile_datagram(r, seeds)
            if to == "client":
                to = cli_addr
            if frm == "peer":
                frm = SRV if to == cli_addr else cli_addr
            if to not in (SRV, cli_addr):
                to = SRV
            classes.add((kind, "to-server" if to == SRV else "to-client"))
            mark = len(sim.log)
            sim.cmd("deliver %s %s %s judge=1" % (frm, to, data.hex() or "-"))
            delivered += 1
            evs = sim.log[mark:]
            pv = [e for e in evs if e["e"] == "pverdict"]
            if pv and not pv[0]["ok"]:
                stats["malformed_delivered"] += 1
                handlers = [e for e in evs if e["e"] in ("req", "rsp", "ping", "pong")]
                wires = [e for e in evs if e["e"] == "wire"]
                if handlers:
                    run.violation("malformed-input-reached-handler/%s/%s" %
                                  (handlers[0]["e"], "to-server" if to == SRV else "to-client"),
                                  dict(wit, input=data.hex(), mutation=kind),
                                  "the library's parser rejects %s, yet a %s handler ran during its "
                                  "delivery" % (data.hex()[:80], handlers[0]["e"]))
                if len(wires) > 1:
                    run.violation("malformed-input-multiple-replies/%s" %
                                  ("to-server" if to == SRV else "to-client"),
                                  dict(wit, input=data.hex(), mutation=kind),
                                  "%d datagrams were sent in reply to a malformed one" % len(wires))
            elif pv:
                stats["wellformed_delivered"] += 1
            # the same rule with the independent decoder's verdict (vf/refs/coapwire.py): what
            # RFC 7252 makes malformed beyond doubt must not run a handler even if the
            # library's parser lets it through ('either' zones are not judged)
            rv = cw.verdict(data, "udp")[0]
            if rv == "reject":
                stats["reference_malformed_delivered"] = stats.get(
                    "reference_malformed_delivered", 0) + 1
                handlers = [e for e in evs if e["e"] in ("req", "rsp", "ping", "pong")]
                if handlers and not (pv and not pv[0]["ok"]):
                    run.violation("malformed-input-reached-handler/%s/%s/reference-verdict" %
                                  (handlers[0]["e"], "to-server" if to == SRV else "to-client"),
                                  dict(wit, input=data.hex(), mutation=kind),
                                  "the reference decoder rejects %s (%s), the library parsed it and "
                                  "a %s handler ran" % (data.hex()[:80], cw.verdict(data, "udp")[1],
                                                       handlers[0]["e"]))
    stats["hostile_datagrams"] += delivered
    # let every timer of the valid and the damaged exchanges run out
    sim.run(until=sim.elapsed() + 400000, quiesce=False)
    # canaries: a fresh peer, and the client node on its abused session
    got = {}

    def peer(sm, frm, to, data):
        try:
            m = cw.decode(data, "udp")
        except (cw.Reject, cw.Either):
            return
        got[m["token"]] = m
    sim.peers[CANARY] = peer
    sim.inject(CANARY, SRV, cw.encode(cw.msg(1, type=0, mid=0x7001, token=b"\xca\x01",
                                             options=[(11, b"r")]), "udp"))
    sim.cmd("send 0 0 type=0 code=1 token=ca02 opts=11=%s" % b"r".hex())
    sim.run(until=sim.elapsed() + 120000, quiesce=False)
    stats["canaries"] += 2
    if osc:
        # ... and the security context: the genuine client's next protected request
        sim.cmd("send 0 1 type=0 code=1 token=ca03 opts=11=%s" % b"r".hex())
        sim.run(until=sim.elapsed() + 120000, quiesce=False)
        stats["canaries"] += 1
        stats["oscore_canaries"] = stats.get("oscore_canaries", 0) + 1
        ok3 = [e for e in sim.log if e["e"] == "rsp" and e.get("n") == 0 and e["tok"] == "ca03"
               and e["code"] == 69 and e.get("phex") == BODY.hex()]
        if not ok3:
            # Why it failed decides the signature.  One way is a recorded finding (DESIGN 7.3):
            # the session's NSTART slot is taken although none of its messages is in flight, so
            # the canary is parked behind it - the state an unauthenticated datagram naming a
            # request in flight leaves behind (C15's finding).  Every other way (rejected by
            # the server, no answer, a wrong answer) keeps the plain signature.
            ps = [e for e in sim.cmd("peek 0") if e["e"] == "psess" and e.get("client") and
                  e.get("sess") == 1]
            parked = bool(ps) and ps[0].get("delayq", 0) > 0 and ps[0].get("sendq", 0) == 0 \
                and ps[0].get("con_active", 0) > 0
            # ... or the same state on the server's side of that session (its separate
            # responses are Confirmable): nothing of the whole context in flight, yet a session
            # with its slot taken and a response parked
            pk = sim.cmd("peek 1")
            if not parked and any(e["e"] == "peek" and e.get("sendqueue") == 0 for e in pk):
                parked = any(e["e"] == "psess" and not e.get("client") and
                             e.get("con_active", 0) > 0 and e.get("delayq", 0) > 0 for e in pk)
                ps = ps + [e for e in pk if e["e"] == "psess" and e.get("delayq", 0) > 0][:2]
            run.violation("canary-failed/oscore-session" + (
                "/slot-held-by-no-message" if parked else ""),
                dict(wit, classes=sorted(classes), sessions=ps[:3]),
                          "after the hostile input a protected GET of the genuine OSCORE client "
                          "was not answered 2.05 with the resource body")
    m = got.get(b"\xca\x01")
    if not m or m["code"] != 69 or m["payload"] != BODY:
        run.violation("canary-failed/fresh-peer", dict(wit, classes=sorted(classes)),
                      "after the hostile input a well-formed GET from a fresh peer got %r" % (m,))
    ok = [e for e in sim.log if e["e"] == "rsp" and e.get("n") == 0 and e["tok"] == "ca02"
          and e["code"] == 69 and e.get("phex") == BODY.hex()]
    if not ok:
        run.violation("canary-failed/abused-client-session", dict(wit, classes=sorted(classes)),
                      "after the hostile input a GET on the client's session was not answered "
                      "2.05 with the resource body")
    evs, rc, err = w.close()
    if rc not in (0, None):
        s = common.sanitizer_signature(err) or common.valgrind_signature(err) or ("exit-rc%s" % rc)
        run.violation("udp/teardown/%s" % s, dict(wit, stderr=err[-3000:]), err[-1500:])
    for e in evs:
        if e.get("e") == "shadow" and e.get("live"):
            stats["runs_with_leak"] = stats.get("runs_with_leak", 0) + 1
    stats["scenarios"] += 1
    return classes


# -- streams ----------------------------------------------------------------------
def hostile_stream(r, proto):
    """bytes for one connection: optional valid preamble, then mutated / blind material"""
    parts = []
    kinds = []
    if proto == "ws":
        pre = r.random()
        if pre < 0.7:
            parts.append(c05.ws_handshake(r))
            kinds.append("valid-handshake")
        elif pre < 0.85:
            h = bytearray(c05.ws_handshake(r))
            for _ in range(r.choice([1, 3])):
                h[r.randrange(len(h))] ^= 1 << r.randrange(8)
            parts.append(bytes(h))
            kinds.append("mutated-handshake")
    msgs = [cw.msg(0xE1)] if r.random() < 0.8 else []
    msgs += c05.gen_stream_messages(r, "server")
    # (a CoAP message inside a WebSocket frame has no length field of its own: RFC 8323 4.2)
    enc = "ws" if proto == "ws" else "tcp"
    # a share of the peers behave for a while (valid messages in valid frames, which the random
    # reads still cut anywhere) before they turn hostile: state built up by then is at stake
    calm = r.randint(2, 7) if r.random() < 0.4 else 0
    if calm and proto == "ws" and "valid-handshake" not in kinds:
        parts[:] = [c05.ws_handshake(r)]
        kinds[:] = ["valid-handshake"]
    for i, m in enumerate(msgs):
        y = r.random()
        if i < calm:
            b = cw.encode(m, enc)
            kinds.append("valid")
            if proto == "ws":
                b = cw.ws_frame(b, mask=bytes(r.getrandbits(8) for _ in range(4)))
            parts.append(b)
            continue
        if y < 0.5:
            b = cw.encode(m, enc)
            k = "valid"
        elif y < 0.8:
            k, b = gen.mutate(r, m, enc)
        elif y < 0.9:
            b = gen.blind(r, enc, maxlen=r.choice([8, 64, 400]))
            k = "blind"
        else:
            b = bytearray(cw.encode(m, enc))
            if b:
                b[0] = (r.choice([13, 14, 15]) << 4) | (b[0] & 15)     # lying length nibble
            b = bytes(b)
            k = "length-form"
        kinds.append(k)
        if proto == "ws":
            y = r.random()
            if y < 0.8:
                b = cw.ws_frame(b, mask=bytes(r.getrandbits(8) for _ in range(4)),
                                opcode=r.choice([2, 2, 2, 1, 0, 8, 9, 10]),
                                fin=r.random() < 0.9)
            elif y < 0.9:
                b = cw.ws_frame(b, mask=None)                           # unmasked client frame
                kinds.append("unmasked")
            else:
                kinds.append("raw-in-ws")
        parts.append(b)
    return b"".join(parts), kinds


def stream_scenario(exe, r, run, stats, idx):
    w = new_world(exe, r.getrandbits(30))
    wit = {"kind": "stream", "scenario_seed": idx, "script": w.script}
    try:
        level = r.choice([0, 4, 7, 7, 8])
        w.cmd("log %d" % level)
        wit["log_level"] = level
        w.cmd("node 0")
        w.cmd("ctx 0 max_token=%d" % r.choice([8, 64]))
        w.cmd("ep 0 udp %s" % SRV)
        w.cmd("ep 0 tcp %s" % SRV_TCP)
        w.cmd("ep 0 ws %s" % SRV_WS)
        w.cmd("res 0 %s body=fixed:%s" % (b"r".hex(), BODY.hex()))
        w.cmd("res 0 %s body=echo" % b"e".hex())
        classes = set()
        nconn = r.choice([1, 2, 4])
        for c in range(nconn):
            proto = r.choice(["tcp", "ws"])
            ep = SRV_TCP if proto == "tcp" else SRV_WS
            conn = 100 + c
            data, kinds = hostile_stream(r, proto)
            classes |= set((proto, k) for k in kinds)
            w.cmd("tcp_accept %s 10.0.66.%d:5000 conn=%d" % (ep, c + 1, conn))
            pos = 0
            while pos < len(data):
                n = r.choice([1, 1, 2, 3, 7, 50, 400, len(data)])
                evs = w.cmd("stream %d 0 %s" % (conn, data[pos:pos + n].hex()))
                pos += n
                if any(e["e"] == "closed" and e.get("conn") == conn for e in evs):
                    break
                if r.random() < 0.05:
                    w.cmd("advance %d" % r.choice([10, 1000, 40000]))
                    w.cmd("prepare 0")
            stats["hostile_stream_bytes"] += pos
            if r.random() < 0.3:
                w.cmd("stream_close %d 0" % conn)
            w.cmd("prepare 0")
        w.cmd("advance 400000")
        w.cmd("prepare 0")
        # canary over a fresh TCP connection and a fresh datagram
        evs = w.cmd("tcp_accept %s %s conn=900" % (SRV_TCP, CANARY))
        evs += w.cmd("stream 900 0 %s" % (cw.encode(cw.msg(0xE1), "tcp") +
                                          cw.encode(cw.msg(1, token=b"\xca\x03",
                                                           options=[(11, b"r")]), "tcp")).hex())
        evs += w.cmd("prepare 0")
        out = b"".join(bytes.fromhex(e["b"]) for e in evs if e["e"] == "swrite" and e["conn"] == 900)
        msgs, _rest = cw.split_tcp_stream(out)
        good = False
        for raw in msgs:
            try:
                m = cw.decode(raw, "tcp")
            except (cw.Reject, cw.Either):
                continue
            if m["token"] == b"\xca\x03" and m["code"] == 69 and m["payload"] == BODY:
                good = True
        stats["canaries"] += 2
        if not good:
            run.violation("canary-failed/fresh-tcp-connection", dict(wit, classes=sorted(classes)),
                          "after the hostile streams a GET over a fresh TCP connection was "
                          "answered with %s" % out.hex()[:120])
        evs = w.cmd("deliver %s %s %s" % (CANARY, SRV, cw.encode(
            cw.msg(1, type=0, mid=0x7002, token=b"\xca\x04", options=[(11, b"r")]), "udp").hex()))
        good = False
        for e in evs:
            if e["e"] == "wire" and e["to"] == CANARY:
                try:
                    m = cw.decode(bytes.fromhex(e["b"]), "udp")
                except (cw.Reject, cw.Either):
                    continue
                if m["token"] == b"\xca\x04" and m["code"] == 69 and m["payload"] == BODY:
                    good = True
        if not good:
            run.violation("canary-failed/fresh-peer-after-streams", dict(wit, classes=sorted(classes)),
                          "after the hostile streams a GET datagram from a fresh peer was not "
                          "answered 2.05")
        evs, rc, err = w.close()
        if rc not in (0, None):
            s = common.sanitizer_signature(err) or common.valgrind_signature(err) or ("exit-rc%s" % rc)
            run.violation("stream/teardown/%s" % s, dict(wit, stderr=err[-3000:]), err[-1500:])
        stats["scenarios"] += 1
        return classes
    except world.WorldCrash as e:
        wit["script"] = w.script[-150:]
        world.crash_violation(run, "stream", e, wit)
    finally:
        if not w.closed:
            w.close(kill=True)


def client_stream_scenario(exe, r, run, stats, idx):
    """hostile responses on a client's TCP session"""
    w = new_world(exe, r.getrandbits(30))
    wit = {"kind": "client-stream", "scenario_seed": idx, "script": w.script}
    try:
        w.cmd("log %d" % r.choice([0, 7, 8]))
        w.cmd("node 0")
        w.cmd("node 1")
        w.cmd("ep 1 udp %s" % SRV)
        w.cmd("res 1 %s body=fixed:%s" % (b"r".hex(), BODY.hex()))
        sim = world.Sim(w, latency=1)
        sim.nodes = [0, 1]
        evs = sim.cmd("sess 0 0 tcp 10.0.88.8:5683")
        conn = [e["conn"] for e in evs if e["e"] == "tcp_connect"]
        if not conn:
            return None
        sim.cmd("prepare 0")
        msgs = [cw.msg(0xE1)] if r.random() < 0.8 else []
        msgs += c05.gen_stream_messages(r, "client")
        parts = []
        classes = set()
        for m in msgs:
            y = r.random()
            if y < 0.4:
                parts.append(cw.encode(m, "tcp"))
                classes.add(("client-tcp", "valid"))
            elif y < 0.85:
                k, b = gen.mutate(r, m, "tcp")
                parts.append(b)
                classes.add(("client-tcp", k))
            else:
                parts.append(gen.blind(r, "tcp", maxlen=200))
                classes.add(("client-tcp", "blind"))
        data = b"".join(parts)
        sent_req = False
        pos = 0
        while pos < len(data):
            if not sent_req and r.random() < 0.3:
                sim.cmd("send 0 0 type=0 code=1 token=d1 opts=11=72")
                sent_req = True
            n = r.choice([1, 2, 5, 30, 300, len(data)])
            evs = sim.cmd("stream %d 1 %s" % (conn[0], data[pos:pos + n].hex()))
            pos += n
            if any(e["e"] == "closed" for e in evs):
                break
        stats["hostile_stream_bytes"] += pos
        sim.run(until=sim.elapsed() + 200000, quiesce=False)
        # the client node still works: a fresh datagram session to a good server
        sim.cmd("sess 0 1 udp %s" % SRV)
        sim.cmd("send 0 1 type=0 code=1 token=ca05 opts=11=72")
        sim.run(until=sim.elapsed() + 5000, quiesce=False)
        stats["canaries"] += 1
        ok = [e for e in sim.log if e["e"] == "rsp" and e.get("n") == 0 and e["tok"] == "ca05"
              and e["code"] == 69 and e.get("phex") == BODY.hex()]
        if not ok:
            run.violation("canary-failed/client-after-hostile-stream",
                          dict(wit, classes=sorted(classes)),
                          "after hostile responses on its TCP session the client context could "
                          "not complete a GET on a fresh session")
        evs, rc, err = w.close()
        if rc not in (0, None):
            s = common.sanitizer_signature(err) or common.valgrind_signature(err) or ("exit-rc%s" % rc)
            run.violation("client-stream/teardown/%s" % s, dict(wit, stderr=err[-3000:]),
                          err[-1500:])
        stats["scenarios"] += 1
        return classes
    except world.WorldCrash as e:
        wit["script"] = w.script[-150:]
        world.crash_violation(run, "client-stream", e, wit)
    finally:
        if not w.closed:
            w.close(kill=True)


WS_GUID = b"258EAFA5-E914-47DA-95CA-C5AB0DC85B11"


def ws_server_reply(r, request):
    """the HTTP answer of a (hostile) WebSocket server to the client's upgrade request:
    returns (class, bytes, handshake_is_valid)"""
    import base64
    import hashlib
    key = b""
    for line in request.split(b"\r\n"):
        if line.lower().startswith(b"sec-websocket-key:"):
            key = line.split(b":", 1)[1].strip()
    accept = base64.b64encode(hashlib.sha1(key + WS_GUID).digest())
    status = b"HTTP/1.1 101 Switching Protocols"
    hdrs = [b"Upgrade: websocket", b"Connection: Upgrade", b"Sec-WebSocket-Accept: " + accept,
            b"Sec-WebSocket-Protocol: coap"]
    y = r.random()
    if y < 0.45:
        return "valid", b"\r\n".join([status] + hdrs) + b"\r\n\r\n", True
    if y < 0.65:
        status = r.choice([b"HTTP/1.1", b"HTTP/1.1 ", b"HTTP/1.1\t", b"HTTP/1.1\t101", b"",
                           b" ", b"HTTP/1.1 101", b"HTTP/1.1  101  x", b"HTTP/1.0 101 OK",
                           b"HTTP/1.1 200 OK", b"HTTP/1.1 1010", b"HTTP/1.1 -101",
                           b"HTTP/1.1 99999999999999999999", b"HTTP/1.1 101" + b" x" * 200,
                           b"\x00HTTP/1.1 101", b"HTTP/1.1\x00 101", b"http/1.1 101 ok"])
        return "status-line", b"\r\n".join([status] + hdrs) + b"\r\n\r\n", False
    k = r.choice(["dup", "drop", "nocolon", "novalue", "badaccept", "long", "lf", "nul", "tab",
                  "empty-name", "order", "noend"])
    eol = b"\r\n"
    if k == "dup":
        hdrs.insert(r.randrange(len(hdrs)), r.choice(hdrs))
    elif k == "drop":
        hdrs.pop(r.randrange(len(hdrs)))
    elif k == "nocolon":
        i = r.randrange(len(hdrs))
        hdrs[i] = hdrs[i].replace(b":", b"")
    elif k == "novalue":
        i = r.randrange(len(hdrs))
        hdrs[i] = hdrs[i].split(b":")[0] + r.choice([b":", b": ", b":\t", b""])
    elif k == "badaccept":
        hdrs[2] = b"Sec-WebSocket-Accept: " + r.choice([b"", accept[:-1], accept + b"=",
                                                        accept * 3, b"A" * 300])
    elif k == "long":
        hdrs.insert(r.randrange(len(hdrs)), b"X-Long: " + b"v" * r.choice([60, 99, 100, 101, 250,
                                                                           1000, 5000]))
    elif k == "lf":
        eol = b"\n"
    elif k == "nul":
        i = r.randrange(len(hdrs))
        c = r.randrange(len(hdrs[i]))
        hdrs[i] = hdrs[i][:c] + b"\x00" + hdrs[i][c:]
    elif k == "tab":
        hdrs = [h.replace(b": ", b":\t", 1) for h in hdrs]
    elif k == "empty-name":
        hdrs.insert(r.randrange(len(hdrs)), r.choice([b": x", b" : x", b":", b" "]))
    elif k == "order":
        r.shuffle(hdrs)
    out = eol.join([status] + hdrs) + (b"" if k == "noend" else eol + eol)
    return "header-" + k, out, k in ("order", "tab")


def ws_hostile_frames(r):
    """frames a WebSocket server may throw at a client (server frames are unmasked)"""
    out = []
    classes = set()
    msgs = [cw.msg(0xE1)] + c05.gen_stream_messages(r, "client")
    for m in msgs:
        y = r.random()
        if y < 0.35:
            body, k = cw.encode(m, "ws"), "valid"
        elif y < 0.7:
            k, body = gen.mutate(r, m, "ws")
        else:
            body, k = gen.blind(r, "ws", maxlen=200), "blind"
        z = r.random()
        if z < 0.55:
            fr = cw.ws_frame(body)
        elif z < 0.62:
            fr, k = cw.ws_frame(body, mask=bytes(r.getrandbits(8) for _ in range(4))), "masked"
        elif z < 0.7:
            fr, k = cw.ws_frame(body, opcode=r.choice([0, 1, 3, 9, 10, 15])), "opcode"
        elif z < 0.78:
            fr, k = cw.ws_frame(body, fin=False), "fin0"
        elif z < 0.86:
            # a Close frame with 0, 1, 2 or more bytes of data
            fr, k = cw.ws_frame(body[:r.choice([0, 1, 2, 3, 40])], opcode=8), "close"
        else:
            # lying length: declares far more (or the 64-bit form) than the buffer takes
            n = r.choice([1473, 2000, 65535, 65536, 2 ** 31, 2 ** 63, 2 ** 64 - 1])
            hdr = bytes([0x82, 126]) + n.to_bytes(2, "big") if n < 65536 else \
                bytes([0x82, 127]) + n.to_bytes(8, "big")
            fr, k = hdr + body + bytes(r.getrandbits(8) for _ in range(r.choice([0, 30, 300]))), \
                "oversize"
        out.append(fr)
        classes.add(("client-ws", k))
    return b"".join(out), classes


def ws_client_scenario(exe, r, run, stats, idx):
    """a hostile WebSocket server: answers to a client's upgrade request, then frames"""
    w = new_world(exe, r.getrandbits(30))
    wit = {"kind": "client-ws", "scenario_seed": idx, "script": w.script}
    try:
        w.cmd("log %d" % r.choice([0, 7, 8]))
        w.cmd("node 0")
        w.cmd("node 1")
        w.cmd("ep 1 udp %s" % SRV)
        w.cmd("res 1 %s body=fixed:%s" % (b"r".hex(), BODY.hex()))
        sim = world.Sim(w, latency=1)
        sim.nodes = [0, 1]
        evs = sim.cmd("sess 0 0 ws 10.0.88.8:80")
        conn = [e["conn"] for e in evs if e["e"] == "tcp_connect"]
        reqb = b"".join(bytes.fromhex(e["b"]) for e in evs if e["e"] == "swrite")
        if not conn or not reqb:
            return None
        if r.random() < 0.5:
            sim.cmd("send 0 0 type=0 code=1 token=d1 opts=11=72")
        klass, reply, valid = ws_server_reply(r, reqb)
        classes = {("client-ws", klass)}
        data = reply
        if valid or r.random() < 0.3:
            fr, cl = ws_hostile_frames(r)
            data += fr
            classes |= cl
        pos = 0
        while pos < len(data):
            n = r.choice([1, 2, 5, 30, 300, len(data)])
            evs = sim.cmd("stream %d 1 %s" % (conn[0], data[pos:pos + n].hex()))
            pos += n
            if any(e["e"] == "closed" for e in evs):
                break
        if r.random() < 0.3:
            sim.cmd("stream_close %d 1" % conn[0])
        stats["hostile_stream_bytes"] += pos
        stats["ws_client_scenarios"] = stats.get("ws_client_scenarios", 0) + 1
        if any(e["e"] == "event" and e.get("code") == 0x7002 for e in sim.log):
            stats["ws_client_established"] = stats.get("ws_client_established", 0) + 1
        sim.run(until=sim.elapsed() + 200000, quiesce=False)
        sim.cmd("sess 0 1 udp %s" % SRV)
        sim.cmd("send 0 1 type=0 code=1 token=ca05 opts=11=72")
        sim.run(until=sim.elapsed() + 5000, quiesce=False)
        stats["canaries"] += 1
        ok = [e for e in sim.log if e["e"] == "rsp" and e.get("n") == 0 and e["tok"] == "ca05"
              and e["code"] == 69 and e.get("phex") == BODY.hex()]
        if not ok:
            run.violation("canary-failed/client-after-hostile-websocket-server",
                          dict(wit, classes=sorted(classes)),
                          "after a hostile WebSocket server the client context could not "
                          "complete a GET on a fresh session")
        evs, rc, err = w.close()
        if rc not in (0, None):
            s = common.sanitizer_signature(err) or common.valgrind_signature(err) or ("exit-rc%s" % rc)
            run.violation("client-ws/teardown/%s" % s, dict(wit, stderr=err[-3000:]),
                          err[-1500:])
        stats["scenarios"] += 1
        return classes
    except world.WorldCrash as e:
        wit["script"] = w.script[-150:]
        world.crash_violation(run, "client-ws", e, wit)
    finally:
        if not w.closed:
            w.close(kill=True)


# ------------------------------------------------------------------ coverage-guided part
# harness/fuzz.c: one libFuzzer input = one life of a server+client context in the closed
# world (datagrams from four peers, TCP and WebSocket streams, virtual time, notifications,
# traffic to a client session with an observation, a Block2 download and a Block1 upload in
# flight), sanitizers + libFuzzer's time-out + a canary request at the end.  The seed corpus is
# written here from the reference encoder; the mutations are libFuzzer's, steered by coverage.

def _fz_op(kind, arg=0, data=None):
    b = bytes([(arg << 3) | kind])
    if data is None:
        return b
    if len(data) < 255:
        return b + bytes([len(data)]) + data
    return b + b"\xff" + len(data).to_bytes(2, "big") + data


def fuzz_corpus(r):
    """seed inputs in the format of harness/fuzz.c"""
    from . import c05
    out = []
    tok = b"\xaa\x01"
    get = lambda path, extra=(), typ=0, mid=0x100: cw.encode(cw.msg(  # noqa: E731
        1, type=typ, mid=mid, token=tok, options=[(11, path)] + list(extra)), "udp")
    blk = lambda num, m, szx: cw.uint_bytes((num << 4) | (m << 3) | szx)  # noqa: E731
    for cfg in (0, 1, 2, 3, 4, 5, 7):
        out.append(bytes([cfg]) + _fz_op(0, 0, get(b"r")))
        out.append(bytes([cfg]) + _fz_op(0, 0, get(b"big")) + _fz_op(0, 0, get(
            b"big", [(23, blk(1, 0, 6))], mid=0x101)) + _fz_op(1, 6))
        out.append(bytes([cfg]) + _fz_op(0, 1, get(b"o", [(6, b"")])) + _fz_op(4) + _fz_op(1, 3) +
                   _fz_op(4) + _fz_op(0, 1, bytes([0x70, 0, 0, 1])) + _fz_op(1, 20))
        body = bytes(range(48))
        ups = b""
        for i in range(3):
            ups += _fz_op(0, 2, cw.encode(cw.msg(3, type=0, mid=0x200 + i, token=b"\xab", options=[
                (11, b"up"), (27, blk(i, 1 if i < 2 else 0, 0)), (60, b"\x30")],
                payload=body[16 * i:16 * i + 16]), "udp"))
        out.append(bytes([cfg]) + ups)
        out.append(bytes([cfg]) + _fz_op(0, 0, get(b".well-known", [(11, b"core"), (15, b"rt=sensor")])))
        out.append(bytes([cfg]) + _fz_op(6, 0, get(b"r", typ=1)) + _fz_op(1, 12))
        # the client session: an ACK, a notification and a block for its three exchanges
        out.append(bytes([cfg]) + _fz_op(5, 0, bytes([0x60, 0, 0, 1])) +
                   _fz_op(5, 0, cw.encode(cw.msg(0x45, type=1, mid=0x300, token=b"\xb1\x01",
                                                 options=[(6, b"\x05")], payload=b"7"), "udp")) +
                   _fz_op(5, 0, cw.encode(cw.msg(0x45, type=1, mid=0x301, token=b"\xb1\x02",
                                                 options=[(23, blk(0, 1, 2))], payload=bytes(64)),
                                          "udp")) +
                   _fz_op(5, 0, cw.encode(cw.msg(0x5f, type=1, mid=0x302, token=b"\xb1\x03",
                                                 options=[(27, blk(0, 1, 6))]), "udp")) +
                   _fz_op(1, 8))
    # streams: CSM + requests over TCP; WebSocket handshake + masked frames
    msgs = c05.gen_stream_messages(r, "server")[:4]
    st = b"".join(cw.encode(m, "tcp") for m in [cw.msg(0xE1)] + msgs)
    out.append(b"\x00" + _fz_op(2, 0, st))
    out.append(b"\x04" + _fz_op(2, 0, st[:7]) + _fz_op(2, 0, st[7:]) + _fz_op(7, 0))
    ws = c05.ws_handshake(r) + c05.ws_stream(r, msgs)
    out.append(b"\x00" + _fz_op(3, 0, ws[:200]) + _fz_op(3, 0, ws[200:]))
    # an OSCORE request for the server's fixed context (kid empty, any Partial IV): not
    # authentic, but the option and kid are right so that the OSCORE paths open up
    out.append(b"\x00" + _fz_op(0, 0, cw.encode(cw.msg(2, type=0, mid=0x400, token=b"\xac", options=[
        (9, b"\x09\x14")], payload=bytes(17)), "udp")))
    out.append(b"\x00" + _fz_op(0, 0, cw.encode(cw.msg(2, type=0, mid=0x401, token=b"\xac", options=[
        (9, b"\x19\x14\x03\x42\x01\x02")], payload=bytes(17)), "udp")))
    return out


def fuzz_part(run, tier):
    import glob
    import shutil
    import subprocess
    import tempfile
    wraps = [x for x in build.WORLD_WRAPS if x not in ("fopen", "fclose", "fwrite", "fread", "fgets",
                                                       "fflush", "fprintf", "rename", "remove")]
    exe = build.ensure_harness("fuzz", "fuzz", ["fuzz.c", "wraps.c"],
                               extra_cflags=["-fsanitize=fuzzer"], wraps=wraps)
    nproc, runs = (8, 25000) if tier == "quick" else (16, 1500000)
    top = tempfile.mkdtemp(prefix="vf-fuzz-", dir=build.build_root())
    env = dict(os.environ, ASAN_OPTIONS="detect_leaks=0:allocator_may_return_null=1:"
               "max_allocation_size_mb=512:abort_on_error=1", UBSAN_OPTIONS="print_stacktrace=1")
    procs = []
    try:
        seeds = fuzz_corpus(common.rng("c02-fuzz-corpus"))
        for i in range(nproc):
            cdir = os.path.join(top, "c%d" % i)
            adir = os.path.join(top, "a%d" % i)
            os.makedirs(cdir)
            os.makedirs(adir)
            for k, sd in enumerate(seeds):
                with open(os.path.join(cdir, "seed%03d" % k), "wb") as f:
                    f.write(sd)
            cmd = [exe, cdir, "-runs=%d" % runs, "-seed=%d" % (common.seed() * 100 + i + 1),
                   "-max_len=4096", "-timeout=30", "-rss_limit_mb=4096", "-len_control=50",
                   "-artifact_prefix=" + adir + "/", "-print_final_stats=1", "-verbosity=0"]
            procs.append((i, adir, subprocess.Popen(cmd, stdout=subprocess.DEVNULL,
                                                    stderr=subprocess.PIPE, env=env)))
        execs = 0
        cov = 0
        for i, adir, p in procs:
            try:
                _, err = p.communicate(timeout=600 if tier == "quick" else 5400)
            except subprocess.TimeoutExpired:
                p.kill()
                _, err = p.communicate()
                run.extra["fuzz_wallclock_cutoffs"] = run.extra.get("fuzz_wallclock_cutoffs", 0) + 1
                continue
            err = err.decode("latin1")
            m = re.search(r"number_of_executed_units:\s*(\d+)", err)
            if m:
                execs += int(m.group(1))
            arts = sorted(glob.glob(os.path.join(adir, "*")))
            if p.returncode != 0 or arts:
                data = open(arts[0], "rb").read() if arts else b""
                if "VF-CANARY" in err:
                    sig = "fuzz/canary-failed"
                elif arts and os.path.basename(arts[0]).startswith("timeout-"):
                    sig = "fuzz/timeout"
                elif arts and os.path.basename(arts[0]).startswith("oom-"):
                    sig = "fuzz/out-of-memory"
                else:
                    sig = "fuzz/sanitizer/" + (common.sanitizer_signature(err) or
                                               "exit-rc%s" % p.returncode)
                run.violation(sig, {"kind": "fuzz", "input_hex": data.hex(), "process": i,
                                    "libfuzzer_seed": common.seed() * 100 + i + 1,
                                    "stderr": err[-3000:]}, err[-1500:])
            cov = max(cov, len(glob.glob(os.path.join(top, "c%d" % i, "*"))))
        run.extra["fuzz_executions"] = execs
        run.extra["fuzz_corpus_seeds"] = len(seeds)
        run.extra["fuzz_corpus_grown_to"] = cov
        run.evaluations += execs
        run.require("fuzz_executions", execs, nproc * runs // 2)
    finally:
        for _, _, p in procs:
            if p.poll() is None:
                p.kill()
        shutil.rmtree(top, ignore_errors=True)


def work(job):
    exe, seeds, tier, memcheck = job
    MODE["memcheck"] = memcheck
    run = common.Run("C02", tier, "exploration")
    stats = dict(scenarios=0, hostile_datagrams=0, malformed_delivered=0, wellformed_delivered=0,
                 canaries=0, hostile_stream_bytes=0)
    seen = set()
    if memcheck:
        stats["memcheck_scenarios"] = 0
    for sd in seeds:
        if world.too_many_hangs():
            stats["scenarios_not_run_after_repeated_hangs"] = \
                stats.get("scenarios_not_run_after_repeated_hangs", 0) + 1
            continue
        if memcheck:
            stats["memcheck_scenarios"] += 1
        r = common.rng("c02-%d" % sd)
        k = sd % 10
        if k < 6:
            cl = udp_scenario(exe, r, run, stats, sd)
        elif k < 9:
            cl = stream_scenario(exe, r, run, stats, sd)
        elif sd % 20 == 9:
            cl = client_stream_scenario(exe, r, run, stats, sd)
        else:
            cl = ws_client_scenario(exe, r, run, stats, sd)
        seen |= set(cl or ())
    return stats, seen, run.export()


def main(tier):
    run = common.Run("C02", tier, "exploration")
    run.rule = ("server + client node with Block1 upload, Block2 download, observation, separate "
                "response and OSCORE exchange in progress (block modes incl. SINGLE_BODY and "
                "TRY_Q_BLOCK, MTU 128..1152, log level drawn from EMERG..OSCORE); 10..120 hostile "
                "datagrams per run to both nodes from spoofed and foreign addresses: syntax "
                "mutations of recorded traffic, well-formed field edits (Block/Q-Block NUM/M/SZX, "
                "Size1/2, Observe, ETag, Request-Tag, token, mid, type, code, OSCORE option, "
                "No-Response, Echo), bit flips, replays, blind strings up to 1472 bytes, with "
                "virtual-time jumps up to 400 s in between; hostile TCP and WebSocket streams "
                "(valid/mutated handshake, mutated and blind messages, lying length forms, "
                "frame opcodes, unmasked frames) cut into random reads on several connections; "
                "hostile responses on a client TCP session; a hostile WebSocket server (mutated "
                "status line and headers of the upgrade answer, then unmasked/masked frames, bad "
                "opcodes, FIN=0, Close frames with 0..n data bytes, lying lengths).  Oracles: ASan/UBSan silent, no abort, "
                "no hang (step budget + watchdog); a datagram the library's own parser rejects "
                "runs no request/response/ping/pong handler and draws at most one reply; canary "
                "GETs afterwards (fresh peer, abused client session, fresh TCP connection) are "
                "answered 2.05 with the body; a memcheck pass repeats the generators on the "
                "uninstrumented build under valgrind (uninitialised-value-dependent control flow); "
                "a coverage-guided pass (libFuzzer, clang ASan+UBSan build, harness/fuzz.c): one "
                "input is one life of a server+client context - datagrams from four peers, TCP and "
                "WebSocket streams, virtual time, notifications, traffic to a client session with "
                "an observation, a Block2 download and a Block1 upload in flight, an OSCORE "
                "Appendix B.2 server context - from a seed corpus written by the reference "
                "encoder, with the canary and libFuzzer's time-out as further oracles")
    run.assumptions = ["random exploration: held on the inputs that ran", "uninitialised reads are "
                       "judged by a valgrind memcheck pass over a smaller number of scenarios "
                       "(no MSan: GnuTLS is not instrumented)",
                       "leaks under hostile input are counted, not judged"]
    exe = build.ensure_world("asan")
    n = 3000 if tier == "quick" else 60000
    base = common.seed() * 1000000
    seeds = [base + i for i in range(n)]
    per = 12 if tier == "quick" else 40
    jobs = [(exe, seeds[i:i + per], tier, False) for i in range(0, len(seeds), per)]
    # memcheck pass: the same generators against the uninstrumented build under valgrind
    plain = build.ensure_world("plain")
    nm = 96 if tier == "quick" else 3000
    mseeds = [base + 500000 + i for i in range(nm)]
    jobs += [(plain, mseeds[i:i + 6], tier, True) for i in range(0, len(mseeds), 6)]
    tot = {}
    for st, seen, vios in common.parallel_map(work, jobs):
        for k, v in st.items():
            tot[k] = tot.get(k, 0) + v
        run.nontrivial |= seen
        run.merge(vios)
    run.evaluations = tot.get("hostile_datagrams", 0) + tot.get("scenarios", 0)
    fuzz_part(run, tier)
    run.extra.update(tot)
    run.sample({"kind": "udp", "hostile": "Block2 option of a recorded response rewritten to "
                "NUM=2^20-1 M=1 SZX=7, delivered to the client from the server's address"})
    run.require("hostile_datagrams", tot.get("hostile_datagrams", 0), 5000)
    run.require("malformed_delivered", tot.get("malformed_delivered", 0), 1000)
    run.require("wellformed_delivered", tot.get("wellformed_delivered", 0), 1000)
    run.require("canaries", tot.get("canaries", 0), 300)
    run.require("hostile_stream_bytes", tot.get("hostile_stream_bytes", 0), 20000)
    run.require("memcheck_scenarios", tot.get("memcheck_scenarios", 0), 60)
    run.require("ws_client_scenarios", tot.get("ws_client_scenarios", 0), 100)
    run.require("ws_client_established", tot.get("ws_client_established", 0), 30)
    return run.finish()
