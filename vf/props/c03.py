"""C03 - the decoder accepts exactly the well-formed messages and reports what
is on the wire.  Differential check of coap_pdu_parse() + accessors against
vf/refs/coapwire.py over generated, mutated, exhaustive-slice and blind inputs.
"""
import itertools

from .. import build, common, gen
from ..refs import coapwire as cw

PROTOS = ["udp", "tcp", "ws"]
CHUNK = 4000


def parse_dump(s):
    """'D t c m tok opts pay' -> msg dict"""
    f = s.split(" ")
    assert f[0] == "D" and len(f) == 7, s
    opts = []
    if f[5] != "-":
        for item in f[5].split(";"):
            k, v = item.split("=")
            opts.append((int(k), common.unhx(v)))
    return {"type": int(f[1]), "code": int(f[2]), "mid": int(f[3]),
            "token": common.unhx(f[4]), "options": opts, "payload": common.unhx(f[6])}


def slice_cases(lo, hi):
    """exhaustive option-area slices: index space = 256 (1 byte) + 65536 (2 bytes)
    [+ 2^24 (3 bytes)] after the fixed header 40 01 00 01"""
    out = []
    for i in range(lo, hi):
        if i < 256:
            b = bytes([i])
        elif i < 256 + 65536:
            b = (i - 256).to_bytes(2, "big")
        else:
            b = (i - 256 - 65536).to_bytes(3, "big")
        out.append(("slice%d" % len(b), "udp", b"\x40\x01\x00\x01" + b))
    return out


def delta_cases():
    """every 3-byte 0xE? hh ll delta encoding x running number {0, 12, 60000}
    x length nibble 0"""
    out = []
    for base in (0, 12, 60000):
        pre = cw.encode_options([(base, b"")]) if base else b""
        for hh in range(256):
            for ll in (0, 1, 0x7f, 0xf1, 0xf2, 0xf3, 0xfe, 0xff):
                out.append(("delta3", "udp", b"\x40\x01\x00\x01" + pre + bytes([0xE0, hh, ll])))
    return out


def optlen_cases():
    out = []
    for num, (lo, hi) in sorted(cw.OPT_LEN.items()):
        for ln in {lo - 1, lo, lo + 1, hi - 1, hi, hi + 1}:
            if ln < 0:
                continue
            for proto in PROTOS:
                m = cw.msg(1, mid=7, token=b"\x01", options=[(num, bytes([65] * ln))])
                out.append(("optlen", proto, cw.encode(m, proto)))
    for code, tab in cw.SIG_OPT_LEN.items():
        for num, (lo, hi) in tab.items():
            for ln in {lo - 1, lo, hi, hi + 1}:
                if ln < 0:
                    continue
                for proto in ("tcp", "ws"):
                    m = cw.msg(code, options=[(num, bytes([1] * ln))])
                    out.append(("sigoptlen", proto, cw.encode(m, proto)))
    return out


def truncation_cases(r, n):
    out = []
    for _ in range(n):
        proto = r.choice(PROTOS)
        m = gen.gen_message(r, proto, allow_huge=False)
        data = cw.encode(gen.strip(m), proto)
        if len(data) > 200:
            continue
        for cut in range(len(data)):
            d = data[:cut]
            if proto == "tcp" and d:
                d = gen.refit_tcp_len(d)
            out.append(("truncate-every", proto, d))
    return out


def random_cases(r, n):
    out = []
    for _ in range(n):
        proto = r.choice(PROTOS)
        x = r.random()
        if x < 0.25:
            m = gen.gen_message(r, proto)
            out.append(("valid", proto, cw.encode(gen.strip(m), proto)))
        elif x < 0.8:
            m = gen.gen_message(r, proto, allow_huge=r.random() < 0.1)
            kind, data = gen.mutate(r, m, proto)
            if r.random() < 0.2:
                # second mutation on top
                try:
                    st, mm = cw.verdict(data, proto)
                except Exception:
                    st = None
                if st == "accept":
                    mm["insert_order"] = mm["options"]
                    k2, data = gen.mutate(r, mm, proto)
                    kind = kind + "+" + k2
            out.append(("mut:" + kind, proto, data))
        else:
            out.append(("blind", proto, gen.blind(r, proto)))
    return out


def feature(m, proto):
    """coarse description of what is special about a well-formed message, used
    as the locus of a 'rejects-wellformed' signature"""
    nums = [n for n, _ in m["options"]]
    if 65535 in nums:
        return "option-65535"
    if m["code"] == 0:
        return "empty-message"
    if len(m["token"]) > 12:
        return "extended-token"
    if len(m["token"]) > 8:
        return "token-9..12"
    if m["code"] >= 0xE0:
        return "signalling-%s" % ("stream" if cw.is_stream(proto) else "datagram")
    if any(len(v) >= 269 for _, v in m["options"]):
        return "option-length>=269"
    if any(len(v) >= 13 for _, v in m["options"]):
        return "option-length>=13"
    for n, v in m["options"]:
        if n in cw.OPT_LEN:
            lo, hi = cw.OPT_LEN[n]
            if len(v) in (lo, hi):
                return "option-%d-length-limit" % n
    if len(m["payload"]) > 1152:
        return "large-payload"
    return "plain-" + proto


def judge(cls, proto, data, res):
    """returns (signature_for_coverage, violation or None)"""
    st, info = cw.verdict(data, proto)
    if res is None:
        return (cls, proto, st, "crash"), None
    f = res.split("|", 1)
    lib_accept = f[0] == "1"
    cov = (cls.split("+")[0], proto, st, info if st != "accept" else "ok")
    if st == "either":
        return cov, None
    if st == "reject":
        if lib_accept:
            return cov, ("accepts-malformed/%s" % info,
                         "reference rejects (%s) but coap_pdu_parse accepted: %s" % (info, f[1]))
        return cov, None
    if not lib_accept:
        return cov, ("rejects-wellformed/%s" % feature(info, proto),
                     "reference accepts %r but coap_pdu_parse rejected" % (info,))
    got = parse_dump(f[1])
    if got != info:
        diff = [k for k in info if got.get(k) != info[k]]
        return cov, ("decodes-differently/%s" % ",".join(diff),
                     "reference %r\nlibcoap   %r" % (info, got))
    return cov, None


def work(job):
    kind, arg, exe = job
    if kind == "random":
        r = common.rng("c03-%d" % arg[0])
        cases = random_cases(r, arg[1])
    elif kind == "slice":
        cases = slice_cases(*arg)
    elif kind == "delta":
        cases = delta_cases()
    elif kind == "optlen":
        cases = optlen_cases()
    elif kind == "trunc":
        r = common.rng("c03-trunc-%d" % arg[0])
        cases = truncation_cases(r, arg[1])
    n, cov, vios, crash_out, _ = work_cases(cases, exe)
    sample = None
    for (cls, proto, data) in cases[:1]:
        sample = {"class": cls, "proto": proto, "bytes": data.hex()[:120],
                  "reference": cw.verdict(data, proto)[0]}
    return n, cov, vios, crash_out, sample


def main(tier):
    run = common.Run("C03", tier, "exploration")
    run.rule = ("byte strings = valid encodings (generator) / one or two field mutations / "
                "exhaustive 1- and 2-byte option areas (thorough: stratified 3-byte area) / "
                "every truncation / option-length-table boundaries / blind; judged against "
                "vf/refs/coapwire.py; distinct_nontrivial = distinct (class, proto, reference "
                "verdict, reference reason) tuples seen")
    run.assumptions = ["vf/refs/coapwire.py is a faithful reading of RFC 7252 s3, RFC 8323, "
                       "RFC 8974 and the option length table (DESIGN.md appendix B); inputs in "
                       "its 'either' zones are executed but not judged",
                       "TCP inputs carry a consistent Len field (coap_pdu_parse does not "
                       "compare Len with the byte count; the stream reader is C05's subject)"]
    exe = build.ensure_harness("asan", "pure", ["pure.c", "pure_uri.c", "pure_wk.c"])
    jobs = []
    if tier == "quick":
        nrand, per = 80000, 5000
        slice_hi = 256 + 65536
    else:
        nrand, per = 3000000, 20000
        slice_hi = 256 + 65536
    for i in range(nrand // per):
        jobs.append(("random", (i, per), exe))
    step = 8192
    for lo in range(0, slice_hi, step):
        jobs.append(("slice", (lo, min(slice_hi, lo + step)), exe))
    if tier != "quick":
        # stratified part of the 2^24 three-byte option areas: first byte exhaustive,
        # (second, third) byte on a seed-shifted lattice -> 256 * 64 * 64 = 2^20 strings
        r = common.rng("c03-lattice")
        o2, o3 = r.randrange(4), r.randrange(4)
        base = 256 + 65536
        idx = [base + (a << 16) + (((b * 4 + o2) & 255) << 8) + ((c * 4 + o3) & 255)
               for a in range(256) for b in range(64) for c in range(64)]
        for k in range(0, len(idx), 16384):
            jobs.append(("slicelist", idx[k:k + 16384], exe))
    jobs.append(("delta", None, exe))
    jobs.append(("optlen", None, exe))
    for i in range(4 if tier == "quick" else 40):
        jobs.append(("trunc", (i, 60), exe))
    results = common.parallel_map(work_dispatch, jobs)
    accepted = rejected = 0
    for n, cov, vios, crashes, sample in results:
        run.evaluations += n
        for c, k in cov.items():
            run.nontrivial.add(c)
            if c[2] == "accept":
                accepted += k
            elif c[2] == "reject":
                rejected += k
            else:
                run.count("either_zone_inputs", k)
        for sig, w, text in vios:
            run.violation(sig, w, text)
        for sig, w in crashes:
            run.violation("sanitizer/" + sig, w, w.get("stderr", "")[-1200:])
        if sample:
            run.sample(sample)
    run.extra["reference_accepts"] = accepted
    run.extra["reference_rejects"] = rejected
    run.extra["exhaustive_slices"] = "all 1- and 2-byte option areas after header 40010001"
    run.require("reference_accepts", accepted, 1000)
    run.require("reference_rejects", rejected, 1000)
    return run.finish()


def work_dispatch(job):
    if job[0] == "slicelist":
        cases = []
        for i in job[1]:
            cases.extend(slice_cases(i, i + 1))
        return work_cases(cases, job[2])
    return work(job)


def case_line(p, d):
    if p == "tcp" and d:
        return "P parse:%s:len:%s cdump psize:tcp:%s" % (p, common.hx(d), common.hx(d[:8]))
    return "P parse:%s:len:%s cdump" % (p, common.hx(d))


def judge_framing(data, res):
    """stream framing: the size coap_pdu_parse_size() derives from the header must
    delimit exactly the bytes the reference says belong to the message"""
    if res is None or "|" not in res:
        return None
    parts = res.split("|")
    if len(parts) < 3:
        return None
    f = parts[2].split(" ")
    if len(f) != 2 or f[1] == "short":
        return None
    try:
        total = cw.tcp_frame_length(data[:8])
    except cw.Reject:
        return None
    if total is None:
        return None
    hs, size = int(f[0]), int(f[1])
    if hs + size != total:
        return ("stream-frame-size-differs/tkl-%d" % (data[0] & 15),
                "header %s: reference says the message occupies %d bytes, libcoap %d + %d"
                % (data[:8].hex(), total, hs, size))
    return None


def work_cases(cases, exe):
    lines = [case_line(p, d) for _, p, d in cases]
    results, crashes = common.run_batch(exe, lines)
    cov = {}
    vios = []
    for (cls, proto, data), res in zip(cases, results):
        c, v = judge(cls, proto, data, "|".join(res.split("|")[:2]) if res else res)
        cov[c] = cov.get(c, 0) + 1
        if v:
            vios.append((v[0], {"proto": proto, "bytes": data.hex(), "class": cls}, v[1]))
        if proto == "tcp" and data:
            v = judge_framing(data, res)
            if v:
                vios.append((v[0], {"proto": proto, "bytes": data.hex(), "class": cls}, v[1]))
    crash_out = []
    for cr in crashes:
        sig = common.sanitizer_signature(cr.stderr) or ("abort-rc%d" % cr.rc)
        w = {"stderr": cr.stderr[-3000:]}
        if cr.index >= 0:
            cls, proto, data = cases[cr.index]
            w.update({"proto": proto, "bytes": data.hex(), "class": cls})
        crash_out.append((sig, w))
    return len(cases), cov, vios, crash_out, None
