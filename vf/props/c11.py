"""C11 - observe: registered observers get fresh, ordered notifications until
cancelled.  Server node with observable resources in the closed world, raw
peers as observers with full control over ACK / RST / silence."""
from .. import build, common, world
from ..refs import coapwire as cw

EP = "10.0.0.1:5683"


LBODY = 300


def lpad(n):
    return (b"%d" % n + b"." * LBODY)[:LBODY]


def peer_addr(i):
    return "10.0.6.%d:%d" % (i + 1, 41000 + i)


def serial_gt(a, b):
    """RFC 7641 3.4 (24-bit serial numbers): a is fresher than b"""
    return (a > b and a - b < (1 << 23)) or (a < b and b - a > (1 << 23))


class Obs:
    def __init__(self, peer, res, query, tok, t):
        self.peer, self.res, self.query, self.tok = peer, res, query, tok
        self.registered_at = t
        self.dereg_at = None
        self.dereg_cause = None
        self.notifs = []        # (t, mid, type, observe, payload) distinct mids
        self.mids = {}          # mid -> first sent time


def scenario(exe, r, run, stats, witness):
    npeers = r.choice([1, 2, 3, 4])
    nsteps = r.choice([10, 25, 50, 90])
    w = world.World(exe, seed=r.getrandbits(30))
    sim = world.Sim(w, latency=r.choice([1, 5, 40]))
    witness["script"] = w.script
    # half of the runs: resource "L" whose state is larger than one block (counter padded to
    # LBODY bytes, path MTU 128): a notification carries block 0, the observer fetches the
    # rest with plain Block2 requests (RFC 7959 2.6)
    big = r.random() < 0.5
    kw = {"srv_mtu": 128, "block_mode": 1} if big else {}
    sim.add_node(0, session_timeout=r.choice([5, 300]), **kw)
    sim.cmd("ep 0 udp %s" % EP)
    resources = {"o": 0, "p": 0, "c": 2}
    for name, flags in resources.items():
        sim.cmd("res 0 %s body=counter obs=1%s" % (name.encode().hex(),
                                                     " flags=%d" % flags if flags else ""))
    if big:
        resources["L"] = 0
        sim.cmd("res 0 %s body=cpad:%d large=1 obs=1" % (b"L".hex(), LBODY))
    fetches = {}           # fetch token -> state of one body being collected by a peer
    counter = dict((k, 0) for k in resources)
    deleted = set()
    obs = {}                 # (peer, res, query) -> current Obs
    allobs = []
    by_tok = {}              # (peer, tokhex) -> Obs
    rst_next = {}            # peer -> "latest" | "older"
    silent = set()
    pending_reg = {}         # (peer, tokhex) -> (res, query)
    pending_dereg = {}       # mid of the Observe=1 request -> Obs
    last_notif_mid = {}      # (peer, tok) -> mid
    prev_notif_mid = {}
    faultr = common.rng("c11f-%d" % r.getrandbits(30))
    ploss = r.choice([0, 0, 0.1, 0.25])

    def fault(sm, i, ev):
        b = bytes.fromhex(ev["b"])
        x = faultr.random()
        if x < ploss:
            return []
        if x < ploss * 1.5:
            return [(sm.latency, b), (sm.latency + 7, b)]
        return None
    sim.fault = fault
    if r.random() < 0.25:
        # one datagram write of the server fails with ENOBUFS
        sim.cmd("failsend %d" % r.choice([1, 2, 3, 4, 5, 7, 9, 12, 16, 22, 30]))

    def on_event(sm, ev):
        k = ev["e"]
        t = ev.get("t", sm.now)
        if k in ("wire", "wirefail") and ev["from"] == EP:
            # (a write the socket refused - failsend - is a message the server produced and
            # the network lost)
            if k == "wirefail":
                stats["failed_writes"] = stats.get("failed_writes", 0) + 1
            try:
                m = cw.decode(bytes.fromhex(ev["b"]), "udp")
            except Exception:
                return
            peer = ev["to"]
            tokh = m["token"].hex()
            o6 = [v for n, v in m["options"] if n == 6]
            if m["type"] == 2 and (peer, tokh) in pending_reg and m["code"] != 0:
                res, q = pending_reg.pop((peer, tokh))
                if m["code"] == 0x45 and o6:
                    key = (peer, res, q)
                    old = obs.get(key)
                    if old is not None and old.tok != tokh and old.dereg_at is None:
                        old.dereg_at, old.dereg_cause = t, "replaced-by-re-registration"
                    if old is not None and old.tok == tokh and old.dereg_at is None:
                        ob = old
                    else:
                        ob = Obs(peer, res, q, tokh, t)
                        obs[key] = ob
                        allobs.append(ob)
                        by_tok[(peer, tokh)] = ob
                        stats["registrations"] += 1
                    val = int.from_bytes(o6[0], "big") if o6[0] else 0
                    ob.notifs.append((t, m["mid"], 2, val, m["payload"]))
                    # (a piggybacked reply carries the PEER's message id: it is not entered in
                    # ob.mids, the server's own ids used for notifications may equal it)
                elif m["code"] >= 0x80:
                    # an error response to a registration refresh (same token): the client is
                    # told the observation is over
                    old = by_tok.get((peer, tokh))
                    if old is not None and old.dereg_at is None:
                        old.dereg_at = t
                        old.dereg_cause = "error-response-to-refresh-%d.%02d" % (
                            m["code"] >> 5, m["code"] & 31)
                        stats["refresh_answered_with_error"] = \
                            stats.get("refresh_answered_with_error", 0) + 1
                return
            ob = by_tok.get((peer, tokh))
            if m["type"] == 2 and m["mid"] in pending_dereg and m["code"] != 0:
                d = pending_dereg.pop(m["mid"])
                if d.dereg_at is None:
                    d.dereg_at, d.dereg_cause = t, "observe-1-request"
                return
            if ob is None:
                return
            if m["code"] >= 0x80 and ob.dereg_at is None:
                ob.dereg_at, ob.dereg_cause = t, "error-response-%d.%02d" % (m["code"] >> 5,
                                                                              m["code"] & 31)
                return
            if m["type"] in (0, 1) and o6 and m["code"] == 0x45:
                if m["mid"] in ob.mids:
                    return            # retransmission of a notification
                if k == "wirefail":
                    # first write refused: coap_send() failed, nothing left the server; the
                    # library marks the observer dirty and notifies again (same state, so
                    # possibly the same Observe value under a new message id)
                    stats["notifications_refused_by_socket"] = \
                        stats.get("notifications_refused_by_socket", 0) + 1
                    return
                ob.mids[m["mid"]] = t
                val = int.from_bytes(o6[0], "big") if o6[0] else 0
                ob.notifs.append((t, m["mid"], m["type"], val, m["payload"]))
                stats["notifications"] += 1
                prev_notif_mid[(peer, tokh)] = last_notif_mid.get((peer, tokh))
                last_notif_mid[(peer, tokh)] = m["mid"]
        elif k == "rx" and ev["to"] == EP:
            b = bytes.fromhex(ev["b"])
            if len(b) >= 4 and (b[0] >> 4) & 3 == 3:
                mid = (b[2] << 8) | b[3]
                peer = ev["from"]
                for ob in allobs:
                    if ob.peer == peer and mid in ob.mids and ob.dereg_at is None:
                        latest = last_notif_mid.get((peer, ob.tok)) == mid
                        ob.dereg_at = t
                        ob.dereg_cause = "reset-to-latest-notification" if latest else \
                            "reset-to-older-notification"
        elif k == "nack" and ev.get("n") == 0 and ev.get("reason") == 0:
            # a Confirmable notification was given up
            for ob in allobs:
                if ob.tok == ev.get("tok") and ev.get("cbmid") in ob.mids and ob.dereg_at is None:
                    ob.dereg_at, ob.dereg_cause = t, "failed-confirmable-notification"
    sim.on_event.append(on_event)

    def mkpeer(i):
        addr = peer_addr(i)

        def peer(sm, frm, to, data):
            try:
                m = cw.decode(data, "udp")
            except Exception:
                return
            is_notif = m["type"] in (0, 1) and m["code"] == 0x45 and \
                any(n == 6 for n, _ in m["options"])
            b2 = [v for n, v in m["options"] if n == 23]
            if b2 and m["code"] == 0x45:
                v = int.from_bytes(b2[0], "big") if b2[0] else 0
                num, more, szx = v >> 4, (v >> 3) & 1, v & 7
                etag = tuple(x for n, x in m["options"] if n == 4)
                th = m["token"].hex()
                f = fetches.get((addr, th))
                if f is None and num == 0 and more and i not in silent and r.random() < 0.8:
                    # first block of a body (notification or registration reply): collect it
                    seq[0] += 1
                    ft = bytes([0xF0 + i, seq[0] & 255, seq[0] >> 8])
                    f = {"parts": [m["payload"]], "etag": etag, "szx": szx, "t0": sm.now,
                         "observe": any(n == 6 for n, _ in m["options"])}
                    fetches[(addr, ft.hex())] = f
                    th = ft.hex()
                elif f is not None and num == len(f["parts"]):
                    if etag != f["etag"]:
                        f["abandoned"] = "etag-changed"
                        more = 0
                    else:
                        f["parts"].append(m["payload"])
                    if not more and "abandoned" not in f:
                        f["done"] = sm.now
                else:
                    f = None
                if f is not None and more and "abandoned" not in f:
                    seq[0] += 1
                    nv = (len(f["parts"]) << 4) | f["szx"]
                    rq = cw.msg(1, type=0, mid=(0x5800 + seq[0]) & 0xffff,
                                token=bytes.fromhex(th), options=[
                                    (11, b"L"), (23, nv.to_bytes((nv.bit_length() + 7) // 8,
                                                                 "big"))])
                    sm.inject(to, frm, cw.encode(rq, "udp"), 2)
                    stats["block_fetches"] = stats.get("block_fetches", 0) + 1
            if is_notif and i in rst_next:
                which = rst_next.pop(i)
                mid = m["mid"]
                if which == "older":
                    pm = prev_notif_mid.get((addr, m["token"].hex()))
                    if pm is None:
                        return
                    mid = pm
                    if m["type"] == 0:
                        sm.inject(to, frm, bytes([0x60, 0, m["mid"] >> 8, m["mid"] & 255]), 1)
                sm.inject(to, frm, bytes([0x70, 0, mid >> 8, mid & 255]), 1)
                return
            if m["type"] == 0 and i not in silent:
                sm.inject(to, frm, bytes([0x60, 0, m["mid"] >> 8, m["mid"] & 255]), 1)
        return peer

    for i in range(npeers):
        sim.peers[peer_addr(i)] = mkpeer(i)
    seq = [0]

    def send_req(i, res, q, observe, tok=None):
        seq[0] += 1
        tok = tok or bytes([0xB0 + i, seq[0] & 255, seq[0] >> 8])
        opts = [(11, res.encode())]
        if q:
            opts.append((15, q))
        if observe is not None:
            opts.append((6, bytes([observe]) if observe else b""))
        if res == "L" and observe == 0 and r.random() < 0.5:
            # early negotiation (RFC 7959 2.4): the observer names the block size it wants,
            # not always the same one
            opts.append((23, bytes([r.choice([1, 2, 2, 3])])))
            stats["registrations_with_block2"] = stats.get("registrations_with_block2", 0) + 1
        mid = (0x5000 + seq[0]) & 0xffff
        m = cw.msg(1, type=0, mid=mid, token=tok, options=opts)
        if observe == 0:
            pending_reg[(peer_addr(i), tok.hex())] = (res, q)
        sim.inject(peer_addr(i), EP, cw.encode(m, "udp"))
        return tok, mid

    for step in range(nsteps):
        x = r.random()
        i = r.randrange(npeers)
        live = [o for o in allobs if o.dereg_at is None]
        if x < 0.22:
            res = r.choice([k for k in resources if k not in deleted] or ["o"])
            q = r.choice([b"", b"", b"x=1"])
            key = (peer_addr(i), res, q)
            cur = obs.get(key)
            tok = None
            if cur is not None and cur.dereg_at is None and r.random() < 0.4:
                tok = bytes.fromhex(cur.tok)          # re-register with the same token
            send_req(i, res, q, 0, tok)
        elif x < 0.62:
            res = r.choice([k for k in resources if k not in deleted] or ["o"])
            for _ in range(r.choice([1, 1, 1, 2, 4])):
                counter[res] += 1
                sim.cmd("notify 0 %s" % res)
                stats["changes"] += 1
        elif x < 0.70 and live:
            o = r.choice(live)
            pi = [k for k in range(npeers) if peer_addr(k) == o.peer][0]
            tok, mid = send_req(pi, o.res, o.query, 1, bytes.fromhex(o.tok))
            pending_dereg[mid] = o
        elif x < 0.78:
            rst_next[i] = r.choice(["latest", "latest", "older"])
        elif x < 0.82:
            silent.add(i)
        elif x < 0.85:
            silent.discard(i)
        elif x < 0.92 and x >= 0.87 and [o for o in live if o.res not in deleted]:
            # the resource answers with an error for a while; an observer refreshes its
            # registration (same token) in that time
            o = r.choice([o for o in live if o.res not in deleted])
            pi = [k for k in range(npeers) if peer_addr(k) == o.peer][0]
            sim.cmd("resmod 0 %s code=%d" % (o.res.encode().hex(), r.choice([163, 160, 132, 129])))
            send_req(pi, o.res, o.query, 0, bytes.fromhex(o.tok))
            sim.run(until=sim.elapsed() + r.choice([10, 100, 2500]), quiesce=False)
            sim.cmd("resmod 0 %s code=-1" % o.res.encode().hex())
        elif x < 0.87 and len(deleted) < 1:
            res = r.choice(["p"])
            sim.cmd("delres 0 %s" % res.encode().hex())
            deleted.add(res)
            for o in allobs:
                if o.res == res and o.dereg_at is None:
                    o.dereg_at, o.dereg_cause = sim.now, "resource-deleted"
        dt = r.choice([1, 10, 100, 2500]) if r.random() < 0.8 else r.choice([6000, 100000])
        sim.run(until=sim.elapsed() + dt, quiesce=False)
        stats["steps"] += 1
    # let everything settle: ACKs deliverable, no more loss
    sim.fault = None
    silent.clear()
    rst_next.clear()
    sim.run(until=sim.elapsed() + 400000, quiesce=False)
    # ---------------- judge
    for o in allobs:
        wv = dict(witness, observer={"peer": o.peer, "res": o.res, "query": o.query.hex(),
                                      "token": o.tok, "dereg": o.dereg_cause})
        vals = [n[3] for n in o.notifs]
        last_notif = None
        last_reply = None
        bad = False
        for n in o.notifs:
            if n[2] == 2:
                # reply to a (re-)registration: carries the current value
                if last_notif is not None and serial_gt(last_notif, n[3]):
                    bad = True
                last_reply = n[3]
            else:
                if last_notif is not None and not serial_gt(n[3], last_notif):
                    bad = True
                if last_reply is not None and serial_gt(last_reply, n[3]):
                    bad = True
                last_notif = n[3]
        if bad:
            run.violation("observe-value-not-increasing", wv,
                          "observer %s token %s: (type, Observe) sequence %r" %
                          (o.peer, o.tok, [(n[2], n[3]) for n in o.notifs]))
        types = [n[2] for n in o.notifs if n[2] != 2]
        runlen = 0
        for ty in types:
            runlen = runlen + 1 if ty == 1 else 0
            if runlen >= 6:
                run.violation("six-consecutive-non-notifications", wv,
                              "observer %s token %s: notification types %r" %
                              (o.peer, o.tok, types))
                break
        if o.dereg_at is not None:
            stats["dereg_" + o.dereg_cause.split("-")[0]] = \
                stats.get("dereg_" + o.dereg_cause.split("-")[0], 0) + 1
            late = [n for n in o.notifs if n[0] > o.dereg_at and n[2] != 2]
            if late:
                run.violation("notification-after-deregistration/%s" % o.dereg_cause, wv,
                              "observer %s token %s deregistered at %d (%s) but new "
                              "notifications were sent at %r" %
                              (o.peer, o.tok, o.dereg_at, o.dereg_cause,
                               [n[0] for n in late][:5]))
        else:
            stats["still_registered"] += 1
            if o.res in deleted:
                continue
            want = str(counter[o.res]).encode()
            if o.res == "L" and o.notifs and o.notifs[-1][4]:
                want = lpad(counter["L"])[:len(o.notifs[-1][4])]     # (its first block)
            if not o.notifs or o.notifs[-1][4] != want:
                run.violation("last-state-not-notified", wv,
                              "observer %s token %s still registered; resource state %r, last "
                              "notification carried %r" %
                              (o.peer, o.tok, want, o.notifs[-1][4] if o.notifs else None))
    # bodies the observers collected block by block: every block from one representation
    # (same ETag) - the pieces then are that representation
    for (paddr, ft), f in fetches.items():
        if "done" not in f:
            stats["bodies_not_completed"] = stats.get("bodies_not_completed", 0) + 1
            continue
        stats["bodies_collected"] = stats.get("bodies_collected", 0) + 1
        got = b"".join(f["parts"])
        digits = got.split(b".")[0]
        if not digits.isdigit() or got != lpad(int(digits)):
            run.violation("block-wise-notification-body-mixed", dict(witness, peer=paddr),
                          "observer %s collected, under one ETag, a body that is no state the "
                          "resource ever had: %r" % (paddr, got))
    sig = (npeers, nsteps, ploss, sim.latency, big,
           tuple(sorted(set(o.dereg_cause for o in allobs if o.dereg_cause))))
    return w, sig


def tcp_case(exe, r, run, stats, witness):
    """observers on TCP connections: notifications in order while the connection lives; the
    connection going away (peer closes) is session loss - the observation ends with it, later
    changes notify the remaining observers only, and a new connection registers afresh"""
    w = world.World(exe, seed=r.getrandbits(30))
    witness["script"] = w.script
    tcp_ep = "10.0.0.1:5683"
    w.cmd("node 0")
    w.cmd("ep 0 tcp %s" % tcp_ep)
    w.cmd("ep 0 udp %s" % EP)
    w.cmd("res 0 %s body=counter obs=1" % b"o".hex())
    nconn = r.choice([1, 2, 3])
    conns = {}
    counter = 0
    out = {}          # conn -> bytes the server wrote

    sess_events = []

    def feed(evs):
        for e in evs:
            if e["e"] == "swrite":
                out[e["conn"]] = out.get(e["conn"], b"") + bytes.fromhex(e["b"])
            elif e["e"] == "event" and e["code"] in (0x4001, 0x4002):
                sess_events.append((e["code"], e["sess"], e.get("remote")))
        return evs

    def notifs(c):
        msgs, _rest = cw.split_tcp_stream(out.get(c, b""))
        res = []
        for raw in msgs:
            try:
                m = cw.decode(raw, "tcp")
            except Exception:
                continue
            o6 = [v for n, v in m["options"] if n == 6]
            if m["code"] == 0x45 and o6 and m["token"] == conns[c]["tok"]:
                res.append((int.from_bytes(o6[0], "big") if o6[0] else 0, m["payload"]))
        return res

    for c in range(nconn):
        conn = 70 + c
        tok = bytes([0xD0 + c, 1])
        conns[conn] = {"tok": tok, "open": True, "closed_after": None}
        feed(w.cmd("tcp_accept %s 10.0.66.%d:5000 conn=%d" % (tcp_ep, c + 1, conn)))
        reg = cw.encode(cw.msg(0xE1), "tcp") + cw.encode(
            cw.msg(1, token=tok, options=[(6, b""), (11, b"o")]), "tcp")
        feed(w.cmd("stream %d 0 %s" % (conn, reg.hex())))
    for step in range(r.choice([4, 8, 15])):
        x = r.random()
        live = [c for c in conns if conns[c]["open"]]
        if x < 0.6 or not live:
            counter += 1
            feed(w.cmd("notify 0 o"))
            feed(w.cmd("prepare 0"))
        elif x < 0.8:
            c = r.choice(live)
            conns[c]["open"] = False
            conns[c]["closed_after"] = len(notifs(c))
            conns[c]["len_at_close"] = len(out.get(c, b""))
            feed(w.cmd("stream_close %d 0" % c))
            feed(w.cmd("prepare 0"))
            stats["tcp_sessions_lost"] = stats.get("tcp_sessions_lost", 0) + 1
        else:
            feed(w.cmd("advance %d" % r.choice([10, 3000, 400000])))
            feed(w.cmd("prepare 0"))
    counter += 1
    feed(w.cmd("notify 0 o"))
    feed(w.cmd("prepare 0"))
    feed(w.cmd("advance 5000"))
    feed(w.cmd("prepare 0"))
    for c, st in conns.items():
        ns = notifs(c)
        stats["tcp_notifications"] = stats.get("tcp_notifications", 0) + len(ns)
        wv = dict(witness, conn=c, token=st["tok"].hex())
        vals = [v for v, _ in ns]
        if any(not serial_gt(b, a) for a, b in zip(vals[1:], vals[2:])):
            run.violation("observe-value-not-increasing/tcp", wv, "Observe values %r" % vals)
        if st["open"]:
            if not ns or ns[-1][1] != str(counter).encode():
                run.violation("last-state-not-notified/tcp", wv,
                              "connection open, resource state %d, last notification %r" %
                              (counter, ns[-1] if ns else None))
        elif len(out.get(c, b"")) != st["len_at_close"]:
            run.violation("notification-after-deregistration/session-loss", wv,
                          "bytes written to the connection after the peer had closed it")
    # one session-new event per accepted connection, one session-deleted event per lost one
    # (C12's clause, for stream sessions), none for a connection that is still open
    news = [x for x in sess_events if x[0] == 0x4001]
    dels = [x for x in sess_events if x[0] == 0x4002]
    lost = sum(1 for c in conns.values() if not c["open"])
    if len(news) != nconn or len(set(x[1] for x in news)) != nconn or len(dels) != lost or \
            len(set(x[1] for x in dels)) != lost or not set(x[1] for x in dels) <= \
            set(x[1] for x in news):
        run.violation("session-events-do-not-match-connections/tcp", witness,
                      "%d connections accepted, %d closed by the peer; session events "
                      "(code, session, remote): %r" % (nconn, lost, sess_events))
    return w, ("tcp", nconn, lost)


def work(job):
    items, exe = job
    run = common.Run("C11", "quick", "exploration")
    stats = dict(registrations=0, notifications=0, changes=0, steps=0, still_registered=0)
    sigs = set()
    n = 0
    for it in items:
        r = common.rng("c11-%d" % it)
        witness = {"item": it, "seed": common.seed()}
        w = None
        try:
            if it % 10 == 9:
                w, sig = tcp_case(exe, r, run, stats, witness)
            else:
                w, sig = scenario(exe, r, run, stats, witness)
            sigs.add(sig)
            world.teardown_check(run, "C11", w, witness)
        except world.WorldCrash as e:
            world.crash_violation(run, "C11", e, {"item": it, "seed": common.seed()})
        except common.Inconclusive:
            stats["inconclusive"] = stats.get("inconclusive", 0) + 1
        finally:
            if w is not None and not w.closed:
                w.close(kill=True)
        n += 1
    return n, sigs, run.export(), stats


def main(tier):
    run = common.Run("C11", tier, "exploration")
    run.rule = ("histories of register / change (bursts between I/O steps) / cancel by Observe=1 / "
                "Reset to the latest or to an older notification / silent peer (failed CON "
                "notification) / resource deletion / re-registration with the same or a new token "
                "(one case in ten: 1-3 observers on TCP connections, some of which the peer closes - session loss) "
                "by 1..4 raw observers on 3 resources (half of the runs a fourth whose state is larger than "
                "one block: notifications carry block 0, observers fetch the rest) with and without query (default and "
                "NOTIFY_CON mode), with loss and duplication of datagrams and virtual-time jumps; "
                "distinct_nontrivial = distinct (peers, length, loss, latency, deregistration "
                "causes seen)")
    run.assumptions = ["deregistration counts from the instant the server has processed its cause",
                       "retransmissions of a notification first sent before the deregistration "
                       "and the final non-2.xx response are not judged",
                       "freshness is judged after a 400 s loss-free settle phase"]
    exe = build.ensure_world("asan")
    total = 2000 if tier == "quick" else 30000
    chunk = 8
    jobs = [(list(range(i, min(total, i + chunk))), exe) for i in range(0, total, chunk)]
    stats = {}
    for n, sigs, vios, st in common.parallel_map(work, jobs):
        run.evaluations += n
        run.nontrivial |= sigs
        run.merge(vios)
        for k, v in st.items():
            stats[k] = stats.get(k, 0) + v
    run.extra.update(stats)
    run.sample({"example": "2 observers, 25 steps: register o, change x3, Reset to latest, "
                           "re-register with new token, change, Observe=1"})
    run.require("notifications", stats.get("notifications", 0), 3000)
    run.require("registrations", stats.get("registrations", 0), 500)
    run.require("still_registered", stats.get("still_registered", 0), 100)
    run.require("bodies_collected_block_by_block", stats.get("bodies_collected", 0), 100)
    run.require("tcp_sessions_lost", stats.get("tcp_sessions_lost", 0), 20)
    run.require("tcp_notifications", stats.get("tcp_notifications", 0), 100)
    return run.finish()
