"""C09 - block-wise transfer delivers the sender's body intact, once, or fails
explicitly.  Client node <-> server node in the closed world, libcoap doing the
block-wise transfer on both sides; byte-exact body oracle over what the
handlers obtain from coap_get_data_large()."""
import itertools

from .. import build, common, world
from ..refs import coapwire as cw

SERVER = "10.0.0.2:5683"
_bodies = {}


def gen_body(seed, n):
    k = (seed, n)
    if k in _bodies:
        return _bodies[k]
    out = bytearray(n)
    for i in range(n):
        x = (i * 2654435761 + seed * 40503) & 0xffffffff
        x ^= x >> 15
        x = (x * 2246822519) & 0xffffffff
        x ^= x >> 13
        out[i] = (x ^ (i >> 8)) & 0xff
    if len(_bodies) > 64:
        _bodies.clear()
    _bodies[k] = bytes(out)
    return _bodies[k]


def fnv64(b):
    h = 1469598103934665603
    for c in b:
        h ^= c
        h = (h * 1099511628211) & 0xffffffffffffffff
    return "%016x" % h


class Transfer:
    def __init__(self, kind, tok, length, seed, typ):
        self.kind, self.tok, self.length, self.seed, self.typ = kind, tok, length, seed, typ
        self.body = gen_body(seed, length)


def setup(exe, seed, cfg):
    w = world.World(exe, seed=seed)
    sim = world.Sim(w, latency=cfg.get("latency", 3))
    cm = 1 | (2 if cfg["client_single"] else 0)
    sm = 1 | (2 if cfg["server_single"] else 0)
    ckw = {"block_mode": cm}
    skw = {"block_mode": sm}
    if cfg.get("client_maxblk"):
        ckw["max_block"] = cfg["client_maxblk"]
    if cfg.get("server_maxblk"):
        skw["max_block"] = cfg["server_maxblk"]
    if cfg.get("server_mtu"):
        skw["srv_mtu"] = cfg["server_mtu"]
    sim.add_node(0, **ckw)
    sim.add_node(1, **skw)
    sim.cmd("ep 1 udp %s" % SERVER)
    sim.cmd("res 1 %s store=1" % b"up".hex())
    for t in cfg["transfers"]:
        if t.kind == "get":
            sim.cmd("res 1 %s body=gen:%d:%d large=1" % (("d%s" % t.tok.hex()).encode().hex(),
                                                         t.length, t.seed))
    extra = ""
    if cfg.get("client_mtu"):
        extra += " mtu=%d" % cfg["client_mtu"]
    sim.cmd("sess 0 0 udp %s nstart=%d%s" % (SERVER, cfg.get("nstart", 1), extra))
    return w, sim


def start(sim, t):
    if t.kind == "put":
        sim.cmd("send 0 0 type=%d code=%d token=%s opts=11=%s,12=2a large=%d:%d" %
                (t.typ, t.method, t.tok.hex(), b"up".hex(), t.length, t.seed))
    else:
        sim.cmd("send 0 0 type=%d code=1 token=%s opts=11=%s" %
                (t.typ, t.tok.hex(), ("d%s" % t.tok.hex()).encode().hex()))


def rawput_case(exe, it, run, stats):
    """a sender that is not libcoap uploads a body with Block1 to a libcoap server, loss-free
    and in order: Size1 on the first block, on every block, or (it is optional: RFC 7959 4)
    never; the receiving application gets the exact body once (single-body mode) or blocks
    that tile it (per-block mode)"""
    r = common.rng("c09-rawput-%d" % it)
    szx = r.choice([0, 0, 1, 2, 4, 6])
    bs = 16 << szx
    nblk = r.choice([1, 2, 2, 3, 3, 5, 9])
    blen = (nblk - 1) * bs + r.choice([1, bs // 2, bs - 1, bs]) if nblk > 1 else \
        r.choice([1, bs // 2, bs])
    size1 = r.choice(["never", "never", "first", "all"])
    single = r.random() < 0.7
    typ = r.choice([0, 0, 1])
    method = r.choice([2, 3])
    body = gen_body(r.randint(1, 10 ** 6), blen)
    tok = bytes([0xFC, r.getrandbits(8)])
    peer = "10.0.7.%d:40000" % (1 + it % 200)
    w = world.World(exe, seed=r.getrandbits(30))
    sim = world.Sim(w, latency=2)
    witness = {"kind": "rawput", "item": it, "szx": szx, "body_len": blen, "size1": size1,
               "single_body": single, "type": typ, "script": w.script}
    try:
        sim.cmd("fullpayload 1")
        sim.add_node(1, block_mode=3 if single else 1)
        sim.cmd("ep 1 udp %s" % SERVER)
        sim.cmd("res 1 %s store=1" % b"rp".hex())
        state = {"i": 0, "replies": []}
        nb = (blen + bs - 1) // bs

        def send_block(sm, i):
            more = 1 if i < nb - 1 else 0
            v = (i << 4) | (more << 3) | szx
            opts = [(11, b"rp"), (27, v.to_bytes((v.bit_length() + 7) // 8, "big") if v else b"")]
            if size1 == "all" or (size1 == "first" and i == 0):
                opts.append((60, blen.to_bytes((blen.bit_length() + 7) // 8, "big")))
            m = cw.msg(method, type=typ, mid=0x5100 + i, token=tok, options=opts,
                       payload=body[i * bs:(i + 1) * bs])
            sm.inject(peer, SERVER, cw.encode(m, "udp"))

        def on_reply(sm, frm, to, data):
            try:
                m = cw.decode(data, "udp")
            except Exception:
                return
            state["replies"].append(m)
            if m["code"] == 0x5F and state["i"] < nb - 1:
                state["i"] += 1
                send_block(sm, state["i"])
        sim.peers[peer] = on_reply
        send_block(sim, 0)
        sim.run(horizon=60000)
        reqs = [e for e in sim.log if e["e"] == "req" and e.get("n") == 1 and e["res"] == "rp"]
        stats["raw_uploads"] = stats.get("raw_uploads", 0) + 1
        loc = "rawput/%s/size1-%s" % ("single-body" if single else "per-block", size1)
        if single:
            good = [e for e in reqs if e.get("plen", -1) == blen and e.get("poff", 0) == 0 and
                    bytes.fromhex(e.get("phex", "")) == body]
            bad = [e for e in reqs if e not in good]
            if bad:
                run.violation("delivered-bytes-differ-from-body/%s" % loc, witness,
                              "the application was handed %r (length, offset, total) for a "
                              "%d-byte body sent in %d blocks of %d" %
                              ([(e.get("plen"), e.get("poff"), e.get("ptot")) for e in bad],
                               blen, nb, bs))
            if len(good) != 1:
                run.violation("lossless-transfer-incomplete/%s" % loc, witness,
                              "complete body delivered %d times; replies %r" %
                              (len(good), [hex(m["code"]) for m in state["replies"]]))
        else:
            cover = bytearray(blen)
            okb = True
            for e in reqs:
                off, ln = e.get("poff", 0), max(e.get("plen", 0), 0)
                if bytes.fromhex(e.get("phex", "")) != body[off:off + ln]:
                    okb = False
                for k in range(off, min(off + ln, blen)):
                    cover[k] += 1
            if not okb or any(c != 1 for c in cover):
                run.violation("blocks-do-not-tile-body/%s" % loc, witness,
                              "handler calls (length, offset): %r for a %d-byte body" %
                              ([(e.get("plen"), e.get("poff")) for e in reqs], blen))
        final = [m for m in state["replies"] if m["code"] != 0x5F and m["code"] != 0]
        if len(final) != 1 or (final[0]["code"] >> 5) != 2:
            run.violation("lossless-transfer-incomplete/%s/final-response" % loc, witness,
                          "replies: %r" % [hex(m["code"]) for m in state["replies"]])
        else:
            stats["complete"] = stats.get("complete", 0) + 1
        evs, rc, err = w.close()
        if rc not in (0, None):
            sg = common.sanitizer_signature(err) or "exit-rc%s" % rc
            run.violation("teardown/rawput/%s" % sg, dict(witness, stderr=err[-3000:]), err[-1500:])
        return ("rawput", szx, nb, size1, single, typ)
    except world.WorldCrash as e:
        world.crash_violation(run, "C09/rawput", e, witness)
    finally:
        if not w.closed:
            w.close(kill=True)


def rawtwo_case(exe, it, run, stats):
    """two Block1 uploads of one raw peer, block by block in turn, to two paths that the
    server's unknown-resource handler both takes (no Request-Tag: the paths tell the
    transfers apart, RFC 7959 2.5): each application call gets the body sent to its path"""
    r = common.rng("c09-rawtwo-%d" % it)
    szx = r.choice([0, 1, 2])
    bs = 16 << szx
    nblk = r.choice([2, 3, 5])
    single = r.random() < 0.8
    bodies = {b"u1": gen_body(r.randint(1, 10 ** 6), (nblk - 1) * bs + r.choice([1, bs])),
              b"u2": gen_body(r.randint(1, 10 ** 6), (nblk - 1) * bs + r.choice([1, bs]))}
    order = r.choice(["alternate", "alternate", "u1-first-block-then-u2-all"])
    # a third of the runs: both uploads go to ONE registered resource and only the Request-Tag
    # (RFC 9175 3: absent, empty and any two different values are all different) tells them
    # apart; libcoap reassembles (single-body mode)
    rtags = None
    if r.random() < 0.35:
        single = True
        rtags = r.choice([[None, b""], [None, b""], [b"", b"\x00"], [b"\x01", b"\x01\x00"],
                          [None, b"\x00"], [bytes(8), bytes(7)],
                          r.sample([None, b"", b"\x01", b"\x02", b"\x01\x00", b"\x00"], 2)])
        r.shuffle(rtags)
    w = world.World(exe, seed=r.getrandbits(30))
    sim = world.Sim(w, latency=1)
    witness = {"kind": "rawtwo", "item": it, "szx": szx, "blocks": nblk, "single_body": single,
               "order": order, "script": w.script,
               "request_tags": None if rtags is None else [None if t is None else t.hex()
                                                           for t in rtags]}
    peer = "10.0.7.9:40000"
    try:
        sim.cmd("fullpayload 1")
        sim.add_node(1, block_mode=3 if single else 1)
        sim.cmd("ep 1 udp %s" % SERVER)
        sim.cmd("res 1 - kind=unknown")
        if rtags is not None:
            sim.cmd("res 1 %s store=1" % b"up".hex())
        sim.peers[peer] = lambda *a: None
        seq = []
        if order == "alternate":
            for i in range(nblk):
                seq += [(b"u1", i), (b"u2", i)]
        else:
            seq = [(b"u1", 0)] + [(b"u2", i) for i in range(nblk)] + \
                [(b"u1", i) for i in range(1, nblk)]
        mid = 0x5300
        for name, i in seq:
            mid += 1
            v = (i << 4) | ((1 if i < nblk - 1 else 0) << 3) | szx
            opts = [(11, name), (27, v.to_bytes((v.bit_length() + 7) // 8, "big") if v else b"")]
            if rtags is not None:
                opts[0] = (11, b"up")
                tag = rtags[0] if name == b"u1" else rtags[1]
                if tag is not None:
                    opts.append((292, tag))
            m = cw.msg(3, type=0, mid=mid, token=name[1:], options=opts,
                       payload=bodies[name][i * bs:(i + 1) * bs])
            sim.inject(peer, SERVER, cw.encode(m, "udp"))
            sim.run(until=sim.elapsed() + 10, quiesce=False)
        sim.run(until=sim.elapsed() + 30000, quiesce=False)
        stats["raw_uploads"] = stats.get("raw_uploads", 0) + 2
        reqs = [e for e in sim.log if e["e"] == "req" and e.get("n") == 1]
        for name, body in bodies.items():
            mine = [e for e in reqs if bytes.fromhex(e.get("upath", "")) == name]
            if rtags is not None:
                stats["raw_uploads_by_request_tag"] = stats.get("raw_uploads_by_request_tag", 0) + 1
                other = bodies[b"u2" if name == b"u1" else b"u1"]
                calls = [e for e in reqs if bytes.fromhex(e.get("upath", "")) == b"up"]
                good = [e for e in calls if bytes.fromhex(e.get("phex", "")) == body]
                alien = [e for e in calls if bytes.fromhex(e.get("phex", "")) not in (body, other)]
                if len(good) != 1 or alien:
                    run.violation("lossless-transfer-incomplete/rawtwo/request-tags",
                                  dict(witness, path="up", upload=name.decode()),
                                  "two uploads to /up told apart by Request-Tag %r: body %s was "
                                  "handed over %d times, %d handler calls got a body nobody "
                                  "sent; calls (length, total) %r" %
                                  (witness["request_tags"], name.decode(), len(good), len(alien),
                                   [(e.get("plen"), e.get("ptot")) for e in calls]))
                continue
            if single:
                good = [e for e in mine if e.get("plen") == len(body) and
                        bytes.fromhex(e.get("phex", "")) == body]
                if len(good) != 1 or len(mine) != 1:
                    run.violation("lossless-transfer-incomplete/rawtwo/unknown-resource-paths",
                                  dict(witness, path=name.decode()),
                                  "upload to /%s (%d bytes in %d blocks, interleaved with one "
                                  "to the other path): handler calls (length, total) %r" %
                                  (name.decode(), len(body), nblk,
                                   [(e.get("plen"), e.get("ptot")) for e in mine]))
            else:
                cover = bytearray(len(body))
                okb = True
                for e in mine:
                    off, ln = e.get("poff", 0), max(e.get("plen", 0), 0)
                    if bytes.fromhex(e.get("phex", "")) != body[off:off + ln]:
                        okb = False
                    for k in range(off, min(off + ln, len(body))):
                        cover[k] += 1
                if not okb or any(c != 1 for c in cover):
                    run.violation("blocks-do-not-tile-body/rawtwo/unknown-resource-paths",
                                  dict(witness, path=name.decode()),
                                  "upload to /%s: handler calls (length, offset) %r" %
                                  (name.decode(), [(e.get("plen"), e.get("poff")) for e in mine]))
        evs, rc, err = w.close()
        if rc not in (0, None):
            sg = common.sanitizer_signature(err) or "exit-rc%s" % rc
            run.violation("teardown/rawtwo/%s" % sg, dict(witness, stderr=err[-3000:]), err[-1500:])
        return ("rawtwo", szx, nblk, single, order)
    except world.WorldCrash as e:
        world.crash_violation(run, "C09/rawtwo", e, witness)
    finally:
        if not w.closed:
            w.close(kill=True)


def rawget_case(exe, it, run, stats):
    """a libcoap client downloads a body from a server that is not libcoap, which serves Block2
    without (or with) Size2 and with or without an ETag, loss-free: the requesting application
    gets the exact body once (single-body mode) or blocks that tile it"""
    r = common.rng("c09-rawget-%d" % it)
    szx = r.choice([0, 0, 1, 2, 4, 6])
    bs = 16 << szx
    nblk = r.choice([2, 2, 3, 3, 5, 9, 20])
    blen = (nblk - 1) * bs + r.choice([1, bs // 2, bs - 1, bs])
    size2 = r.choice(["never", "never", "first", "all"])
    etag = r.choice([None, None, b"\x11\x22"])
    single = r.random() < 0.7
    typ = r.choice([0, 0, 1])
    body = gen_body(r.randint(1, 10 ** 6), blen)
    tok = bytes([0xFD, r.getrandbits(8)])
    server = "10.0.7.%d:5683" % (1 + it % 200)
    w = world.World(exe, seed=r.getrandbits(30))
    sim = world.Sim(w, latency=2)
    witness = {"kind": "rawget", "item": it, "szx": szx, "body_len": blen, "size2": size2,
               "etag": bool(etag), "single_body": single, "type": typ, "script": w.script}
    try:
        sim.cmd("fullpayload 1")
        sim.add_node(0, block_mode=3 if single else 1)
        served = []

        def serve(sm, frm, to, data):
            try:
                m = cw.decode(data, "udp")
            except Exception:
                return
            if not 1 <= m["code"] <= 31:
                return
            b2 = [v for n, v in m["options"] if n == 23]
            v = int.from_bytes(b2[0], "big") if b2 and b2[0] else 0
            num, rszx = v >> 4, v & 7
            use = min(rszx, szx) if b2 else szx
            sz = 16 << use
            off = num * sz
            part = body[off:off + sz]
            more = 1 if off + sz < blen else 0
            ov = (num << 4) | (more << 3) | use
            opts = [(23, ov.to_bytes((ov.bit_length() + 7) // 8, "big") if ov else b"")]
            if etag:
                opts.append((4, etag))
            if size2 == "all" or (size2 == "first" and num == 0):
                opts.append((28, blen.to_bytes((blen.bit_length() + 7) // 8, "big")))
            served.append(num)
            rsp = cw.msg(0x45, type=2 if m["type"] == 0 else 1, mid=m["mid"] if m["type"] == 0
                         else 0x6000 + len(served), token=m["token"], options=opts, payload=part)
            sm.inject(to, frm, cw.encode(rsp, "udp"))
        sim.peers[server] = serve
        sim.cmd("sess 0 0 udp %s" % server)
        sim.cmd("send 0 0 type=%d code=1 token=%s opts=11=%s" % (typ, tok.hex(), b"rg".hex()))
        sim.run(horizon=200000)
        rsps = [e for e in sim.log if e["e"] == "rsp" and e.get("n") == 0]
        stats["raw_downloads"] = stats.get("raw_downloads", 0) + 1
        loc = "rawget/%s/size2-%s" % ("single-body" if single else "per-block", size2)
        for e in rsps:
            if e["tok"] != tok.hex():
                run.violation("handler-saw-substituted-token/rsp/%s" % loc, witness,
                              "response handler called with token %s" % e["tok"])
        if single:
            good = [e for e in rsps if e.get("plen", -1) == blen and e.get("poff", 0) == 0 and
                    bytes.fromhex(e.get("phex", "")) == body]
            bad = [e for e in rsps if e not in good]
            if bad:
                run.violation("delivered-bytes-differ-from-body/%s" % loc, witness,
                              "the application was handed %r (length, offset, total) for a "
                              "%d-byte body served in blocks of %d" %
                              ([(e.get("plen"), e.get("poff"), e.get("ptot")) for e in bad],
                               blen, bs))
            if len(good) != 1:
                run.violation("lossless-transfer-incomplete/%s" % loc, witness,
                              "complete body delivered %d times; blocks served %r" %
                              (len(good), served))
            else:
                stats["complete"] = stats.get("complete", 0) + 1
        else:
            cover = bytearray(blen)
            okb = True
            for e in rsps:
                off, ln = e.get("poff", 0), max(e.get("plen", 0), 0)
                if bytes.fromhex(e.get("phex", "")) != body[off:off + ln]:
                    okb = False
                for k in range(off, min(off + ln, blen)):
                    cover[k] += 1
            if not okb or any(c != 1 for c in cover):
                run.violation("blocks-do-not-tile-body/%s" % loc, witness,
                              "handler calls (length, offset): %r for a %d-byte body" %
                              ([(e.get("plen"), e.get("poff")) for e in rsps], blen))
            else:
                stats["complete"] = stats.get("complete", 0) + 1
        evs, rc, err = w.close()
        if rc not in (0, None):
            sg = common.sanitizer_signature(err) or "exit-rc%s" % rc
            run.violation("teardown/rawget/%s" % sg, dict(witness, stderr=err[-3000:]), err[-1500:])
        return ("rawget", szx, nblk, size2, bool(etag), single, typ)
    except world.WorldCrash as e:
        world.crash_violation(run, "C09/rawget", e, witness)
    finally:
        if not w.closed:
            w.close(kill=True)


def payload_ok(ev, body):
    """does the handler's view (offset, length, fnv) equal body[off:off+len]?"""
    ln, off = ev.get("plen", -1), ev.get("poff", 0)
    if ln < 0:
        return True, 0, 0
    exp = body[off:off + ln]
    if len(exp) != ln:
        return False, off, ln
    if "phex" in ev:
        return bytes.fromhex(ev["phex"]) == exp, off, ln
    return ev["pfnv"] == fnv64(exp), off, ln


def redelivered(sim, t):
    """did some datagram reach the receiving side of this transfer more than once
    (duplicated by the network, or retransmitted because its ACK was lost)?"""
    # either direction: a duplicated 2.31 Continue makes the sender send the next block
    # twice (as two requests), which the receiving application sees as an overlap too
    seen = set()
    for ev in sim.log:
        if ev["e"] == "rx":
            key = (ev["to"], ev["b"])
            if key in seen:
                return True
            seen.add(key)
    return False


def judge(run, sim, cfg, witness, stats, faultfree, dup_used):
    transfers = cfg["transfers"]
    app_tokens = set(t.tok.hex() for t in transfers)
    # (4) the requesting application's handlers only ever see tokens it issued
    for ev in sim.log:
        if ev.get("n") == 0 and ev["e"] in ("rsp", "nack"):
            tk = ev.get("tok")
            if tk is not None and tk not in app_tokens and not (ev["e"] == "nack" and tk == ""):
                done_at = [e2["t"] for e2 in sim.log if e2.get("n") == 0 and e2["e"] == "rsp" and
                           e2.get("tok") in app_tokens and (e2["code"] >= 128 or (
                               64 <= e2["code"] < 96 and e2["code"] != 0x5f and
                               e2.get("poff", 0) + max(e2.get("plen", 0), 0) >=
                               e2.get("ptot", 0)))]
                when = "after-final-outcome" if done_at and len(done_at) >= len(app_tokens) \
                    and ev["t"] >= max(done_at) else "before-final-outcome"
                run.violation("handler-saw-substituted-token/%s/%s/%s" % (
                    ev["e"], when, "lossless" if not any(
                        e2["e"] == "wire" and (e2.get("plan") == [] or len(e2.get("plan", [0])) > 1)
                        for e2 in sim.log) else "faulty-network"),
                              dict(witness, token=tk),
                              "client %s handler saw token %s, application tokens are %r" %
                              (ev["e"], tk, sorted(app_tokens)))
    # (7) every block message fits the session's maximum size
    for ev in sim.log:
        if ev["e"] == "wire":
            n = len(ev["b"]) // 2
            lim = cfg.get("client_mtu") if ev["from"].startswith("10.0.0.1") else \
                cfg.get("server_mtu")
            lim = lim or 1152
            stats["max_datagram"] = max(stats["max_datagram"], n)
            if n > lim:
                run.violation("datagram-exceeds-session-mtu", witness,
                              "datagram of %d bytes from %s, session MTU %d" %
                              (n, ev["from"], lim))
    # (8) release callback exactly once per large-data call
    created = [ev["id"] for ev in sim.log if ev["e"] in ("largereq", "largersp")]
    rel = {}
    for ev in sim.log:
        if ev["e"] == "released":
            rel[ev["id"]] = rel.get(ev["id"], 0) + 1
    for i in created:
        stats["large_calls"] += 1
        if rel.get(i, 0) != 1:
            run.violation("release-callback-not-exactly-once", dict(witness, body_id=i),
                          "body %d released %d times" % (i, rel.get(i, 0)))
    # scenario features: the locus of every signature, so that a recorded finding for one
    # class of histories never hides a violation in another class
    szx = {23: set(), 27: set()}
    for ev in sim.log:
        if ev["e"] == "wire":
            try:
                m = cw.decode(bytes.fromhex(ev["b"]), "udp")
            except Exception:
                continue
            for n, v in m["options"]:
                if n in (23, 27) and m["payload"]:
                    szx[n].add((int.from_bytes(v, "big") if v else 0) & 7)
    expired = any(ev["e"] == "event" and ev["code"] in (0x3001, 0x3002) for ev in sim.log)
    lost = any(ev["e"] == "wire" and ev.get("plan") == [] for ev in sim.log)
    dupd = any(ev["e"] == "wire" and len(ev.get("plan", [0])) > 1 for ev in sim.log)

    # did the server answer a Block1 request with a smaller SZX than the request carried
    # (RFC 7959 2.5 late negotiation)?
    req_szx = {}
    server_reduced = False
    for ev in sim.log:
        if ev["e"] != "wire":
            continue
        try:
            m = cw.decode(bytes.fromhex(ev["b"]), "udp")
        except Exception:
            continue
        b1 = [v for n, v in m["options"] if n == 27]
        if not b1:
            continue
        z = (int.from_bytes(b1[0], "big") if b1[0] else 0) & 7
        if 0 < m["code"] < 32:
            req_szx[m["mid"]] = z
        elif m["mid"] in req_szx and z < req_szx[m["mid"]]:
            server_reduced = True

    def locus(t, single):
        """coarse, cause-oriented class of the history (kept stable across seeds)"""
        if not (lost or dupd):
            f = [t.kind, "lossless"]
            if t.kind == "put" and server_reduced:
                f.append("server-reduced-block-size")
            elif len(szx[27 if t.kind == "put" else 23]) > 1:
                f.append("size-change")
            return "/".join(f)
        return t.kind + "/faulty-network"
    refused = set(ev.get("tok") for ev in sim.log if ev["e"] == "largereq_fail")
    if any(ev["e"] == "largersp_fail" for ev in sim.log):
        # coap_add_data_large_response() refused (body released, 5.00 sent): explicit failure
        refused |= set(t.tok.hex() for t in transfers if t.kind == "get")
    for t in transfers:
        tok = t.tok.hex()
        w = dict(witness, token=tok, kind=t.kind, length=t.length)
        stats["transfers"] += 1
        if tok in refused:
            # coap_add_data_large_request() returned 0 (and released the body): an explicit
            # failure, the request was not sent
            stats["refused_by_api"] = stats.get("refused_by_api", 0) + 1
            continue
        if t.kind == "put":
            recv = [ev for ev in sim.log if ev["e"] == "req" and ev.get("n") == 1 and
                    ev["res"] == "up" and ev["code"] == t.method]
            # several PUT transfers share the resource: attribute by body content
            recv = [ev for ev in recv if payload_ok(ev, t.body)[0] or len(transfers) == 1]
            # ... and where the bytes fit two of them (a 1-byte body equals the first byte of
            # another body once in 256 draws), by the total length the handler was told
            others = [u for u in transfers if u is not t and u.kind == "put"]
            recv = [ev for ev in recv if not (
                ev.get("ptot") is not None and ev.get("ptot") != t.length and
                any(ev.get("ptot") == u.length and payload_ok(ev, u.body)[0] for u in others))]
            single = cfg["server_single"]
            final = [ev for ev in sim.log if ev["e"] == "rsp" and ev.get("n") == 0 and
                     ev["tok"] == tok]
            loc = locus(t, single)
        else:
            recv = [ev for ev in sim.log if ev["e"] == "rsp" and ev.get("n") == 0 and
                    ev["tok"] == tok and 64 <= ev["code"] < 96]
            single = cfg["client_single"]
            final = [ev for ev in sim.log if ev["e"] == "rsp" and ev.get("n") == 0 and
                     ev["tok"] == tok]
            loc = locus(t, single)
        nacks = [ev for ev in sim.log if ev["e"] == "nack" and ev.get("n") == 0 and
                 ev.get("tok") == tok]
        # (1) byte integrity of every delivery
        covered = []
        for ev in recv:
            ok, off, ln = payload_ok(ev, t.body)
            if not ok:
                run.violation("delivered-bytes-differ-from-body/" + loc, w,
                              "handler got %d bytes at offset %d (total %s) that are not "
                              "body[%d:%d]" % (ln, off, ev.get("ptot"), off, off + ln))
            if ln > 0:
                covered.append((off, ln))
            if ev.get("ptot", 0) not in (0, t.length) and ev.get("plen", -1) >= 0 and \
                    ev.get("ptot") != ev.get("plen"):
                run.violation("total-length-inconsistent/" + loc, w,
                              "handler was told total %s, body has %d" % (ev.get("ptot"),
                                                                          t.length))
        complete = False
        if single:
            whole = [c for c in covered if c == (0, t.length)]
            partial = [c for c in covered if c != (0, t.length)]
            if t.length > 0 and partial:
                run.violation("single-body-mode-delivered-part-of-body/" + loc, w,
                              "delivered ranges %r of a %d byte body" % (partial, t.length))
            if len(whole) > 1:
                cause = "request-datagram-reached-receiver-twice" if redelivered(sim, t) \
                    else "other/" + loc
                run.violation("body-delivered-more-than-once/" + cause, w,
                              "%d deliveries of the whole body" % len(whole))
            complete = bool(whole) or (t.length == 0 and bool(recv))
            stats["single_body_deliveries"] += len(whole)
        else:
            covered.sort()
            pos = 0
            gaps = overl = False
            for off, ln in covered:
                if off > pos:
                    gaps = True
                if off < pos:
                    overl = True
                pos = max(pos, off + ln)
            complete = not gaps and pos >= t.length and (bool(recv) or t.length == 0)
            if overl and not redelivered(sim, t):
                run.violation("blocks-overlap-without-duplication/" + loc, w,
                              "delivered ranges %r" % covered[:20])
            stats["block_deliveries"] += len(covered)
        # 2.31 Continue is an intermediate response (visible in per-block mode), not the outcome
        success = [ev for ev in final if 64 <= ev["code"] < 96 and ev["code"] != 0x5f]
        errors = [ev for ev in final if ev["code"] >= 128]
        ended_ok = [e for e in success if t.kind == "put" or
                    e.get("poff", 0) + max(e.get("plen", 0), 0) >= max(e.get("ptot", 0), 1)]
        if nacks and ended_ok:
            run.violation("transfer-reported-failed-and-succeeded/" + (
                "targeted-abandon-of-the-other-transfer" if cfg.get("scenario") == "abandon"
                else loc), w,
                          "token %s: NACK reasons %r and success responses %r" %
                          (tok, [n_["reason"] for n_ in nacks], [e["code"] for e in success]))
        if faultfree:
            if not complete:
                run.violation("lossless-transfer-incomplete/" + loc, w,
                              "no loss or duplication, yet the body was not delivered "
                              "completely (deliveries %r, final %r)" %
                              (covered[:10], [e["code"] for e in final]))
            if t.kind == "put" and len(success) != 1:
                run.violation("lossless-transfer-without-single-success/" + loc, w,
                              "%d success responses, %d errors, %d NACKs" %
                              (len(success), len(errors), len(nacks)))
            if errors or nacks:
                run.violation("lossless-transfer-reported-failure/" + loc, w,
                              "errors %r nacks %r" % ([e["code"] for e in errors],
                                                      [n["reason"] for n in nacks]))
        else:
            # a success response at the requester implies the receiver got everything
            if t.kind == "put" and success and not complete and not cfg["server_single"]:
                run.violation("success-reported-but-body-incomplete/" + loc, w,
                              "client got %r but server-side deliveries were %r" %
                              ([e["code"] for e in success], covered[:20]))
            if t.kind == "put" and success and cfg["server_single"] and not complete:
                run.violation("success-reported-but-body-incomplete/" + loc, w,
                              "client got %r but the server never obtained the whole body" %
                              [e["code"] for e in success])
            if t.typ == 0 and not final and not nacks:
                run.violation("abandoned-transfer-not-reported/" + loc, w,
                              "CON transfer: no response and no NACK at the requester by "
                              "quiescence + horizon")
        if complete:
            stats["complete"] += 1
        else:
            stats["incomplete"] += 1


def lengths_exhaustive():
    out = set([0, 1])
    for s in range(4, 11):
        for k in range(0, 6):
            for d in (-1, 0, 1):
                v = k * (1 << s) + d
                if v >= 0:
                    out.add(v)
    return sorted(out)


def make_cfg(r, kind_hint=None, length=None):
    kind = kind_hint or r.choice(["put", "get"])
    n = 2 if r.random() < 0.15 else 1
    transfers = []
    for k in range(n):
        ln = length if length is not None else r.choice(
            [r.choice(lengths_exhaustive()), r.randint(0, 3000), r.randint(0, 20000),
             r.randint(20000, 65536) if r.random() < 0.3 else r.randint(0, 5000)])
        t = Transfer(kind, bytes([0xF0 + k, r.getrandbits(8), r.getrandbits(8)]), ln,
                     r.randint(1, 10 ** 6), r.choice([0, 0, 0, 1]))
        t.method = r.choice([3, 3, 2, 5]) if kind == "put" else 1
        transfers.append(t)
    cfg = {"transfers": transfers,
           "client_single": r.random() < 0.6, "server_single": r.random() < 0.6,
           "client_maxblk": r.choice([0, 0, 16, 32, 64, 128, 256, 512, 1024]),
           "server_maxblk": r.choice([0, 0, 16, 32, 64, 128, 256, 512, 1024]),
           "client_mtu": r.choice([0, 0, 0, 64, 96, 128, 200, 320, 576, 1152, 1400,
                                   r.randint(64, 1152)]),
           "nstart": r.choice([1, 1, 2])}
    # the maximum message size is a property of the path: the same on both sides
    cfg["server_mtu"] = cfg["client_mtu"]
    # keep the number of blocks manageable
    big = max(t.length for t in transfers)
    small_side = min(x for x in (cfg["client_maxblk"] or 1024, cfg["server_maxblk"] or 1024,
                                 max(16, (cfg["client_mtu"] or 1152) // 2),
                                 max(16, (cfg["server_mtu"] or 1152) // 2)))
    if big / max(16, small_side) > 300:
        for t in transfers:
            t.length = min(t.length, 300 * max(16, small_side))
            t.body = gen_body(t.seed, t.length)
    if any(t.method == 5 for t in transfers):
        cfg["server_single"] = True          # FETCH bodies are always delivered as a single body
    return cfg


def run_cfg(exe, cfg, fault, seed):
    w, sim = setup(exe, seed, cfg)
    sim.fault = fault
    for t in cfg["transfers"]:
        start(sim, t)
    sim.run(horizon=1200000)
    return w, sim


def both_case(exe, it, run, stats):
    """one exchange whose request body AND response body are both block-wise (FETCH with a
    large body answered with a large body), loss-free; single-body delivery on both sides"""
    r = common.rng("c09-both-%d" % it)
    qlen = r.choice([17, 64, 100, 1025, 2048, 3000, 5000])
    rlen = r.choice([33, 100, 1024, 1500, 2048, 5000])
    qseed, rseed = r.randint(1, 10 ** 6), r.randint(1, 10 ** 6)
    cfg = {"client_maxblk": r.choice([0, 16, 64, 256, 1024]), "server_maxblk": r.choice([0, 0, 32, 256]),
           "mtu": r.choice([0, 0, 128, 300, 1152]), "typ": r.choice([0, 0, 1])}
    tok = bytes([0xFB, r.getrandbits(8), r.getrandbits(8)])
    w = world.World(exe, seed=r.getrandbits(30))
    sim = world.Sim(w, latency=3)
    witness = {"kind": "both", "item": it, "cfg": cfg, "request_len": qlen, "response_len": rlen,
               "token": tok.hex(), "script": w.script}
    try:
        ckw = {"block_mode": 3}
        skw = {"block_mode": 3}
        if cfg["client_maxblk"]:
            ckw["max_block"] = cfg["client_maxblk"]
        if cfg["server_maxblk"]:
            skw["max_block"] = cfg["server_maxblk"]
        if cfg["mtu"]:
            skw["srv_mtu"] = cfg["mtu"]
        sim.cmd("fullpayload 1")
        sim.add_node(0, **ckw)
        sim.add_node(1, **skw)
        sim.cmd("ep 1 udp %s" % SERVER)
        path = b"fb"
        sim.cmd("res 1 %s store=1 body=gen:%d:%d large=1" % (path.hex(), rlen, rseed))
        sim.cmd("sess 0 0 udp %s%s" % (SERVER, " mtu=%d" % cfg["mtu"] if cfg["mtu"] else ""))
        sim.cmd("send 0 0 type=%d code=5 token=%s opts=11=%s,12=2a large=%d:%d" %
                (cfg["typ"], tok.hex(), path.hex(), qlen, qseed))
        sim.run(horizon=400000)
        qbody, rbody = gen_body(qseed, qlen), gen_body(rseed, rlen)
        reqs = [e for e in sim.log if e["e"] == "req" and e.get("n") == 1 and e["res"] == "fb"]
        full = [e for e in reqs if e.get("plen", -1) == qlen and e.get("poff", 0) == 0 and
                (bytes.fromhex(e["phex"]) == qbody if "phex" in e else e.get("pfnv") == fnv64(qbody))]
        rsps = [e for e in sim.log if e["e"] == "rsp" and e.get("n") == 0]
        good = [e for e in rsps if e["tok"] == tok.hex() and e["code"] == 0x45 and
                e.get("plen", -1) == rlen and
                (bytes.fromhex(e["phex"]) == rbody if "phex" in e else e.get("pfnv") == fnv64(rbody))]
        stats["both_exchanges"] = stats.get("both_exchanges", 0) + 1
        loc = "both/lossless"
        if len(full) != 1:
            run.violation("lossless-transfer-incomplete/%s/request-body" % loc, witness,
                          "the server application obtained the complete %d-byte request body %d "
                          "times (handler calls: %r)" % (qlen, len(full),
                                                         [(e.get("plen"), e.get("poff")) for e in reqs]))
        if len(good) != 1:
            run.violation("lossless-transfer-incomplete/%s/response-body" % loc, witness,
                          "the requester obtained the complete %d-byte response body %d times; "
                          "responses seen: %r" % (rlen, len(good),
                                                  [(e["tok"], e["code"], e.get("plen")) for e in rsps]))
        for e in rsps:
            if e["tok"] != tok.hex():
                run.violation("handler-saw-substituted-token/rsp/%s" % loc, witness,
                              "response handler called with token %s" % e["tok"])
        evs, rc, err = w.close()
        if rc not in (0, None):
            sg = common.sanitizer_signature(err) or "exit-rc%s" % rc
            run.violation("teardown/both/%s" % sg, dict(witness, stderr=err[-3000:]), err[-1500:])
        return ("both", qlen > 1024, rlen > 1024, cfg["client_maxblk"], cfg["server_maxblk"],
                bool(cfg["mtu"]), cfg["typ"])
    except world.WorldCrash as e:
        world.crash_violation(run, "C09/both", e, witness)
    finally:
        if not w.closed:
            w.close(kill=True)


def work(job):
    kind, items, exe = job
    run = common.Run("C09", "quick", "exploration")
    stats = dict(transfers=0, complete=0, incomplete=0, single_body_deliveries=0,
                 block_deliveries=0, large_calls=0, max_datagram=0, datagrams=0)
    sigs = set()
    n = 0
    sample = None
    for it in items:
        w = None
        witness = {"kind": kind, "item": repr(it)[:200], "seed": common.seed()}
        if kind in ("both", "rawput", "rawget", "rawtwo"):
            sg = {"both": both_case, "rawput": rawput_case, "rawget": rawget_case,
                  "rawtwo": rawtwo_case}[kind](exe, it, run, stats)
            if sg:
                sigs.add(sg)
            n += 1
            continue
        try:
            if kind == "lengths":
                r = common.rng("c09-len-%r" % (it,))
                cfg = make_cfg(r, kind_hint=it[0], length=it[1])
                cfg["transfers"] = cfg["transfers"][:1]
                fault, faultfree, dup = None, True, False
            elif kind == "mtusweep":
                # loss-free transfers of 20+ blocks on every path MTU of a range: the room a
                # message needs changes along a transfer (tokens and Block option values grow)
                tkind, mtu = it
                r = common.rng("c09-mtu-%s-%d" % (tkind, mtu))
                cfg = make_cfg(r, kind_hint=tkind, length=min(24000, 22 * mtu))
                cfg["transfers"] = cfg["transfers"][:1]
                cfg["transfers"][0].typ = 0
                cfg.update(client_maxblk=0, server_maxblk=0, client_mtu=mtu, server_mtu=mtu,
                           nstart=1)
                fault, faultfree, dup = None, True, False
            elif kind == "enum":
                tkind, assign = it
                r = common.rng("c09-enum-%s" % tkind)
                cfg = make_cfg(r, kind_hint=tkind, length=2 * 64 + 17)
                cfg["transfers"] = cfg["transfers"][:1]
                cfg["transfers"][0].typ = 0
                cfg.update(client_maxblk=64, server_maxblk=64, client_mtu=128, server_mtu=128)
                plan = dict(enumerate(assign))

                def fault(sm, i, ev, plan=plan):
                    a = plan.get(i, 0)
                    b = bytes.fromhex(ev["b"])
                    if a == 1:
                        return []
                    if a == 2:
                        return [(3, b), (7, b)]
                    return None
                faultfree, dup = not any(assign), 2 in assign
            elif kind == "slow":
                # nothing lost, nothing duplicated, only a slow path: 0.7 s each way (a round
                # trip stays below ACK_TIMEOUT) and enough blocks for the transfer to take
                # several minutes
                r = common.rng("c09-slow-%r" % (it,))
                cfg = make_cfg(r, kind_hint=it[0], length=r.choice([3300, 5000, 9000]))
                cfg["transfers"] = cfg["transfers"][:1]
                cfg["transfers"][0].typ = it[1]
                cfg.update(client_maxblk=32, server_maxblk=32, client_mtu=0, server_mtu=0,
                           latency=700)
                fault, faultfree, dup = None, True, False
            elif kind == "abandon":
                # two transfers on one session; every follow-up block request of the FIRST
                # started one is lost (with all its retransmissions): it must be reported
                # failed, and the other one must complete untouched
                r = common.rng("c09-ab-%d" % it)
                cfg = make_cfg(r, kind_hint="get", length=r.choice([300, 700, 1500]))
                t0 = cfg["transfers"][0]
                t1 = Transfer("get", bytes([0xF1, r.getrandbits(8), r.getrandbits(8)]),
                              r.choice([300, 900]), r.randint(1, 10 ** 6), 0)
                t1.method = 1
                t0.typ = 0
                cfg["transfers"] = [t0, t1] if it % 2 == 0 else [t1, t0]
                victim = cfg["transfers"][0]
                cfg.update(client_maxblk=0, server_maxblk=64, client_mtu=0, server_mtu=0,
                           nstart=2, client_single=it % 3 != 0)
                vpath = ("d%s" % victim.tok.hex()).encode()

                def fault(sm, i, ev, vpath=vpath):
                    if not ev["from"].startswith("10.0.0.1"):
                        return None
                    try:
                        m = cw.decode(bytes.fromhex(ev["b"]), "udp")
                    except Exception:
                        return None
                    b2 = [v for n_, v in m["options"] if n_ == 23]
                    if (11, vpath) in m["options"] and b2 and \
                            (int.from_bytes(b2[0], "big") >> 4) >= 1:
                        return []
                    return None
                faultfree, dup = False, False
                cfg["scenario"] = "abandon"
                witness["victim"] = victim.tok.hex()
            else:
                r = common.rng("c09-rand-%d" % it)
                cfg = make_cfg(r)
                ploss, pdup = r.choice([(0, 0), (0, 0), (0.05, 0.05), (0.15, 0.1), (0.3, 0.0)])
                fr = common.rng("c09-f-%d" % it)

                def fault(sm, i, ev, fr=fr, ploss=ploss, pdup=pdup):
                    b = bytes.fromhex(ev["b"])
                    x = fr.random()
                    if x < ploss:
                        return []
                    if x < ploss + pdup:
                        return [(fr.randint(1, 400), b), (fr.randint(1, 400), b)]
                    return [(fr.randint(1, 50), b)]
                faultfree, dup = (ploss, pdup) == (0, 0), pdup > 0
                if faultfree:
                    fault = None
            witness["cfg"] = {k: v for k, v in cfg.items() if k != "transfers"}
            witness["transfers"] = [(t.kind, t.tok.hex(), t.length, t.seed, t.typ,
                                     getattr(t, "method", 1)) for t in cfg["transfers"]]
            w, sim = run_cfg(exe, cfg, fault, 11 + common.seed())
            witness["script"] = [x for x in w.script
                                 if not x.startswith(("peek", "prepare", "advance"))][:60]
            # teardown first: the release callbacks of unfinished transfers run there
            evs, rc, err = w.close()
            sim.log.extend(evs)
            stats["datagrams"] += sim.wire_index
            judge(run, sim, cfg, witness, stats, faultfree, dup)
            if rc != 0:
                s = common.sanitizer_signature(err) or ("exit-rc%s" % rc)
                run.violation("teardown/%s" % s, dict(witness, stderr=err[-3000:]), err[-1500:])
            for ev in evs:
                if ev.get("e") == "shadow" and (ev["live"] or ev["badfree"]):
                    run.violation("leak-or-bad-free/types-%s" % ev.get("bytype", "?"), witness,
                                  "%r" % ev)
            t0 = cfg["transfers"][0]
            sigs.add((kind, t0.kind, t0.length if kind == "lengths" else min(t0.length, 4096) // 256,
                      cfg["client_single"], cfg["server_single"], cfg["client_maxblk"],
                      cfg["server_maxblk"], bool(cfg["client_mtu"]), bool(cfg["server_mtu"]),
                      t0.typ, len(cfg["transfers"]), it if kind == "enum" else faultfree))
            n += 1
            if sample is None:
                sample = {"transfers": witness["transfers"], "cfg": witness["cfg"],
                          "datagrams": sim.wire_index}
        except world.WorldCrash as e:
            world.crash_violation(run, "C09", e, witness)
            n += 1
        except common.Inconclusive:
            stats["inconclusive"] = stats.get("inconclusive", 0) + 1
        finally:
            if w is not None and not w.closed:
                w.close(kill=True)
    return n, sigs, run.export(), stats, sample


def main(tier):
    run = common.Run("C09", tier, "exploration")
    run.rule = ("Block1 (PUT/POST/FETCH via coap_add_data_large_request) and Block2 (GET via "
                "coap_add_data_large_response) between two libcoap nodes; body lengths "
                "exhaustively {k*2^s-1, k*2^s, k*2^s+1 | s=4..10, k=0..5} plus 0, 1 and random "
                "up to 64 KiB; max block size 16..1024 on either side, session MTU 64..1400, "
                "single-body and per-block delivery, CON and NON, two concurrent transfers; "
                "loss-free FETCH exchanges whose request and response bodies are both "
                "block-wise; loss-free Block1 uploads by a sender, and Block2 downloads from a server, "
                "that is not libcoap (Size1/Size2 on the first block, on all, or never); loss-free transfers of 20+ blocks on every path MTU 64..330 (thorough ..1200); "
                "fault plans: none / every {deliver,drop,duplicate} assignment to the first N "
                "datagrams of a 3-block transfer / random loss+duplication+delay; "
                "distinct_nontrivial = distinct (kind, length class, modes, sizes, fault) tuples")
    run.assumptions = ["bodies are PRNG bytes keyed by (seed, index) so misplaced bytes are "
                       "attributable; per-block mode with duplicated datagrams: only integrity "
                       "and coverage are demanded (RFC 7252 4.5 tolerates re-delivery of "
                       "idempotent requests)",
                       "server handlers may see the wire token libcoap substituted; only the "
                       "requesting application's handlers are judged for tokens"]
    exe = build.ensure_world("asan")
    jobs = []
    lens = lengths_exhaustive()
    if tier == "quick":
        nenum, nrand = 6, 260
        lensel = [(k, l) for i, l in enumerate(lens) for k in (("put", "get")[i % 2],)]
    else:
        nenum, nrand = 9, 30000
        lensel = [(k, l) for l in lens for k in ("put", "get")]
    chunk = 6
    for i in range(0, len(lensel), chunk):
        jobs.append(("lengths", lensel[i:i + chunk], exe))
    enum = [(k, a) for k in ("put", "get") for a in itertools.product((0, 1, 2), repeat=nenum)]
    if tier == "quick":
        enum = enum[::3]
    for i in range(0, len(enum), 12):
        jobs.append(("enum", enum[i:i + 12], exe))
    for i in range(0, nrand, chunk):
        jobs.append(("rand", list(range(i, min(nrand, i + chunk))), exe))
    if tier == "quick":
        sweep = [("get", m) for m in range(64, 331)] + [("put", m) for m in range(64, 331, 3)]
    else:
        sweep = [(k, m) for m in range(64, 1201) for k in ("get", "put")]
    for i in range(0, len(sweep), 8):
        jobs.append(("mtusweep", sweep[i:i + 8], exe))
    nboth = 96 if tier == "quick" else 3000
    for i in range(0, nboth, 8):
        jobs.append(("both", list(range(i, min(nboth, i + 8))), exe))
    slow = [(k, t, i) for k in ("get", "put") for t in (0, 1) for i in range(2 if tier == "quick" else 20)]
    for i in range(0, len(slow), 2):
        jobs.append(("slow", slow[i:i + 2], exe))
    nraw = 160 if tier == "quick" else 4000
    for i in range(0, nraw, 8):
        jobs.append(("rawput", list(range(i, min(nraw, i + 8))), exe))
    for i in range(0, nraw, 8):
        jobs.append(("rawget", list(range(i, min(nraw, i + 8))), exe))
    for i in range(0, nraw // 2, 8):
        jobs.append(("rawtwo", list(range(i, min(nraw // 2, i + 8))), exe))
    nab = 24 if tier == "quick" else 600
    for i in range(0, nab, chunk):
        jobs.append(("abandon", list(range(i, min(nab, i + chunk))), exe))
    stats = {}
    for n, sigs, vios, st, sample in common.parallel_map(work, jobs):
        run.evaluations += n
        run.nontrivial |= sigs
        run.merge(vios)
        for k, v in st.items():
            stats[k] = max(stats.get(k, 0), v) if k == "max_datagram" else stats.get(k, 0) + v
        if sample:
            run.sample(sample)
    run.extra.update(stats)
    run.extra["lengths_enumerated"] = len(lensel)
    run.extra["fault_assignments"] = len(enum)
    run.require("complete_transfers", stats.get("complete", 0), 300)
    run.require("incomplete_transfers_seen", stats.get("incomplete", 0), 10)
    run.require("large_calls", stats.get("large_calls", 0), 300)
    run.require("raw_uploads", stats.get("raw_uploads", 0), 100)
    run.require("raw_downloads", stats.get("raw_downloads", 0), 100)
    return run.finish()


def describe(b):
    try:
        m = cw.decode(b, "udp")
    except Exception as e:
        return "undecodable %s" % b.hex()[:40]
    t = "CNAR"[m["type"]]
    o = []
    for n, v in m["options"]:
        if n in (23, 27):
            x = int.from_bytes(v, "big") if v else 0
            o.append("%s=%d/%d/%d" % ("B2" if n == 23 else "B1", x >> 4, (x >> 3) & 1, 16 << (x & 7)))
        elif n in (28, 60):
            o.append("%s=%d" % ("S2" if n == 28 else "S1", int.from_bytes(v, "big") if v else 0))
        elif n == 11:
            o.append("/" + v.decode("latin1"))
        else:
            o.append("%d=%s" % (n, v.hex()))
    return "%s %d.%02d mid=%04x tok=%s %s len=%d" % (t, m["code"] >> 5, m["code"] & 31, m["mid"],
                                                      m["token"].hex(), " ".join(o),
                                                      len(m["payload"]))


def trace(kind, item, maxlines=200):
    """development aid: re-run one job item and print a readable trace"""
    exe = build.ensure_world("asan")
    import types
    holder = {}
    orig = run_cfg

    def spy(exe_, cfg, fault, seed):
        w, sim = orig(exe_, cfg, fault, seed)
        holder["sim"] = sim
        return w, sim
    globals()["run_cfg"] = spy
    try:
        out = work((kind, [item], exe))
    finally:
        globals()["run_cfg"] = orig
    sim = holder["sim"]
    n = 0
    for ev in sim.log:
        k = ev["e"]
        if k == "wire":
            print("%8d  %s -> %s  %s%s" % (ev["t"] - sim.t0, ev["from"][-6:], ev["to"][-6:],
                                           describe(bytes.fromhex(ev["b"])),
                                           "  DROPPED" if ev.get("plan") == [] else
                                           ("  x%d" % len(ev["plan"]) if len(ev.get("plan", [1])) > 1 else "")))
        elif k in ("req", "rsp"):
            print("%8d      %s n%d tok=%s code=%d plen=%s poff=%s ptot=%s" %
                  (ev["t"] - sim.t0, k.upper(), ev["n"], ev["tok"], ev["code"], ev.get("plen"),
                   ev.get("poff"), ev.get("ptot")))
        elif k in ("nack", "largereq", "largersp", "released", "largereq_fail", "largersp_fail"):
            print("%8d      %s %s" % (ev["t"] - sim.t0, k.upper(),
                                      {a: b for a, b in ev.items() if a not in ("e", "t")}))
        elif k == "event" and ev["code"] in (0x3001, 0x3002):
            print("%8d      EVENT %x" % (ev["t"] - sim.t0, ev["code"]))
        else:
            continue
        n += 1
        if n > maxlines:
            print("...")
            break
    for sig, (wit, text) in out[2][0].items():
        print("VIOLATION", sig, "--", text[:200])
