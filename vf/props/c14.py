"""C14 - OSCORE protection round-trips, matches RFC 8613, and any tampering is
rejected.  Client node <-> server node with generated security contexts in the
closed world; every protected datagram is reproduced byte for byte by the
independent reference vf/refs/oscore.py; tamper sweep over ciphertext and
OSCORE option value."""
from .. import build, common, world
from ..refs import coapwire as cw, oscore as O

SERVER = "10.0.0.2:5683"


def conf_text(secret, salt, sid, rid, idctx=None, b12=False, win=32, ssn=1, b2=False):
    t = 'master_secret,hex,"%s"\n' % secret.hex()
    if salt:
        t += 'master_salt,hex,"%s"\n' % salt.hex()
    t += 'sender_id,hex,"%s"\nrecipient_id,hex,"%s"\n' % (sid.hex(), rid.hex())
    if idctx is not None:
        t += 'id_context,hex,"%s"\n' % idctx.hex()
    t += 'replay_window,integer,%d\nssn_freq,integer,%d\nrfc8613_b_1_2,bool,%s\n' % (
        win, ssn, "true" if b12 else "false")
    if b2:
        t += 'rfc8613_b_2,bool,true\n'
    return t.encode().hex()


def gen_ctx(r):
    secret = bytes(r.getrandbits(8) for _ in range(16))
    salt = bytes(r.getrandbits(8) for _ in range(8)) if r.random() < 0.6 else b""
    while True:
        cid = bytes(r.getrandbits(8) for _ in range(r.choice([0, 0, 1, 1, 2, 3, 7])))
        sid = bytes(r.getrandbits(8) for _ in range(r.choice([0, 1, 1, 2, 7])))
        if cid != sid:
            break
    # (lengths on both sides of the CBOR one-byte-length boundary of the HKDF info; the
    # library's info buffer takes an ID Context of up to ~60 bytes)
    idctx = bytes(r.getrandbits(8) for _ in range(r.choice([1, 4, 8, 8, 16, 23, 24, 25, 32, 48,
                                                            56, 64, 100]))) \
        if r.random() < 0.4 else None
    start = r.choice([0, 0, 1, 20, 255, 256, 65535, 65536, 2 ** 24 - 1, 2 ** 32, 2 ** 32 + 5,
                      2 ** 40 - 10])
    return {"secret": secret, "salt": salt, "client_id": cid, "server_id": sid, "idctx": idctx,
            "start": start}


REQ_OPTS = [(12, b"\x2a"), (17, b"\x32"), (15, b"a=1"), (15, b"bb=22"), (4, b"\x01\x02"),
            (1, b"\x07"), (2050, b"elective"), (60, b"\x10"), (14, b"\x3c"), (3, b"example.org"),
            (7, b"\x16\x33"), (258, b"\x02"), (20, b"lq=1"), (8, b"lp")]
RSP_OPTS = [(12, b"\x2a"), (4, b"\x0a\x0b"), (14, b"\x3c"), (8, b"loc"), (2050, b"el"),
            (28, b"\x40")]


def gen_request(r, k):
    code = r.choice([1, 1, 2, 3, 4, 5, 6, 7])
    opts = [(11, b"r")]
    for o in r.sample(REQ_OPTS, r.choice([0, 1, 2, 3, 5])):
        opts.append(o)
    if code == 5 and not any(n == 12 for n, _ in opts):
        opts.append((12, b"\x2a"))
    if r.random() < 0.15:
        opts.append((11, b"sub"))
        opts.remove((11, b"r"))
        opts.insert(0, (11, b"r"))
    payload = b"" if code in (1, 4) and r.random() < 0.8 else \
        bytes(r.getrandbits(8) for _ in range(r.choice([0, 1, 7, 13, 100, 400, 1024])))
    tok = bytes([0xA0 + (k & 15), r.getrandbits(8)])[:r.choice([1, 2, 2])]
    return {"type": r.choice([0, 0, 1]), "code": code, "token": tok, "options": opts,
            "payload": payload}


def send_line(m):
    opts = ",".join("%d=%s" % (n, v.hex()) for n, v in m["options"]) or "-"
    return "send 0 0 type=%d code=%d token=%s opts=%s payload=%s" % (
        m["type"], m["code"], m["token"].hex(), opts, m["payload"].hex() or "-")


def setup(exe, r, c, b12=False, rsp=None, block_mode=None):
    w = world.World(exe, seed=r.getrandbits(30))
    sim = world.Sim(w, latency=1)
    if block_mode is None:
        sim.add_node(0)
        sim.add_node(1)
    else:
        sim.add_node(0, block_mode=block_mode)     # coap_cancel_observe() needs USE_LIBCOAP
        sim.add_node(1, block_mode=block_mode)
    # other security contexts on the same server (RFC 8613 8.2 step 2 has to pick the right
    # one): different sender/recipient ids, with and without an ID Context, configured before
    # or after the one under test
    real = conf_text(c["secret"], c["salt"], c["server_id"], c["client_id"], c["idctx"], b12)
    before, after = [], []
    if r.random() < 0.6:
        for k in range(r.choice([1, 1, 2])):
            while True:
                sid = bytes([0xD0 + k, r.getrandbits(8)])
                rid = bytes([0xE0 + k, r.getrandbits(8)])
                if sid not in (c["server_id"], c["client_id"]) and rid not in (c["server_id"],
                                                                               c["client_id"]):
                    break
            idc = bytes(r.getrandbits(8) for _ in range(r.choice([1, 4, 8]))) \
                if r.random() < 0.6 else None
            conf = conf_text(bytes(r.getrandbits(8) for _ in range(16)), b"", sid, rid, idc, b12)
            (before if r.random() < 0.7 else after).append(conf)
    # (the library appends a new context to its list)
    for conf in before:
        sim.cmd("oscore_server 1 %s" % conf)
    sim.cmd("oscore_server 1 %s" % real)
    for conf in after:
        sim.cmd("oscore_server 1 %s" % conf)
    sim.cmd("ep 1 udp %s" % SERVER)
    rsp = rsp or {"code": 0x45, "payload": b"answer", "options": []}
    ro = ",".join("%d=%s" % (n, v.hex()) for n, v in rsp["options"])
    for name in (b"r", b"r/sub"):
        sim.cmd("res 1 %s code=%d body=fixed:%s%s" % (name.hex(), rsp["code"],
                                                      rsp["payload"].hex() or "-",
                                                      " ropts=" + ro if ro else ""))
    evs = sim.cmd("sess 0 0 udp %s oscore=%s start_seq=%d" % (
        SERVER, conf_text(c["secret"], c["salt"], c["client_id"], c["server_id"], c["idctx"],
                          b12), c["start"]))
    if not info_fits(c) and any(e["e"] == "sess" and not e.get("ok") for e in evs):
        e = ContextRefused()
        e.w = w
        raise e
    return w, sim


class ContextRefused(Exception):
    """the library declined to set up this security context (coap_new_client_session_oscore()
    returned NULL): nothing is produced under it, nothing to compare"""


def info_fits(c):
    """RFC 8613 3.2.1 info array for the longest id within the library's 80-byte buffer: a
    context beyond that is one libcoap cannot derive keys for and may refuse"""
    def h(n):
        return 1 if n < 24 else 2
    L = len(c["idctx"] or b"")
    worst = max(len(c["client_id"]), len(c["server_id"]))
    return 1 + h(worst) + worst + h(L) + L + 1 + 1 + 3 + 1 <= 80


def ref_ctx(c, client):
    return O.SecCtx(c["secret"], c["salt"], c["idctx"],
                    c["client_id"] if client else c["server_id"],
                    c["server_id"] if client else c["client_id"])


def canon(m):
    return {"type": m["type"], "code": m["code"], "mid": m["mid"], "token": m["token"],
            "options": cw.sort_options(list(m["options"])), "payload": m["payload"]}


def check_exchange(run, sim, c, req, rsp, witness, stats):
    """compare the protected request / response with the reference, and what the handlers
    saw with the originals; returns the protected request bytes (or None)"""
    wires = [e for e in sim.log if e["e"] == "wire"]
    creq = [e for e in wires if e["from"].startswith("10.0.0.1") and
            bytes.fromhex(e["b"])[1] in (2, 5)]
    if not creq:
        run.violation("no-protected-request-sent", witness, "nothing left the client")
        return None
    D = bytes.fromhex(creq[0]["b"])
    try:
        outer = cw.decode(D, "udp")
        ov = [v for n, v in outer["options"] if n == 9]
        oo = O.decode_oscore_option(ov[0], strict=False)
    except Exception as ex:
        run.violation("protected-request-malformed", witness, "%s: %r" % (D.hex(), ex))
        return None
    piv = int.from_bytes(oo["piv"] or b"\0", "big")
    stats["requests"] += 1
    plain = dict(req, mid=outer["mid"])
    ref_all = []
    try:
        # where RFC 8613 leaves the sender a choice the reference offers every variant:
        # No-Response may be sent inner only, or inner and outer (4.1.3.x "may")
        for nr in (O.BOTH, O.INNER):
            saved = O.OPTION_TABLE[258]
            O.OPTION_TABLE[258] = (saved[0], nr, saved[2])
            try:
                ref_outer = O.protect_request(ref_ctx(c, True), canon(plain), piv,
                                              kid_context_in_option=oo["kid_context"] is not None)
                ref_all.append(cw.encode(ref_outer, "udp"))
            finally:
                O.OPTION_TABLE[258] = saved
        ref_bytes = ref_all[0]
    except Exception as ex:
        ref_bytes = None
        witness = dict(witness, reference_error=repr(ex))
    if ref_bytes is not None and D not in ref_all:
        # where do they differ?
        ro = cw.decode(ref_bytes, "udp")
        what = "ciphertext" if ro["options"] == outer["options"] else \
            "oscore-option" if [v for n, v in ro["options"] if n == 9] != ov else "outer-options"
        if ro["code"] != outer["code"]:
            what = "outer-code"
        run.violation("protected-request-differs-from-rfc8613/%s" % what,
                      dict(witness, libcoap=D.hex(), reference=ref_bytes.hex()),
                      "request %r PIV %d\nlibcoap   %s\nreference %s" %
                      (req, piv, D.hex(), ref_bytes.hex()))
    if piv != c["start"] and not witness.get("later"):
        run.violation("first-partial-iv-is-not-start-sequence-number", witness,
                      "start_seq_num %d, PIV on the wire %d" % (c["start"], piv))
    if len(D) > 1152:
        # The protected request is larger than the 1152 bytes a libcoap endpoint accepts in one
        # datagram by default (a 1 KiB payload under a context with a long kid context): the
        # peer refuses it by size before OSCORE is looked at.  What the bytes are has been
        # judged above; "unprotecting it at the peer" presupposes a message the peer takes in.
        stats["protected_request_above_default_datagram_size"] = \
            stats.get("protected_request_above_default_datagram_size", 0) + 1
        return D
    # the peer's handler sees the original
    seen = [e for e in sim.log if e["e"] == "req" and e.get("n") == 1 and
            e["tok"] == req["token"].hex()]
    if len(seen) != 1:
        run.violation("request-not-delivered-exactly-once", witness,
                      "server handler ran %d times" % len(seen))
    else:
        ev = seen[0]
        got_opts = []
        if ev["opts"]:
            for it in ev["opts"].split(";"):
                a, b = it.split("=")
                got_opts.append((int(a), bytes.fromhex(b)))
        want_opts = cw.sort_options(list(req["options"]))
        gotp = bytes.fromhex(ev.get("phex", "")) if 0 < ev.get("plen", -1) <= 96 else None
        if ev["code"] != req["code"] or got_opts != want_opts:
            run.violation("unprotected-request-differs/%s" % (
                "code" if ev["code"] != req["code"] else "options"), witness,
                "sent code %d options %r\nhandler saw code %d options %r" %
                (req["code"], want_opts, ev["code"], got_opts))
        from .c09 import fnv64
        if ev.get("plen", -1) != (len(req["payload"]) or -1) or (
                req["payload"] and ev.get("pfnv") != fnv64(req["payload"])):
            run.violation("unprotected-request-differs/payload", witness,
                          "sent %d bytes, handler saw %s" % (len(req["payload"]), ev.get("plen")))
    # response
    srsp = [e for e in wires if e["from"] == SERVER and bytes.fromhex(e["b"])[1] >= 64]
    nr = [v for n, v in req["options"] if n == 258]
    if nr and (int.from_bytes(nr[0], "big") >> ((rsp["code"] >> 5) - 1)) & 1:
        return D        # the client asked for this response class to be suppressed
    if not srsp:
        run.violation("no-protected-response-sent", witness, "server sent no response")
        return D
    R = bytes.fromhex(srsp[0]["b"])
    try:
        router = cw.decode(R, "udp")
        rov = [v for n, v in router["options"] if n == 9]
        roo = O.decode_oscore_option(rov[0], strict=False) if rov else None
    except Exception as ex:
        run.violation("protected-response-malformed", witness, "%s: %r" % (R.hex(), ex))
        return D
    if roo is None:
        run.violation("response-sent-unprotected", witness, R.hex())
        return D
    stats["responses"] += 1
    rplain = {"type": router["type"], "code": rsp["code"], "mid": router["mid"],
              "token": router["token"], "options": cw.sort_options(list(rsp["options"])),
              "payload": rsp["payload"]}
    newpiv = int.from_bytes(roo["piv"], "big") if roo["piv"] else None
    try:
        ref_r = O.protect_response(ref_ctx(c, False), rplain, c["client_id"],
                                   oo["piv"] or b"\0", newpiv)
        ref_rb = cw.encode(ref_r, "udp")
    except Exception as ex:
        ref_rb = None
    if ref_rb is not None and ref_rb != R:
        rr = cw.decode(ref_rb, "udp")
        what = "ciphertext" if rr["options"] == router["options"] else "outer-options"
        if rr["code"] != router["code"]:
            what = "outer-code"
        run.violation("protected-response-differs-from-rfc8613/%s" % what,
                      dict(witness, libcoap=R.hex(), reference=ref_rb.hex()),
                      "response %r\nlibcoap   %s\nreference %s" % (rplain, R.hex(), ref_rb.hex()))
    got = [e for e in sim.log if e["e"] == "rsp" and e.get("n") == 0 and
           e["tok"] == req["token"].hex()]
    if len(got) != 1:
        run.violation("response-not-delivered-exactly-once", witness, "%d deliveries" % len(got))
    else:
        ev = got[0]
        gopts = []
        if ev["opts"]:
            for it in ev["opts"].split(";"):
                a, b = it.split("=")
                gopts.append((int(a), bytes.fromhex(b)))
        from .c09 import fnv64
        pay_ok = (ev.get("plen", -1) == (len(rsp["payload"]) or -1)) and (
            not rsp["payload"] or ev.get("pfnv") == fnv64(rsp["payload"]))
        if ev["code"] != rsp["code"] or gopts != cw.sort_options(list(rsp["options"])) or \
                not pay_ok:
            run.violation("unprotected-response-differs", witness,
                          "server set code %d options %r payload %r\nclient saw code %d options "
                          "%r payload %s" % (rsp["code"], rsp["options"], rsp["payload"],
                                             ev["code"], gopts, ev.get("phex")))
    return D


def tamper_variants(D):
    """every single-bit flip and truncation of the ciphertext and of the OSCORE option value"""
    outer = cw.decode(D, "udp")
    out = []
    ov = [v for n, v in outer["options"] if n == 9][0]
    ct = outer["payload"]

    def rebuild(newov, newct):
        m = dict(outer)
        m["options"] = [(n, (newov if n == 9 else v)) for n, v in outer["options"]]
        m["payload"] = newct
        return cw.encode(m, "udp")
    for i in range(len(ov) * 8):
        b = bytearray(ov)
        b[i >> 3] ^= 1 << (i & 7)
        out.append(("option-bit-%d" % i, rebuild(bytes(b), ct)))
    for i in range(len(ct) * 8):
        b = bytearray(ct)
        b[i >> 3] ^= 1 << (i & 7)
        out.append(("ciphertext-bit", rebuild(ov, bytes(b))))
    for n in range(1, len(ct)):
        out.append(("ciphertext-truncated", rebuild(ov, ct[:n])))
    for n in range(0, len(ov)):
        out.append(("option-truncated-%d" % n, rebuild(ov[:n], ct)))
    return out


def response_tamper_sweep(exe, r, c, rsp, req, run, witness, stats):
    """the other direction of "every single-bit flip and truncation of the protected datagram":
    the server's protected response is kept from the client, every variant of it (OSCORE option
    value and ciphertext bits; truncations) is delivered first and must not reach the
    response handler; then the untouched response must still be accepted"""
    w, sim = setup(exe, r, c, False, rsp)
    try:
        held = []

        def fault(sm, i, ev):
            if ev["from"] == SERVER:
                held.append(bytes.fromhex(ev["b"]))
                return []
            return None
        sim.fault = fault
        client_addr = [e["local"] for e in sim.log if e["e"] == "sess" and e.get("ok")][0]
        sim.cmd(send_line(req))
        sim.run(horizon=300)
        prot = [h for h in held if len(h) > 4 and h[1] >= 64]
        if not prot:
            return
        R = prot[0]
        outer = cw.decode(R, "udp")
        ov = [v for n, v in outer["options"] if n == 9]
        if not ov or not outer["payload"]:
            return
        ov, ct = ov[0], outer["payload"]

        def rebuild(newov, newct, code=None):
            m = dict(outer)
            m["options"] = [(n, (newov if n == 9 else v)) for n, v in outer["options"]]
            m["payload"] = newct
            if code is not None:
                m["code"] = code
            return cw.encode(m, "udp")
        variants = []
        for i in range(len(ov) * 8):
            b = bytearray(ov)
            b[i >> 3] ^= 1 << (i & 7)
            # (a response's own kid / kid context are not covered by the AEAD - RFC 8613 5.4 puts
            # the REQUEST's kid and Partial IV into the AAD -, so flipping the k or h flag of a
            # response changes nothing that can be authenticated: those two bits are not judged)
            if (i >> 3) == 0 and (i & 7) in (3, 4):
                continue
            variants.append(("option-bit-%d" % i, rebuild(bytes(b), ct)))
        bits = list(range(len(ct) * 8))
        if len(bits) > 400:
            bits = bits[:64] + bits[-80:] + r.sample(bits[64:-80], 120)
        for i in bits:
            b = bytearray(ct)
            b[i >> 3] ^= 1 << (i & 7)
            variants.append(("ciphertext-bit", rebuild(ov, bytes(b))))
        for n in sorted(set(list(range(1, min(len(ct), 24))) + [len(ct) - 1, len(ct) - 8, len(ct) - 9])):
            if 0 < n < len(ct):
                variants.append(("ciphertext-truncated", rebuild(ov, ct[:n])))
        for n in range(0, len(ov)):
            variants.append(("option-truncated-%d" % n, rebuild(ov[:n], ct)))
        # (the outer code is Class U and not integrity protected - RFC 8613 4.2: the real code is
        # the encrypted one -, so it is not among the variants)
        sim.fault = None
        for kind, T in variants:
            mark = len(sim.log)
            sim.log.extend(w.cmd("deliver %s %s %s" % (SERVER, client_addr, T.hex())))
            stats["tampered_responses"] = stats.get("tampered_responses", 0) + 1
            if any(e["e"] == "rsp" and e.get("n") == 0 for e in sim.log[mark:]):
                run.violation("tampered-response-reached-handler/%s" % kind,
                              dict(witness, tampered=T.hex(), genuine=R.hex()),
                              "variant %s of the protected response reached the client's "
                              "response handler" % kind)
                return
        mark = len(sim.log)
        sim.log.extend(w.cmd("deliver %s %s %s" % (SERVER, client_addr, R.hex())))
        if not any(e["e"] == "rsp" and e.get("n") == 0 and e["tok"] == req["token"].hex()
                   for e in sim.log[mark:]):
            nr = [v for n, v in req["options"] if n == 258]
            if not nr:
                run.violation("genuine-response-rejected-after-forgeries", witness,
                              "after %d tampered variants the untouched response was not "
                              "accepted" % len(variants))
    finally:
        if not w.closed:
            w.close()


def proxy_uri_case(exe, r, c, run, witness, stats):
    """a request the application addresses with a Proxy-Uri option, sent on an OSCORE session:
    RFC 8613 4.1.3.3 has the sender split it into Proxy-Scheme, Uri-Host and Uri-Port (outer,
    for the proxy) and Uri-Path, Uri-Query (inner, protected).  The receiving node is a proxy
    for a foreign authority: its proxy handler is handed the outer options, and the reference
    opens the datagram and finds the rest inside"""
    w, sim = setup(exe, r, dict(c, start=min(c["start"], 2 ** 40 - 1000)), False, None)
    try:
        sim.cmd("res 1 - kind=proxy")
        srv = ref_ctx(c, False)
        # (one request per session: the proxy of this scenario answers unprotected, so the
        # client's first OSCORE exchange never completes and a second send would wait for it)
        for k in range(1):
            host = r.choice([b"other.example", b"h.example.com", b"a-rather-long-host-name.example.org"])
            # (every scheme a Proxy-Uri may name, each with its own default port: RFC 7252 6.4
            # omits Uri-Port exactly when the port is the scheme's default)
            scheme, dflt = r.choice([(b"coap", 5683), (b"coap", 5683), (b"coaps", 5684),
                                     (b"http", 80), (b"https", 443), (b"coap+tcp", 5683),
                                     (b"coap+ws", 80), (b"coaps+ws", 443)])
            port = r.choice([None, None, 5683, 5684, 80, 443, 7777, 61616])
            segs = [r.choice([b"abc", b"def", b"x", b"a-longer-segment-%d" % k])
                    for _ in range(r.choice([0, 1, 2, 4]))]
            query = [r.choice([b"x=1", b"y=22", b"flag"]) for _ in range(r.choice([0, 0, 1, 2]))]
            uri = scheme + b"://" + host + (b":%d" % port if port else b"") + \
                (b"/" + b"/".join(segs) if segs else b"") + (b"?" + b"&".join(query) if query else b"")
            code = r.choice([1, 1, 2, 5])
            pl = bytes(r.getrandbits(8) for _ in range(r.choice([3, 40]))) if code != 1 else b""
            tokh = "7e%02x" % k
            extra = r.choice(["", ",292=0102", ",17=32"])
            if code == 5:
                extra += ",12=2a"
            mark = len(sim.log)
            evs = sim.cmd("send 0 0 type=0 code=%d token=%s opts=35=%s%s%s" % (
                code, tokh, uri.hex(), extra, " payload=" + pl.hex() if pl else ""))
            sim.run(until=sim.elapsed() + 3000, quiesce=False)
            stats["proxy_uri_requests"] = stats.get("proxy_uri_requests", 0) + 1
            wv = dict(witness, proxy_uri=uri.decode(), code=code)
            if not any(e["e"] == "sent" and e.get("mid", -1) >= 0 for e in evs):
                run.violation("oscore-proxy-uri-request-refused", wv,
                              "coap_send() refused the request with Proxy-Uri %s" % uri.decode())
                continue
            wires = [e for e in sim.log[mark:] if e["e"] == "wire" and e["from"].startswith("10.0.0.1")]
            reqs = [e for e in sim.log[mark:] if e["e"] == "req" and e.get("n") == 1]
            want_outer = [(3, host)] + ([(7, port.to_bytes(2, "big").lstrip(b"\0"))]
                                        if port and port != dflt else []) + [(39, scheme)]
            seen = []
            if reqs and reqs[0]["opts"]:
                for item in reqs[0]["opts"].split(";"):
                    a, b = item.split("=")
                    seen.append((int(a), bytes.fromhex(b)))
            # (a Uri-Port that states the scheme's default port says the same as none)
            also_ok = [(3, host), (7, dflt.to_bytes(2, "big").lstrip(b"\0")), (39, scheme)] \
                if (port is None or port == dflt) else want_outer
            if not reqs or [x for x in seen if x[0] in (3, 7, 39)] not in (want_outer, also_ok):
                run.violation("oscore-proxy-uri-outer-options-differ", dict(wv, seen=repr(seen)),
                              "Proxy-Uri %s: the proxy was handed %r, RFC 8613 4.1.3.3 gives %r" %
                              (uri.decode(), [x for x in seen if x[0] in (3, 7, 39)], want_outer))
                continue
            try:
                inner = O.unprotect_request(srv, canon(cw.decode(bytes.fromhex(wires[0]["b"]),
                                                                 "udp")))[0]
            except Exception as ex:
                run.violation("oscore-proxy-uri-request-does-not-open", wv,
                              "the protected request does not open with the reference: %r" % (ex,))
                continue
            got_in = [(n, v) for n, v in inner["options"] if n in (11, 15)]
            want_in = [(11, x) for x in segs] + [(15, x) for x in query]
            if got_in != want_in or inner["payload"] != pl:
                run.violation("oscore-proxy-uri-inner-options-differ", wv,
                              "Proxy-Uri %s: protected inside %r payload %d bytes, expected %r "
                              "payload %d bytes" % (uri.decode(), got_in, len(inner["payload"]),
                                                    want_in, len(pl)))
        world.teardown_check(run, "C14/proxy-uri", w, witness)
    finally:
        if not w.closed:
            w.close(kill=True)


def observe_history(exe, r, c, run, witness, stats):
    """An observation under OSCORE: registration, notifications, re-registration and
    cancellation with the same token.  Every response must reach the client's handler and
    must open with the reference using the Partial IV of a request that carried that token
    (RFC 8613 4.1.3.5: notifications are bound to the registration, any other response to
    its own request)."""
    if c["start"] > 2 ** 40 - 64:
        # the history sends more requests than there are sequence numbers left (the sender
        # rightly stops at 2^40 - 1)
        c = dict(c, start=2 ** 40 - 200)
    w, sim = setup(exe, r, c, False, None, block_mode=1)
    try:
        sim.cmd("res 1 %s body=counter obs=1" % b"o".hex())
        tok = bytes([0x70 + r.randrange(8), r.getrandbits(8)])
        steps = ["register"]
        for _ in range(r.choice([1, 2, 4])):
            steps.append(r.choice(["notify", "notify", "reregister", "cancel-then-register"]))
        steps.append("notify")
        steps.append("cancel")
        witness["observe_steps"] = steps
        expect = 0
        phase_of_count = []
        for st in steps:
            if st in ("register", "reregister"):
                sim.cmd("send 0 0 type=0 code=1 token=%s opts=6=,11=%s" % (tok.hex(), b"o".hex()))
                expect += 1
            elif st == "notify":
                sim.cmd("notify 1 o")
                expect += 1
            elif st == "cancel":
                sim.cmd("cancelobs 0 0 %s 0" % tok.hex())
                expect += 1
            else:
                sim.cmd("cancelobs 0 0 %s 0" % tok.hex())
                sim.run(until=sim.elapsed() + 3000, quiesce=False)
                phase_of_count.append(st + "/cancel")
                sim.cmd("send 0 0 type=0 code=1 token=%s opts=6=,11=%s" % (tok.hex(), b"o".hex()))
                expect += 2
            phase_of_count.append(st)
            sim.run(until=sim.elapsed() + 3000, quiesce=False)
        # unprotecting yields the original options: what the server application is handed for
        # the cancellation is Observe 1 (the inner option; a registration is the empty value) -
        # and with the observation gone, a further change reaches nobody
        sreq = [e for e in sim.log if e["e"] == "req" and e.get("n") == 1 and e["tok"] == tok.hex()
                and e["res"] == "o" and e["sess"] != -1 and e.get("type") == 0]
        # (the handler also runs for every notification, with the stored registration under a
        # new message id: registrations are only counted from below)
        nreg = sum(1 for st in steps if st in ("register", "reregister", "cancel-then-register"))
        ncan = sum(1 for st in steps if st in ("cancel", "cancel-then-register"))
        seen_reg = sum(1 for e in sreq if "6=;" in (e["opts"] + ";") or e["opts"].startswith("6=;")
                       or ";6=;" in ";" + e["opts"] + ";")
        seen_can = sum(1 for e in sreq if ";6=01;" in ";" + e["opts"] + ";")
        stats["observe_requests_at_server"] = stats.get("observe_requests_at_server", 0) + len(sreq)
        if seen_can != ncan or seen_reg < nreg:
            run.violation("oscore-observe-request-option-changed", dict(
                witness, server_saw=[e["opts"] for e in sreq]),
                "the client sent %d registrations (Observe empty) and %d cancellations "
                "(Observe 1); the server's handler (which also runs once per notification, with "
                "the registration) saw options %r" %
                (nreg, ncan, [e["opts"] for e in sreq]))
        mark = len(sim.log)
        sim.cmd("notify 1 o")
        sim.run(until=sim.elapsed() + 3000, quiesce=False)
        if any(e["e"] == "rsp" and e.get("n") == 0 and e["tok"] == tok.hex() for e in sim.log[mark:]):
            run.violation("oscore-observation-not-cancelled", witness,
                          "after the cancellation a further change still produced a "
                          "notification at the client")
        got = [e for e in sim.log[:mark] if e["e"] == "rsp" and e.get("n") == 0 and
               e["tok"] == tok.hex()]
        stats["observe_responses"] = stats.get("observe_responses", 0) + len(got)
        if len(got) < expect:
            missing = phase_of_count[len(got)] if len(got) < len(phase_of_count) else "?"
            run.violation("oscore-observe-response-not-delivered/%s" % missing.split("/")[0],
                          witness, "the client's handler saw %d of %d responses for token %s; "
                          "the one after step %r is missing" % (len(got), expect, tok.hex(),
                                                                missing))
        # reference: every protected response opens with RFC 8613 inputs
        cli = ref_ctx(c, True)
        req_pivs = []
        for e in sim.log:
            if e["e"] != "wire":
                continue
            try:
                m = cw.decode(bytes.fromhex(e["b"]), "udp")
                ov = [v for n, v in m["options"] if n == 9]
                if not ov or m["token"] != tok:
                    continue
                oo = O.decode_oscore_option(ov[0], strict=False)
            except Exception:
                continue
            if e["from"].startswith("10.0.0.1"):
                if oo["piv"] and oo["piv"] not in req_pivs:
                    req_pivs.append(oo["piv"])
                continue
            stats["observe_reference_opened"] = stats.get("observe_reference_opened", 0) + 1
            opened = False
            for piv in reversed(req_pivs):
                try:
                    O.unprotect_response(cli, canon(m), c["client_id"], piv)
                    opened = True
                    break
                except Exception:
                    continue
            if not opened:
                kind = "with-own-piv" if oo["piv"] else "without-piv"
                run.violation("oscore-observe-response-does-not-open/%s" % kind, dict(
                    witness, datagram=e["b"], request_pivs=[p.hex() for p in req_pivs]),
                    "protected response %s does not open with the reference for any request "
                    "Partial IV that carried its token" % e["b"])
        # RFC 8613 4.1.3.5.2: the Observe value the client application is given for a
        # notification that carries its own Partial IV is the three least significant bytes
        # of that Partial IV (so that notifications can be ordered)
        notifs = []
        for e in sim.log:
            if e["e"] == "wire" and e["from"].startswith("10.0.0.2"):
                try:
                    m = cw.decode(bytes.fromhex(e["b"]), "udp")
                    ov = [v for n, v in m["options"] if n == 9]
                    if ov and m["token"] == tok:
                        notifs.append((e["t"], O.decode_oscore_option(ov[0], strict=False)["piv"]))
                except Exception:
                    pass
        for e in got:
            o6 = [x.split("=")[1] for x in (e.get("opts") or "").split(";") if x.startswith("6=")]
            # (the datagrams that can have caused this call: written at most 2 ms earlier)
            cands = [pv for t, pv in notifs if e["t"] - 2 <= t <= e["t"]]
            if not o6 or not cands or not all(cands):
                continue
            want = set(int.from_bytes(pv[-3:], "big") for pv in cands)
            have = int(o6[0], 16) if o6[0] else 0
            stats["observe_values_compared"] = stats.get("observe_values_compared", 0) + 1
            if have not in want:
                run.violation("oscore-notification-observe-value-not-from-its-partial-iv", dict(
                    witness, delivered=o6[0], partial_ivs=[pv.hex() for pv in cands]),
                    "a notification protected under Partial IV %s was handed to the "
                    "application with Observe %s" % ("/".join(pv.hex() for pv in cands),
                                                     o6[0] or "(empty)"))
                break
        world.teardown_check(run, "C14/observe", w, witness)
    finally:
        if not w.closed:
            w.close(kill=True)


def work(job):
    items, exe, tamper_every = job
    run = common.Run("C14", "quick", "exploration")
    stats = dict(requests=0, responses=0, tampered=0, tamper_rejected=0, other_context=0)
    sigs = set()
    n = 0
    for it in items:
        r = common.rng("c14-%d" % it)
        c = gen_ctx(r)
        witness = {"item": it, "seed": common.seed(),
                   "ctx": {k: (v.hex() if isinstance(v, bytes) else v) for k, v in c.items()}}
        w = None
        try:
            rsp = {"code": r.choice([0x41, 0x43, 0x44, 0x45, 0x45, 0x84, 0x80]),
                   "payload": bytes(r.getrandbits(8) for _ in range(r.choice([0, 5, 40, 300]))),
                   "options": r.sample(RSP_OPTS, r.choice([0, 1, 2]))}
            w, sim = setup(exe, r, c, False, rsp)
            req = gen_request(r, it)
            witness["request"] = {k: (v.hex() if isinstance(v, bytes) else repr(v))
                                  for k, v in req.items()}
            sim.cmd(send_line(req))
            sim.run(horizon=20000)
            D = check_exchange(run, sim, c, req, rsp, witness, stats)
            sigs.add((len(c["client_id"]), len(c["server_id"]), len(c["idctx"] or b""),
                      bool(c["salt"]), c["start"].bit_length() // 8, req["code"],
                      tuple(sorted(set(nn for nn, _ in req["options"]))), len(req["payload"]) > 0))
            world.teardown_check(run, "C14", w, witness)
            if it % 3 == 0:
                observe_history(exe, r, c, run, dict(witness), stats)
            if it % 3 == 1 and info_fits(c):
                proxy_uri_case(exe, r, c, run, dict(witness), stats)
            if D is not None and it % tamper_every == 5 and len(D) <= 1152:
                response_tamper_sweep(exe, r, c, rsp, req, run, dict(witness), stats)
            if D is not None and it % tamper_every == 0:
                # tamper sweep against a fresh server: all variants first, then the genuine one
                w2, sim2 = setup(exe, r, c, False, rsp)
                try:
                    variants = tamper_variants(D)
                    for kind, T in variants:
                        mark = len(sim2.log)
                        # one command per variant: replies are inspected, not delivered
                        sim2.log.extend(w2.cmd("deliver 10.0.0.1:40000 %s %s" % (SERVER, T.hex())))
                        stats["tampered"] += 1
                        ran = [e for e in sim2.log[mark:] if e["e"] == "req"]
                        if ran:
                            run.violation("tampered-request-reached-handler/%s" % kind,
                                          dict(witness, tampered=T.hex(), genuine=D.hex()),
                                          "variant %s of the protected request invoked the "
                                          "handler" % kind)
                        else:
                            stats["tamper_rejected"] += 1
                        for e in sim2.log[mark:]:
                            if e["e"] == "wire":
                                try:
                                    mm = cw.decode(bytes.fromhex(e["b"]), "udp")
                                except Exception:
                                    continue
                                if mm["code"] and not (0x80 <= mm["code"] < 0xA0):
                                    run.violation("tampered-request-got-non-error-reply", dict(
                                        witness, tampered=T.hex()), "reply %s" % e["b"])
                    # other contexts
                    for label, c2 in (("other-secret", dict(c, secret=bytes(16))),
                                      ("other-id-context", dict(c, idctx=b"\x99\x98")),
                                      ("other-recipient-id", dict(c, client_id=c["client_id"] +
                                                                   b"\x01"))):
                        w3, sim3 = setup(exe, r, c2, False, rsp)
                        try:
                            sim3.log.extend(w3.cmd("deliver 10.0.0.1:40000 %s %s" % (SERVER,
                                                                                     D.hex())))
                            stats["other_context"] += 1
                            if any(e["e"] == "req" for e in sim3.log):
                                run.violation("request-under-%s-reached-handler" % label,
                                              dict(witness, datagram=D.hex()),
                                              "a recipient with %s accepted the message" % label)
                        finally:
                            w3.close()
                    mark = len(sim2.log)
                    sim2.log.extend(w2.cmd("deliver 10.0.0.1:40000 %s %s" % (SERVER, D.hex())))
                    if not any(e["e"] == "req" for e in sim2.log[mark:]):
                        run.violation("genuine-request-rejected-after-forgeries", witness,
                                      "after %d tampered variants the untouched message was not "
                                      "accepted" % len(variants))
                finally:
                    w2.close()
        except ContextRefused as cr:
            stats["context_refused_id_context_too_long"] = \
                stats.get("context_refused_id_context_too_long", 0) + 1
            # refusing has to be clean as well: nothing leaked, nothing freed twice
            world.teardown_check(run, "C14", cr.w, witness)
        except world.WorldCrash as e:
            world.crash_violation(run, "C14", e, witness)
        except common.Inconclusive:
            stats["inconclusive"] = stats.get("inconclusive", 0) + 1
        finally:
            if w is not None and not w.closed:
                w.close(kill=True)
        n += 1
    return n, sigs, run.export(), stats


def main(tier):
    run = common.Run("C14", tier, "exploration")
    run.rule = ("client node <-> server node with generated security contexts (sender/recipient "
                "ids of 0..7 bytes, id context present/absent, master salt present/absent, start "
                "sequence numbers 0..2^40-10), all request methods, class E / class U option "
                "mixes, payload 0..1024, several response codes/options; every protected "
                "datagram is compared byte for byte with vf/refs/oscore.py; for a subset every "
                "single-bit flip and truncation of ciphertext and OSCORE option value plus three "
                "foreign contexts, and for another subset the same sweep over the protected "
                "RESPONSE delivered to the client (k/h flag bits of a response excepted); distinct_nontrivial = distinct (id lengths, id context, salt, "
                "PIV length, method, option set, payload) tuples")
    run.assumptions = ["vf/refs/oscore.py + aesccm.py (self-tested against FIPS-197, RFC 3610, "
                       "RFC 5869 and all RFC 8613 appendix C vectors)",
                       "Appendix B.1.2 is switched off in these runs (C15 covers it); tampered "
                       "variants are delivered before the genuine datagram to one recipient"]
    exe = build.ensure_world("asan")
    total, tamper_every = (640, 10) if tier == "quick" else (6000, 8)
    chunk = 8
    jobs = [(list(range(i, min(total, i + chunk))), exe, tamper_every)
            for i in range(0, total, chunk)]
    stats = {}
    for n, sigs, vios, st in common.parallel_map(work, jobs):
        run.evaluations += n
        run.nontrivial |= sigs
        run.merge(vios)
        for k, v in st.items():
            stats[k] = stats.get(k, 0) + v
    run.extra.update(stats)
    run.sample({"example": "CON PUT /r with Content-Format, Uri-Query, 100-byte payload, "
                           "sender id 2 bytes, id context 8 bytes, PIV 2^32+5"})
    run.require("requests_compared", stats.get("requests", 0), 100)
    run.require("tampered_variants", stats.get("tampered", 0), 1000)
    return run.finish()
