"""C08 - NSTART bounds in-flight Confirmables; held messages go out in order,
none lost.  Client node -> raw peers that acknowledge/reset only what they
received; window/conservation model over the wire trace."""
from .. import build, common, world
from ..refs import coapwire as cw

PEER = "10.0.9.%d:5683"


def hdr(b):
    return (b[0] >> 4) & 3, b[1], (b[2] << 8) | b[3]


def empty(typ, mid):
    return bytes([0x40 | (typ << 4), 0, mid >> 8, mid & 255])


def scenario(exe, r):
    nstart = r.choice([1, 1, 2, 3, 4])
    nsess = r.choice([1, 1, 2, 3])
    nmsg = r.choice([1, 3, 5, 8, 12, 20])
    mr = r.choice([1, 2, 4])
    stagger = r.choice(["burst", "burst", "stagger", "slow"])
    fail_at = r.choice([None, None, None, "early", "mid"])
    w = world.World(exe, seed=r.getrandbits(30))
    sim = world.Sim(w, latency=0)
    sim.add_node(0)
    # one datagram write of the run fails (ENOBUFS): a Confirmable is still owed its
    # retransmissions and its outcome, a held one its turn
    failsend = r.choice([1, 2, 3, 4, 6, 9]) if r.random() < 0.25 else 0
    if failsend:
        sim.cmd("failsend %d" % failsend)
        sim.log.append({"e": "failsend_armed", "t": sim.now, "k": failsend})
    for s in range(nsess):
        sim.cmd("sess 0 %d udp %s nstart=%d max_retransmit=%d" % (s, PEER % (s + 1), nstart, mr))
    msgs = []
    t = 0
    for m in range(nmsg):
        sid = r.randrange(nsess)
        typ = 1 if r.random() < 0.25 else 0
        tok = bytes([0xB0, m, sid])
        if stagger == "stagger":
            t += r.choice([0, 0, 1, 30, 700, 2500])
        elif stagger == "slow":
            t += r.choice([0, 1500, 4000])
        msgs.append({"t": t, "sid": sid, "type": typ, "tok": tok,
                     "pack": r.choice([1.0, 1.0, 0.7, 0.4, 0.0]),
                     "rst": r.random() < 0.15,
                     "delay": r.choice([0, 1, 50, 900, 2500, 3500])})
    # the application reacts from inside its handlers: when the response (a third of the
    # peers' ACKs carry one) or the NACK (Reset, give-up) for some message arrives, the
    # handler submits one more request on that session.  Such a message was submitted after
    # everything still held and takes its turn behind it.
    chained = []
    if r.random() < 0.4:
        for m in list(msgs):
            if m["type"] == 0 and r.random() < 0.35 and len(chained) < 6:
                c = {"t": None, "sid": m["sid"], "type": 1 if r.random() < 0.2 else 0,
                     "tok": bytes([0xB1, m["tok"][1], m["sid"]]), "chained_to": m["tok"],
                     "pack": r.choice([1.0, 1.0, 0.7, 0.0]), "rst": r.random() < 0.15,
                     "delay": r.choice([0, 1, 50, 900, 2500]), "piggy": r.random() < 0.5}
                m["piggy"] = True
                chained.append(c)
                sim.cmd("chain 0 %s %s type=%d" % (m["tok"].hex(), c["tok"].hex(), c["type"]))
    for m in msgs:
        m.setdefault("piggy", r.random() < 0.3)
    plans = dict((m["tok"], m) for m in msgs + chained)
    pr = common.rng("c08-peer-%d" % r.getrandbits(30))

    def peer(sm, frm, to, data):
        typ, code, mid = hdr(data)
        if typ != 0:
            return
        try:
            tok = cw.decode(data, "udp")["token"]
        except Exception:
            return
        pl = plans.get(tok)
        if not pl:
            return
        if pr.random() < pl["pack"]:
            d = pl["delay"] if pr.random() < 0.7 else pr.choice([0, 5, 1200])
            if pl["rst"]:
                sm.inject(to, frm, empty(3, mid), d)
            elif pl["piggy"]:
                sm.inject(to, frm, cw.encode(cw.msg(0x45, type=2, mid=mid, token=tok,
                                                    payload=b"r"), "udp"), d)
            else:
                sm.inject(to, frm, empty(2, mid), d)

    for s in range(nsess):
        sim.peers[PEER % (s + 1)] = peer
    def submit(sm, m):
        evs = sm.cmd("send 0 %d type=%d code=1 token=%s opts=11=61" % (m["sid"], m["type"],
                                                                     m["tok"].hex()))
        if any(e["e"] == "sent" and e.get("mid", 0) == -1 for e in evs):
            m["refused"] = True      # coap_send() told the application: not accepted

    for m in msgs:
        sim.call_at(sim.now + m["t"], lambda sm, m=m: submit(sm, m))
    failed = {}
    if fail_at:
        fs = r.randrange(nsess)
        ft = 1 if fail_at == "early" else r.choice([500, 2100, 5000])

        def do_fail(sm, fs=fs):
            failed[fs] = sm.now
            sm.log.append({"e": "app_disconnect", "t": sm.now, "sid": fs})
            sm.cmd("disconnect 0 %d" % fs)
        # no further submissions on that session after the failure
        msgs[:] = [m for m in msgs]
        sim.call_at(sim.now + ft, do_fail)
    # an ICMP "port unreachable" reaches the client's socket at some moment (the peer's port
    # was closed for an instant): libcoap tells the application (NACK ICMP_ISSUE) and carries
    # on; nothing that is in flight or held may get lost over it
    icmp = None
    if r.random() < 0.3:
        isid = r.randrange(nsess)
        icmp = r.choice([1, 40, 500, 2100, 4100])
        local = [e["local"] for e in sim.log if e["e"] == "sess" and e.get("sid") == isid][0]

        def do_icmp(sm, isid=isid, local=local):
            if isid in failed:
                return
            sm.log.append({"e": "icmp_injected", "t": sm.now, "sid": isid})
            sm.cmd("deliver %s %s - icmp=1" % (PEER % (isid + 1), local))
        sim.call_at(sim.now + icmp, do_icmp)
    sim.run(horizon=900000)
    # what the handlers submitted, as the harness reports it
    for c in chained:
        for i, ev in enumerate(sim.log):
            if ev["e"] == "sending" and ev.get("chained") and ev.get("tok") == c["tok"].hex():
                c["t"] = ev["t"] - sim.t0
                c["from_handler"] = ev["chained"]
                nxt = [e for e in sim.log[i + 1:i + 12] if e["e"] == "sent" and
                       e.get("tok") == c["tok"].hex()]
                if nxt and nxt[0]["mid"] < 0:
                    c["refused"] = True
                msgs.append(c)
                break
    sig = (nstart, nsess, nmsg, mr, stagger, fail_at, icmp is not None, failsend,
           len([c for c in chained if c["t"] is not None]),
           tuple(sorted(set((m["type"], m["pack"], m["rst"], m["delay"]) for m in msgs)))[:6])
    return w, sim, msgs, nstart, failed, sig


def judge(run, sim, msgs, nstart, failed, witness, stats):
    sess_peer = {}
    for ev in sim.log:
        if ev["e"] == "sess" and ev.get("ok"):
            sess_peer[ev["sid"]] = (ev["local"], ev["remote"])
    by_tok = dict((m["tok"], m) for m in msgs)
    mid_of = {}          # token -> set of mids seen on the wire
    first_tx = {}        # token -> time
    inflight = {}        # sid -> {mid: token}
    submitted_order = {}
    first_order = {}
    ended = {}           # token -> list of terminal events
    submit_time = {}
    sid_of_addr = dict((v[0], k) for k, v in sess_peer.items())
    fail_time = {}
    for ev in sim.log:
        k = ev["e"]
        if k == "app_disconnect":
            fail_time[ev["sid"]] = ev["t"]
            # everything of that session leaves the window
            inflight[ev["sid"]] = {}
        elif k == "sending":
            pass
        elif k in ("wire", "wirefail"):
            # a write the socket refused is a transmission the library made and the network
            # lost: the message has left the delay queue and occupies its NSTART slot
            b = bytes.fromhex(ev["b"])
            typ, code, mid = hdr(b)
            if code == 0:
                continue
            if k == "wirefail":
                stats["failed_writes"] = stats.get("failed_writes", 0) + 1
            try:
                tok = cw.decode(b, "udp")["token"]
            except Exception:
                continue
            m = by_tok.get(tok)
            if not m or m.get("refused"):
                continue
            sid = m["sid"]
            mid_of.setdefault(tok, set()).add(mid)
            if tok not in first_tx:
                first_tx[tok] = ev["t"]
                first_order.setdefault(sid, []).append(tok)
                if sid in fail_time and ev["t"] >= fail_time[sid] and m["t"] + sim.t0 < fail_time[sid]:
                    run.violation("held-message-transmitted-after-session-failure",
                                  dict(witness, token=tok.hex()),
                                  "token %s first transmitted at %d after the session failed "
                                  "at %d" % (tok.hex(), ev["t"], fail_time[sid]))
                if typ == 0:
                    fl = inflight.setdefault(sid, {})
                    fl[mid] = tok
                else:
                    if ev["t"] != m["t"] + sim.t0:
                        run.violation("non-delayed", dict(witness, token=tok.hex()),
                                      "NON token %s submitted at %d left at %d" %
                                      (tok.hex(), m["t"] + sim.t0, ev["t"]))
        elif k == "rx":
            b = bytes.fromhex(ev["b"])
            typ, code, mid = hdr(b)
            sid = sid_of_addr.get(ev["to"])
            if sid is None or typ not in (2, 3):
                continue
            fl = inflight.setdefault(sid, {})
            if mid in fl:
                tok = fl.pop(mid)
                ended.setdefault(tok, []).append(("ack" if typ == 2 else "rst", ev["t"]))
        elif k == "nack":
            tokh = ev.get("tok")
            if tokh is None:
                continue
            tok = bytes.fromhex(tokh)
            if tok not in by_tok:
                continue
            sid = by_tok[tok]["sid"]
            if ev["reason"] == 4:
                # COAP_NACK_ICMP_ISSUE is a notice, not an outcome: the message stays in flight
                stats["icmp_notices"] = stats.get("icmp_notices", 0) + 1
                continue
            fl = inflight.setdefault(sid, {})
            for mid, t in list(fl.items()):
                if t == tok:
                    del fl[mid]
            ended.setdefault(tok, []).append(("nack%d" % ev["reason"], ev["t"]))
    # window: at the instant of every first transmission, the messages of that session that
    # were first sent at or before it and have not ended strictly before or AT that instant
    # (an ACK delivery / give-up and the release of the next message happen in one step)
    end_time = {}
    for tok, ends in ended.items():
        end_time[tok] = min(t for _, t in ends)
    for sid, ft in fail_time.items():
        for m in msgs:
            if m["sid"] == sid and m["tok"] in first_tx:
                end_time[m["tok"]] = min(end_time.get(m["tok"], ft), ft)
    for m in msgs:
        if m["type"] != 0 or m["tok"] not in first_tx:
            continue
        t = first_tx[m["tok"]]
        live = [x["tok"] for x in msgs if x["type"] == 0 and x["sid"] == m["sid"] and
                x["tok"] in first_tx and first_tx[x["tok"]] <= t and
                end_time.get(x["tok"], t + 1) > t]
        stats["max_inflight"] = max(stats["max_inflight"], len(live))
        if len(live) > nstart:
            run.violation("more-than-nstart-in-flight", dict(witness, at=t),
                          "session %d: %d Confirmables in flight at %d (NSTART %d): %r" %
                          (m["sid"], len(live), t, nstart, [x.hex() for x in live]))
    # per-message rules
    for m in msgs:
        tok = m["tok"]
        w = dict(witness, token=tok.hex())
        if m.get("refused"):
            stats["refused_by_api"] = stats.get("refused_by_api", 0) + 1
            continue
        if m["type"] == 1:
            stats["non"] += 1
            if tok not in first_tx and not (m["sid"] in fail_time and
                                            m["t"] + sim.t0 >= fail_time[m["sid"]]):
                run.violation("non-never-sent", w, "NON token %s never left" % tok.hex())
            continue
        stats["con"] += 1
        after_fail = m["sid"] in fail_time and m["t"] + sim.t0 >= fail_time[m["sid"]]
        if after_fail:
            continue        # submitted on a session the application had already failed
        ends = ended.get(tok, [])
        kinds = [k for k, _ in ends]
        # an ACK followed by a NACK(RST) for a later RST of the same id is the peer's doing
        terminal = [k for k in kinds if k in ("ack", "nack0", "nack1", "nack2", "nack3")]
        nack_calls = [k for k in kinds if k.startswith("nack")]
        if len(mid_of.get(tok, ())) > 1:
            run.violation("message-transmitted-under-two-ids", w, "token %s mids %r" %
                          (tok.hex(), sorted(mid_of[tok])))
        if tok not in first_tx:
            if m["sid"] in fail_time:
                stats["held_at_failure"] += 1
                if len(nack_calls) != 1:
                    run.violation("held-message-not-nacked-exactly-once-on-failure", w,
                                  "token %s held when the session failed: NACK calls %r" %
                                  (tok.hex(), ends))
            else:
                run.violation("held-message-never-transmitted", w,
                              "token %s submitted at %d never transmitted and never NACKed: %r"
                              % (tok.hex(), m["t"] + sim.t0, ends))
            continue
        if first_tx[tok] > m["t"] + sim.t0:
            stats["held_then_sent"] += 1
        if not terminal:
            run.violation("message-without-outcome", w, "token %s: first sent at %d, no ACK, no "
                          "RST, no NACK by the horizon" % (tok.hex(), first_tx[tok]))
        # conservation: an acked message is not also nacked for giving up / failure
        if "ack" in kinds and kinds.index("ack") == 0 and any(k in ("nack0", "nack1")
                                                                for k in kinds):
            if not (m["sid"] in fail_time):
                run.violation("acked-and-nacked", w, "token %s: %r" % (tok.hex(), ends))
        stats["outcomes"][terminal[0] if terminal else "none"] = \
            stats["outcomes"].get(terminal[0] if terminal else "none", 0) + 1
    # submission order of first transmissions per session (CON only)
    for m in msgs:
        if m.get("chained_to"):
            k = "submitted_from_%s_handler" % m.get("from_handler", "?")
            stats[k] = stats.get(k, 0) + 1
            if m["type"] == 0 and m["tok"] in first_tx and first_tx[m["tok"]] > m["t"] + sim.t0:
                stats["handler_submission_held"] = stats.get("handler_submission_held", 0) + 1
    sub_pos = {}
    for i, ev in enumerate(sim.log):
        if ev["e"] == "sending" and ev.get("tok"):
            sub_pos.setdefault(bytes.fromhex(ev["tok"]), i)
    for sid in set(m["sid"] for m in msgs):
        # (submission order = order of the coap_send() calls in the execution, including the
        # ones made from inside handlers)
        want = [m["tok"] for m in sorted(msgs, key=lambda x: (sub_pos.get(x["tok"], 1 << 60),
                                                              x["t"], msgs.index(x)))
                if m["sid"] == sid and m["type"] == 0 and m["tok"] in first_tx]
        got = [t for t in first_order.get(sid, []) if by_tok[t]["type"] == 0]
        if got != want:
            run.violation("held-messages-out-of-order", dict(witness, session=sid),
                          "session %d: submission order %r, first transmissions %r" %
                          (sid, [t.hex() for t in want], [t.hex() for t in got]))


def tcp_case(exe, r, run, stats, witness):
    """messages submitted on a TCP (or WebSocket) client session before the peer's CSM has
    arrived are held; the session then comes up (CSM delivered: all of them leave in submission
    order, once each, followed by later submissions) or fails (connection closed by the peer,
    or no CSM within the CSM timeout: one NACK for each, nothing transmitted)"""
    proto = r.choice(["tcp", "tcp", "ws"])
    n_before = r.choice([1, 2, 3, 5, 8])
    n_after = r.choice([0, 1, 3])
    fate = r.choice(["csm", "csm", "csm", "close", "release"])
    t_fate = r.choice([0, 1, 40, 600])
    w = world.World(exe, seed=r.getrandbits(30))
    witness["script"] = w.script
    witness["tcp"] = {"proto": proto, "before": n_before, "after": n_after, "fate": fate}
    log = []
    evs = w.cmd("node 0")
    evs = w.cmd("sess 0 0 %s 10.0.88.8:%d" % (proto, 80 if proto == "ws" else 5683))
    log += evs
    conn = [e["conn"] for e in evs if e["e"] == "tcp_connect"]
    if not conn:
        raise common.Inconclusive("no connection")
    conn = conn[0]
    if proto == "ws":
        import base64
        import hashlib
        reqb = b"".join(bytes.fromhex(e["b"]) for e in evs if e["e"] == "swrite")
        key = [ln.split(b":", 1)[1].strip() for ln in reqb.split(b"\r\n")
               if ln.lower().startswith(b"sec-websocket-key:")][0]
        acc = base64.b64encode(hashlib.sha1(key + b"258EAFA5-E914-47DA-95CA-C5AB0DC85B11").digest())
        log += w.cmd("stream %d 1 %s" % (conn, (
            b"HTTP/1.1 101 Switching Protocols\r\nUpgrade: websocket\r\nConnection: Upgrade\r\n"
            b"Sec-WebSocket-Accept: " + acc + b"\r\n\r\n").hex()))
    toks = []
    for k in range(n_before):
        tok = bytes([0xC8, k])
        toks.append(tok)
        log += w.cmd("send 0 0 type=%d code=1 token=%s opts=11=61" % (r.choice([0, 0, 1]), tok.hex()))
        if r.random() < 0.3:
            log += w.cmd("advance %d" % r.choice([1, 5, 50]))
            log += w.cmd("prepare 0")
    if t_fate:
        log += w.cmd("advance %d" % t_fate)
        log += w.cmd("prepare 0")
    csm = cw.encode(cw.msg(0xE1), "tcp" if proto == "tcp" else "ws")
    if proto == "ws":
        csm = cw.ws_frame(csm)
    if fate == "csm":
        log += w.cmd("stream %d 1 %s" % (conn, csm.hex()))
    elif fate == "close":
        log += w.cmd("stream_close %d 1" % conn)
    else:
        # no CSM comes (a client session waits for it without a limit of its own): after 10 s
        # the application gives the session up
        for _ in range(40):
            log += w.cmd("advance 250")
            log += w.cmd("prepare 0")
        log += w.cmd("release 0 0")
    log += w.cmd("prepare 0")
    after = []
    if fate == "csm":
        for k in range(n_after):
            tok = bytes([0xC9, k])
            after.append(tok)
            log += w.cmd("send 0 0 type=0 code=1 token=%s opts=11=61" % tok.hex())
            log += w.cmd("prepare 0")
    log += w.cmd("advance 5000")
    log += w.cmd("prepare 0")
    # what left the client, in order
    out = b"".join(bytes.fromhex(e["b"]) for e in log if e["e"] == "swrite" and e.get("conn") == conn)
    if proto == "ws":
        hs_end = out.find(b"\r\n\r\n")
        frames, _rest = cw.ws_parse_frames(out[hs_end + 4:] if hs_end >= 0 else b"")
        raws = [pl for _fin, op, pl in frames if op == 2]
    else:
        raws, _rest = cw.split_tcp_stream(out)
    sent_toks = []
    for raw in raws:
        try:
            m = cw.decode(raw, "tcp" if proto == "tcp" else "ws")
        except Exception:
            continue
        if 1 <= m["code"] <= 31:
            sent_toks.append(m["token"])
    nacks = {}
    for e in log:
        if e["e"] == "nack" and e.get("tok"):
            nacks[e["tok"]] = nacks.get(e["tok"], 0) + 1
    refused = set()
    # (a submission the API refused is not one the library took on)
    pend = None
    for e in log:
        if e["e"] == "sending":
            pend = e.get("tok")
        elif e["e"] == "sent" and e.get("mid", 0) < 0 and pend:
            refused.add(bytes.fromhex(pend))
    held = [t for t in toks if t not in refused]
    stats["tcp_cases"] = stats.get("tcp_cases", 0) + 1
    stats["tcp_held"] = stats.get("tcp_held", 0) + len(held)
    loc = "%s/%s" % (proto, fate)
    if fate == "csm":
        want = held + [t for t in after if t not in refused]
        if sent_toks != want:
            run.violation("held-messages-out-of-order-or-lost/before-csm/%s" % proto, witness,
                          "submitted before/after the peer's CSM: %r; left the client: %r" %
                          ([t.hex() for t in want], [t.hex() for t in sent_toks]))
        if any(nacks.get(t.hex()) for t in want):
            run.violation("transmitted-and-nacked/%s" % loc, witness, "NACKs %r" % nacks)
        stats["tcp_established"] = stats.get("tcp_established", 0) + 1
    else:
        if any(t in sent_toks for t in held):
            run.violation("held-message-transmitted-after-session-failure/%s" % loc, witness,
                          "left the client: %r" % [t.hex() for t in sent_toks])
        bad = [(t.hex(), nacks.get(t.hex(), 0)) for t in held if nacks.get(t.hex(), 0) != 1]
        if bad:
            run.violation("held-message-not-nacked-exactly-once-on-failure/%s" % loc, witness,
                          "held when the session failed (%s): (token, NACK calls) %r" % (fate, bad))
        stats["tcp_failed"] = stats.get("tcp_failed", 0) + 1
    return w, ("tcp", proto, n_before, n_after, fate, t_fate)


def server_mcast_case(exe, r, run, stats, witness):
    """server side: an observer with Confirmable notifications that it does not acknowledge
    (they are in flight until given up) also sends a multicast request, whose answer the
    server delays (leisure) and sends from its retransmission queue.  However the timers
    fall, the observer's session never has more than NSTART Confirmable notifications in
    flight"""
    nstart = r.choice([1, 1, 2])
    w = world.World(exe, seed=r.getrandbits(30))
    sim = world.Sim(w, latency=1)
    witness["script"] = w.script
    witness["server_mcast"] = {"nstart": nstart}
    sim.add_node(0)
    if nstart > 1:
        sim.cmd("ctx 0 srv_nstart=%d" % nstart)
    sim.cmd("ep 0 udp 10.0.0.1:5683")
    sim.cmd("res 0 %s body=counter obs=1 flags=2" % b"c".hex())
    sim.cmd("res 0 %s body=fixed:6d" % b"m".hex())
    peer = "10.0.7.1:50000"
    seen = []

    def p(sm, frm, to, data):
        try:
            m = cw.decode(data, "udp")
        except Exception:
            return
        seen.append((sm.now, m))
        # only the registration reply is acknowledged (it is piggybacked anyway)
    sim.peers[peer] = p
    sim.inject(peer, "10.0.0.1:5683", cw.encode(cw.msg(1, type=0, mid=1, token=b"\x01",
                                                       options=[(6, b""), (11, b"c")]), "udp"))
    sim.run(until=sim.elapsed() + 50, quiesce=False)
    mid = 10
    for step in range(r.choice([3, 5, 8])):
        x = r.random()
        if x < 0.5:
            sim.cmd("notify 0 c")
        else:
            mid += 1
            sim.inject(peer, "224.0.1.187:5683", cw.encode(
                cw.msg(1, type=1, mid=mid, token=bytes([2, step]), options=[(11, b"m")]), "udp"))
            stats["server_mcast_requests"] = stats.get("server_mcast_requests", 0) + 1
        sim.run(until=sim.elapsed() + r.choice([10, 900, 3000, 7000]), quiesce=False)
    sim.cmd("notify 0 c")
    sim.run(until=sim.elapsed() + 4000, quiesce=False)
    # in flight at time t: Confirmable notifications first sent at or before t and not yet
    # given up (the peer acknowledges none): give-up comes ~45 s or more after the first
    # transmission with the default parameters, the run is shorter than that per message
    first = {}
    for t, m in seen:
        if m["type"] == 0 and m["code"] == 0x45:
            first.setdefault(m["mid"], t)
    nacked = {}
    for e in w.cmd("peek 0"):
        pass
    times = sorted(first.values())
    stats["server_mcast_cases"] = stats.get("server_mcast_cases", 0) + 1
    for i, t in enumerate(times):
        live = [x for x in times[:i + 1] if t - x < 40000]
        if len(live) > nstart:
            run.violation("more-than-nstart-in-flight/server-notifications", dict(
                witness, first_transmissions=sorted(first.items(), key=lambda kv: kv[1])),
                "NSTART %d: %d unacknowledged Confirmable notifications in flight at %d "
                "(first transmissions %r)" % (nstart, len(live), t, live))
            break
    return w, ("server-mcast", nstart, len(first))


def same_token_case(exe, r, run, stats, witness):
    """Confirmables that share a token (an application refreshes or cancels an observation
    under the token it registered with) on a session with NSTART 1: the later ones are held
    while the first is in flight.  The peer acknowledges or resets what it received.  Every
    one of them is transmitted (its own message id) or reported by a NACK - a Reset for the
    one in flight says nothing about the ones still held"""
    k = r.choice([2, 2, 3, 4])
    w = world.World(exe, seed=r.getrandbits(30))
    sim = world.Sim(w, latency=1)
    witness["script"] = w.script
    sim.add_node(0)
    if r.random() < 0.6:
        # the context also serves a resource (a Reset then goes looking for observers)
        sim.cmd("res 0 %s body=fixed:6d" % b"x".hex())
    sim.cmd("sess 0 0 udp %s nstart=1" % (PEER % 1))
    fate = [r.choice(["ack", "rst", "rst", "piggy"]) for _ in range(k)]
    witness["same_token"] = {"messages": k, "peer_answers": fate}
    seen = []           # message ids in order of first appearance

    def peer(sm, frm, to, data):
        typ, code, mid = hdr(data)
        if typ != 0:
            return
        if mid not in seen:
            seen.append(mid)
        f = fate[min(seen.index(mid), k - 1)]
        d = r.choice([1, 5, 300])
        if f == "rst":
            sm.inject(to, frm, empty(3, mid), d)
        elif f == "piggy":
            sm.inject(to, frm, cw.encode(cw.msg(0x45, type=2, mid=mid, token=b"\x77\x01",
                                                payload=b"r"), "udp"), d)
        else:
            sm.inject(to, frm, empty(2, mid), d)
    sim.peers[PEER % 1] = peer
    refused = 0
    for i in range(k):
        obs = "" if i else "6=,"
        evs = sim.cmd("send 0 0 type=0 code=1 token=7701 opts=%s11=61" % obs)
        if any(e["e"] == "sent" and e.get("mid", 0) == -1 for e in evs):
            refused += 1
        if r.random() < 0.3:
            sim.run(until=sim.elapsed() + r.choice([1, 3]), quiesce=False)
    sim.run(horizon=400000)
    nacks = sum(1 for e in sim.log if e["e"] == "nack" and e.get("n") == 0 and
                e.get("tok") == "7701" and e.get("reason") in (0, 1))
    # a Reset NACK belongs to a message that WAS transmitted; what must add up is: every
    # accepted submission shows up on the wire under its own message id, or is NACKed unsent
    sent_mids = len(seen)
    stats["same_token_cases"] = stats.get("same_token_cases", 0) + 1
    if sent_mids + 0 < k - refused and sent_mids + nacks < k - refused:
        run.violation("held-message-lost/same-token", witness,
                      "%d Confirmables with one token submitted (NSTART 1, %d refused by "
                      "coap_send), peer answers %r: %d message ids reached the wire, %d NACKs"
                      % (k, refused, fate, sent_mids, nacks))
    return w, ("same-token", k, tuple(fate))


def work(job):
    items, exe = job
    run = common.Run("C08", "quick", "exploration")
    stats = dict(con=0, non=0, held_then_sent=0, held_at_failure=0, max_inflight=0, outcomes={})
    sigs = set()
    n = 0
    sample = None
    for it in items:
        r = common.rng("c08-%d" % it)
        w = None
        witness = {"item": it, "seed": common.seed()}
        try:
            if it % 16 == 5:
                w, sig = server_mcast_case(exe, r, run, stats, witness)
                world.teardown_check(run, "C08", w, witness)
                sigs.add(sig)
                n += 1
                continue
            if it % 16 == 13:
                w, sig = same_token_case(exe, r, run, stats, witness)
                world.teardown_check(run, "C08", w, witness)
                sigs.add(sig)
                n += 1
                continue
            if it % 8 == 7:
                w, sig = tcp_case(exe, r, run, stats, witness)
                world.teardown_check(run, "C08", w, witness)
                sigs.add(sig)
                n += 1
                continue
            w, sim, msgs, nstart, failed, sig = scenario(exe, r)
            witness["script"] = [x for x in w.script if not x.startswith(("peek", "prepare"))][-300:]
            witness["nstart"] = nstart
            judge(run, sim, msgs, nstart, failed, witness, stats)
            world.teardown_check(run, "C08", w, witness)
            sigs.add(sig)
            n += 1
            if sample is None:
                sample = {"nstart": nstart, "messages": len(msgs), "signature": repr(sig)[:200]}
        except world.WorldCrash as e:
            world.crash_violation(run, "C08", e, witness)
            n += 1
        except common.Inconclusive:
            stats["inconclusive"] = stats.get("inconclusive", 0) + 1
        finally:
            if w is not None and not w.closed:
                w.close(kill=True)
    return n, sigs, run.export(), stats, sample


def main(tier):
    run = common.Run("C08", tier, "exploration")
    run.rule = ("bursts of 1..20 CON/NON submissions (at one instant, staggered, slow) on 1-3 "
                "sessions with NSTART 1..4 and MAX_RETRANSMIT 1/2/4; raw peers ACK or RST each "
                "received copy with probability p after delays 0..3.5 s (so retransmissions and "
                "duplicate ACKs interleave with new submissions); optional application-level "
                "session failure early / mid-burst; window, order and conservation judged over "
                "the trace; one case in eight: a TCP or WebSocket client session on which 1..8 "
                "messages are submitted before the peer's CSM, which then arrives, or the peer "
                "closes, or no CSM comes and the application releases the session; one in sixteen: a "
                "server whose observer leaves Confirmable notifications unacknowledged and sends "
                "multicast requests (delayed answers from the retransmission queue); distinct_nontrivial = distinct scenario "
                "signatures")
    run.assumptions = ["the peer only acknowledges/resets what it received (generator)",
                       "in-flight = first transmitted and not yet acked/reset/given up, "
                       "evaluated in event order"]
    exe = build.ensure_world("asan")
    total = 4000 if tier == "quick" else 50000
    chunk = 15
    jobs = [(list(range(i, min(total, i + chunk))), exe) for i in range(0, total, chunk)]
    stats = dict(outcomes={})
    for n, sigs, vios, st, sample in common.parallel_map(work, jobs):
        run.evaluations += n
        run.nontrivial |= sigs
        run.merge(vios)
        for k, v in st.items():
            if k == "outcomes":
                for kk, vv in v.items():
                    stats["outcomes"][kk] = stats["outcomes"].get(kk, 0) + vv
            elif k == "max_inflight":
                stats[k] = max(stats.get(k, 0), v)
            else:
                stats[k] = stats.get(k, 0) + v
        if sample:
            run.sample(sample)
    run.extra.update(stats)
    run.require("held_then_sent", stats.get("held_then_sent", 0), 300)
    run.require("held_at_failure", stats.get("held_at_failure", 0), 20)
    run.require("confirmables", stats.get("con", 0), 1000)
    run.require("submitted_from_rsp_handler", stats.get("submitted_from_rsp_handler", 0), 40)
    run.require("submitted_from_nack_handler", stats.get("submitted_from_nack_handler", 0), 20)
    run.require("handler_submission_held", stats.get("handler_submission_held", 0), 20)
    run.require("failed_writes", stats.get("failed_writes", 0), 50)
    run.require("tcp_established", stats.get("tcp_established", 0), 40)
    run.require("tcp_failed", stats.get("tcp_failed", 0), 20)
    run.require("server_mcast_requests", stats.get("server_mcast_requests", 0), 50)
    return run.finish()
