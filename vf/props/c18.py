"""C18 - any single allocation failure is survived: clean error, no leak,
endpoint still works.  One fresh closed-world process per (scenario, k): the
k-th allocation through libcoap's funnel (coap_malloc_type / coap_realloc_type,
interposed with ld --wrap) returns NULL."""
from .. import build, common, world
from ..refs import coapwire as cw

SERVER = "10.0.0.2:5683"


def go(sim, ms):
    """run the world for ms of virtual time from now (Sim.run's horizon is counted from the
    start of the simulation, so a second call with the same horizon would not move)"""
    sim.run(until=sim.elapsed() + ms, quiesce=False)


def base(sim):
    sim.add_node(0, block_mode=3)
    sim.add_node(1, block_mode=3)
    sim.cmd("ep 1 udp %s" % SERVER)
    sim.cmd("res 1 %s body=fixed:%s" % (b"r".hex(), b"hello".hex()))
    sim.cmd("sess 0 0 udp %s" % SERVER)


def s_exchange(sim):
    base(sim)
    sim.cmd("send 0 0 type=0 code=1 token=a1 opts=11=72")
    go(sim, 120000)
    sim.cmd("send 0 0 type=1 code=2 token=a2 opts=11=72,12= payload=7878")
    go(sim, 120000)


def s_block1(sim):
    base(sim)
    sim.cmd("res 1 %s store=1" % b"up".hex())
    sim.cmd("ctx 1 srv_mtu=128")
    sim.cmd("sess 0 1 udp %s mtu=128" % SERVER)
    sim.cmd("send 0 1 type=0 code=3 token=b1 opts=11=%s,12=2a large=150:7" % b"up".hex())
    go(sim, 120000)


def s_block2(sim):
    base(sim)
    sim.cmd("ctx 1 srv_mtu=128")
    sim.cmd("res 1 %s body=gen:150:9 large=1" % b"big".hex())
    sim.cmd("sess 0 1 udp %s mtu=128" % SERVER)
    sim.cmd("send 0 1 type=0 code=1 token=b2 opts=11=%s" % b"big".hex())
    go(sim, 120000)


def s_observe(sim):
    base(sim)
    sim.cmd("res 1 %s body=counter obs=1" % b"o".hex())
    sim.cmd("send 0 0 type=0 code=1 token=c1 opts=6=,11=6f")
    go(sim, 100000)
    for _ in range(3):
        sim.cmd("notify 1 o")
        sim.run(until=sim.elapsed() + 3000, quiesce=False)
    sim.cmd("cancelobs 0 0 c1 0")
    go(sim, 120000)


def s_uri(sim):
    base(sim)
    sim.cmd("urihelpers 0 0 %s" % b"coap://example.org:1234/a/%2e%2e/b/c?x=1&y=%41".hex())
    go(sim, 120000)


def s_setup_teardown(sim):
    sim.add_node(0, block_mode=1, session_timeout=30, max_idle=3)
    sim.cmd("ep 0 udp 10.0.0.1:5683")
    sim.cmd("ep 0 udp [fd00::1]:5683")
    sim.cmd("res 0 %s obs=1 body=counter attr=%s:%s,%s" % (b"a/b".hex(), b"rt".hex(),
                                                           b'"x y"'.hex(), b"if".hex()))
    sim.cmd("res 0 - kind=unknown")
    sim.cmd("sess 0 0 udp 10.0.9.9:5683")
    sim.cmd("sess 0 1 udp [fd00::9]:5683")
    req = cw.encode(cw.msg(1, type=0, mid=7, token=b"\x09", options=[(11, b".well-known"),
                                                                      (11, b"core")]), "udp")
    sim.inject("10.0.7.7:1234", "10.0.0.1:5683", req)
    sim.run(until=sim.elapsed() + 50, quiesce=False)


def s_tcp(sim):
    sim.enable_stream_relay()
    sim.add_node(0)
    sim.add_node(1)
    sim.cmd("ep 1 tcp %s" % SERVER)
    sim.cmd("ep 1 udp %s" % SERVER)
    sim.cmd("res 1 %s body=fixed:%s" % (b"r".hex(), b"hello".hex()))
    sim.cmd("sess 0 0 tcp %s" % SERVER)
    sim.cmd("send 0 0 type=0 code=1 token=a1 opts=11=72")
    go(sim, 120000)
    sim.cmd("send 0 0 type=0 code=2 token=a2 opts=11=72,12= payload=7878")
    go(sim, 120000)
    sim.cmd("release 0 0")
    go(sim, 120000)


def s_ws(sim):
    sim.enable_stream_relay()
    sim.add_node(0)
    sim.add_node(1)
    sim.cmd("ep 1 ws 10.0.0.2:80")
    sim.cmd("ep 1 udp %s" % SERVER)
    sim.cmd("res 1 %s body=fixed:%s" % (b"r".hex(), b"hello".hex()))
    sim.cmd("sess 0 0 ws 10.0.0.2:80")
    sim.cmd("send 0 0 type=0 code=1 token=a1 opts=11=72")
    go(sim, 120000)
    sim.cmd("release 0 0")
    go(sim, 120000)


def s_dtls(sim):
    sim.add_node(0)
    sim.add_node(1)
    sim.cmd("psk 1 hint=%s key=%s" % (b"h".hex(), b"secretkey".hex()))
    sim.cmd("ep 1 dtls 10.0.0.2:5684")
    sim.cmd("ep 1 udp %s" % SERVER)
    sim.cmd("res 1 %s body=fixed:%s" % (b"r".hex(), b"hello".hex()))
    sim.cmd("sess 0 0 dtls 10.0.0.2:5684 psk_id=%s psk_key=%s" % (b"me".hex(), b"secretkey".hex()))
    sim.cmd("send 0 0 type=0 code=1 token=a1 opts=11=72")
    go(sim, 30000)
    sim.cmd("release 0 0")
    go(sim, 30000)


OSC_CONF = ('master_secret,hex,"0102030405060708090a0b0c0d0e0f10"\nmaster_salt,hex,"9e7ca92223786340"\n'
            'sender_id,hex,"%s"\nrecipient_id,hex,"%s"\nreplay_window,integer,32\n'
            'ssn_freq,integer,1\nrfc8613_b_1_2,bool,false\n')


def s_oscore(sim):
    sim.add_node(0, block_mode=1)
    sim.add_node(1, block_mode=1)
    sim.cmd("oscore_server 1 %s" % (OSC_CONF % ("01", "")).encode().hex())
    sim.cmd("ep 1 udp %s" % SERVER)
    sim.cmd("res 1 %s body=fixed:%s" % (b"r".hex(), b"hello".hex()))
    sim.cmd("res 1 %s body=counter obs=1" % b"o".hex())
    sim.cmd("sess 0 0 udp %s oscore=%s" % (SERVER, (OSC_CONF % ("", "01")).encode().hex()))
    sim.cmd("send 0 0 type=0 code=1 token=a1 opts=11=72")
    go(sim, 100000)
    sim.cmd("send 0 0 type=0 code=1 token=a2 opts=6=,11=6f")
    go(sim, 100000)
    sim.cmd("notify 1 o")
    sim.run(until=sim.elapsed() + 3000, quiesce=False)
    sim.cmd("cancelobs 0 0 a2 0")
    go(sim, 100000)


def s_async(sim):
    base(sim)
    sim.cmd("res 1 %s body=fixed:%s sep=300" % (b"s".hex(), b"later".hex()))
    sim.cmd("send 0 0 type=0 code=1 token=a1 opts=11=73")
    go(sim, 120000)


def s_persist(sim):
    import tempfile
    d = tempfile.mkdtemp(prefix="vf-c18-")
    sim.persist_dir = d
    sim.add_node(0)
    sim.add_node(1)
    sim.cmd("ep 1 udp %s" % SERVER)
    sim.cmd("res 1 %s body=fixed:%s" % (b"r".hex(), b"hello".hex()))
    sim.cmd("res 1 - kind=unknown dyn=1")
    sim.cmd("persist 1 %s freq=2" % d)
    sim.cmd("sess 0 0 udp %s" % SERVER)
    sim.cmd("send 0 0 type=0 code=3 token=a1 opts=11=%s" % b"dyn".hex())
    go(sim, 100000)
    sim.cmd("send 0 0 type=0 code=1 token=a2 opts=6=,11=%s" % b"dyn".hex())
    go(sim, 100000)
    for _ in range(3):
        sim.cmd("notify 1 dyn")
        sim.run(until=sim.elapsed() + 3000, quiesce=False)
    sim.cmd("send 0 0 type=0 code=4 token=a3 opts=11=%s" % b"dyn".hex())
    go(sim, 100000)


def _blk(num, more, szx):
    v = (num << 4) | (more << 3) | szx
    return v.to_bytes((v.bit_length() + 7) // 8, "big") if v else b""


def s_block2_raw(sim):
    """a server that is not libcoap serves Block2 without Size2: the client's reassembly
    buffer grows block by block (coap_realloc_type)"""
    sim.add_node(0, block_mode=3)
    body = bytes((7 * i) & 255 for i in range(150))
    server = "10.0.0.9:5683"

    def serve(sm, frm, to, data):
        try:
            m = cw.decode(data, "udp")
        except Exception:
            return
        if not 1 <= m["code"] <= 31:
            return
        b2 = [v for n, v in m["options"] if n == 23]
        num = (int.from_bytes(b2[0], "big") >> 4) if b2 and b2[0] else 0
        part = body[num * 32:num * 32 + 32]
        more = 1 if num * 32 + 32 < len(body) else 0
        rsp = cw.msg(0x45, type=2, mid=m["mid"], token=m["token"],
                     options=[(23, _blk(num, more, 1))], payload=part)
        sm.inject(to, frm, cw.encode(rsp, "udp"))
    sim.peers[server] = serve
    sim.cmd("sess 0 0 udp %s" % server)
    sim.cmd("send 0 0 type=0 code=1 token=b3 opts=11=%s" % b"big".hex())
    go(sim, 120000)


def s_block1_raw(sim):
    """a client that is not libcoap uploads with Block1 without Size1, block 0 last: the
    server's reassembly buffer grows (coap_realloc_type)"""
    sim.add_node(1, block_mode=3)
    sim.cmd("ep 1 udp %s" % SERVER)
    sim.cmd("res 1 %s body=fixed:%s" % (b"r".hex(), b"hello".hex()))
    sim.cmd("res 1 %s store=1" % b"up".hex())
    body = bytes((11 * i) & 255 for i in range(80))
    peer = "10.0.0.8:40000"
    sim.peers[peer] = lambda *a: None
    for j, num in enumerate([1, 2, 3, 0, 4]):
        m = cw.msg(3, type=0, mid=0x5200 + j, token=b"\xb4", options=[
            (11, b"up"), (27, _blk(num, 1 if num < 4 else 0, 0))], payload=body[num * 16:num * 16 + 16])
        sim.inject(peer, SERVER, cw.encode(m, "udp"))
        go(sim, 20)
    go(sim, 120000)


SCENARIOS = {"block2-raw": s_block2_raw, "block1-raw": s_block1_raw, "exchange": s_exchange, "tcp": s_tcp, "ws": s_ws, "dtls": s_dtls, "oscore": s_oscore,
             "async": s_async, "persist": s_persist, "block1": s_block1, "block2": s_block2,
             "observe": s_observe, "uri-helpers": s_uri, "setup-teardown": s_setup_teardown}


def canary(sim):
    """with memory available again, a fresh exchange must succeed"""
    sim.cmd("failalloc 0")
    sim.add_node(2)
    sim.add_node(3)
    sim.cmd("ep 3 udp 10.0.0.4:5683")
    sim.cmd("res 3 %s body=fixed:%s" % (b"k".hex(), b"canary".hex()))
    sim.cmd("sess 2 0 udp 10.0.0.4:5683")
    mark = len(sim.log)
    sim.cmd("send 2 0 type=0 code=1 token=ca opts=11=6b")
    sim.run(until=sim.elapsed() + 2000, quiesce=False)
    fresh = any(e["e"] == "rsp" and e.get("n") == 2 and e["tok"] == "ca" and
                e.get("phex") == b"canary".hex() for e in sim.log[mark:])
    # and the endpoint that suffered the failure still answers (when it exists)
    old = None
    if any(e["e"] == "bound" and e.get("addr") == SERVER and not e.get("tcp") for e in sim.log):
        mark = len(sim.log)
        sim.cmd("sess 2 1 udp %s" % SERVER)
        sim.cmd("send 2 1 type=0 code=1 token=cb opts=11=72")
        sim.run(until=sim.elapsed() + 2000, quiesce=False)
        # any response will do: the resource itself may not have come into being
        old = any(e["e"] == "rsp" and e.get("n") == 2 and e["tok"] == "cb"
                  for e in sim.log[mark:])
    return fresh, old


def same_session_canary(sim):
    """`the next operation with memory available succeeds`, on the very session that suffered
    the failure: one more Confirmable request on client session 0 of node 0, when that session
    exists, talks UDP to the server node and the server's resource "r" is there.  (A failed
    send must not leave anything behind that keeps the next message from going out.)
    Returns None when not applicable."""
    ok = any(e["e"] == "sess" and e.get("n") == 0 and e.get("sid") == 0 and e.get("ok") and
             e.get("remote") == SERVER for e in sim.log)
    bound = any(e["e"] == "bound" and e.get("addr") == SERVER and not e.get("tcp")
                for e in sim.log)
    if not ok or not bound or any(e["e"] == "tcp_connect" for e in sim.log):
        return None
    mark = len(sim.log)
    evs = sim.cmd("send 0 0 type=0 code=1 token=cc opts=11=72")
    if any(e["e"] == "error" for e in evs):
        return None
    # (it may have to wait for an earlier Confirmable of the scenario to be given up first:
    # up to ~93 s, then its own exchange)
    sim.run(until=sim.elapsed() + 400000, quiesce=False)
    # any response or an explicit NACK concludes it; silence means it never left / got lost in
    # the library
    return any(e["e"] in ("rsp", "nack") and e.get("n") == 0 and e.get("tok") == "cc"
               for e in sim.log[mark:])


def run_one(exe, name, k, k2=0):
    w = world.World(exe, seed=3)
    sim = world.Sim(w, latency=2)
    site = None
    try:
        if k:
            sim.cmd("failalloc %d%s" % (k, " %d" % k2 if k2 else ""))
        SCENARIOS[name](sim)
        sim.cmd("failalloc 0")
        same = same_session_canary(sim)
        fresh, old = canary(sim)
        for e in sim.log:
            if e["e"] == "allocfail":
                site = e["site"]
        evs, rc, err = w.close()
        return {"site": site, "fresh": fresh, "old": old, "same": same, "rc": rc, "err": err,
                "evs": evs, "urichain": [e for e in sim.log if e["e"] == "urichain"],
                "allocs": [e for e in evs if e.get("e") == "shadow"], "crash": None,
                "script": w.script}
    except world.WorldCrash as e:
        for ev in sim.log:
            if ev["e"] == "allocfail":
                site = ev["site"]
        return {"site": site, "crash": e, "script": w.script}
    finally:
        if not w.closed:
            w.close(kill=True)
        if getattr(sim, "persist_dir", None):
            import shutil
            shutil.rmtree(sim.persist_dir, ignore_errors=True)


def site_key(site):
    if not site:
        return "no-failure-injected"
    frames = [f for f in site.split("<") if not f.startswith(("__wrap_", "vf_", "cmd_", "main",
                                                               "run_command"))]
    return "<".join(frames[:3]) or "harness"


def work(job):
    name, ks, exe = job
    run = common.Run("C18", "quick", "fault_enumeration")
    sigs = set()
    stats = dict(runs=0, failures_injected=0, canary_ok=0)
    for k in ks:
        k2 = 0
        if isinstance(k, tuple):
            k, k2 = k
        res = run_one(exe, name, k, k2)
        stats["runs"] += 1
        site = site_key(res["site"])
        witness = {"scenario": name, "k": k, "k2": k2, "site": res["site"],
                   "script": [x for x in res["script"] if not x.startswith(("peek", "prepare"))][:80]}
        if res["site"]:
            stats["failures_injected"] += 1
            sigs.add((name, site))
        if res["crash"] is not None:
            e = res["crash"]
            if e.hang:
                run.violation("hang/%s/%s" % (name, site), witness, "no answer to %r" % e.last_cmd)
            else:
                s = common.sanitizer_signature(e.stderr) or ("abort-rc%s" % e.rc)
                run.violation("crash/%s/%s/%s" % (name, site, s),
                              dict(witness, stderr=e.stderr[-4000:], last_cmd=e.last_cmd),
                              e.stderr[-1500:])
            continue
        if res["rc"] != 0:
            s = common.sanitizer_signature(res["err"]) or ("exit-rc%s" % res["rc"])
            run.violation("teardown/%s/%s/%s" % (name, site, s),
                          dict(witness, stderr=res["err"][-4000:]), res["err"][-1500:])
            continue
        for sh in res["allocs"]:
            if sh["live"]:
                run.violation("leak/%s/%s/types-%s" % (name, site, sh.get("bytype")), witness,
                              "allocator shadow table not empty after teardown: %r" % sh)
            if sh["badfree"]:
                run.violation("bad-free/%s/%s" % (name, site), witness, "%r" % sh)
        for e in res.get("urichain", []):
            # "fails cleanly (error return ...)": a helper that reports success has done all of
            # its work - the list holds every option of the URI
            want = "3=%s;7=04d2;11=62;11=63;15=%s;15=%s" % (b"example.org".hex(), b"x=1".hex(),
                                                             b"y=A".hex())
            if not e.get("dst"):
                # (the session could not be made: without a destination to compare with, no
                # Uri-Host is asked for)
                want = want.split(";", 1)[1]
            if e.get("r") == 1 and e.get("opts") != want:
                run.violation("reported-success-but-incomplete/%s/%s" % (name, site), witness,
                              "coap_uri_into_optlist() returned 1 with the option list %s "
                              "(complete: %s)" % (e.get("opts"), want))
        if not res["fresh"]:
            run.violation("canary-failed/%s/%s" % (name, site), witness,
                          "a fresh exchange after the failure did not get its response")
        elif res.get("same") is False:
            run.violation("session-stuck-after-failure/%s/%s" % (name, site), witness,
                          "with memory available again, the next Confirmable request on the "
                          "client session that suffered the failure drew neither a response "
                          "nor a NACK in 400 s")
        elif res["old"] is False:
            run.violation("endpoint-dead-after-failure/%s/%s" % (name, site), witness,
                          "the server endpoint that was running during the failure no longer "
                          "answers a well-formed request")
        else:
            stats["canary_ok"] += 1
    return stats, sigs, run.export()


def main(tier):
    run = common.Run("C18", tier, "fault_enumeration")
    run.rule = ("catalogue: context/endpoint/resource set-up + well-known request + tear-down; "
                "CON and NON exchange; Block1 PUT (3 blocks); Block2 GET (3 blocks); Block2 from a "
                "server and Block1 from a client that are not libcoap and send no Size2/Size1 "
                "(reassembly buffers grow by realloc; Block1 blocks out of order); observe "
                "register + 3 notifies + cancel; URI/optlist helpers (coap_new_uri, "
                "coap_clone_uri, coap_uri_into_optlist, coap_path_into_optlist, "
                "coap_query_into_optlist, coap_add_optlist_pdu, coap_send); TCP and WebSocket "
                "exchange between two nodes; DTLS-PSK exchange; OSCORE exchange + observe + "
                "cancel; separate (async) response; persistence with a dynamic resource, an "
                "observer and a DELETE. A counting run gives N "
                "funnel allocations per scenario; then one fresh process per k in 1..N with the "
                "k-th allocation failing (thorough: also pairs for the small scenarios); "
                "distinct_nontrivial = distinct (scenario, failing call site) pairs")
    run.assumptions = ["uthash bucket arrays and GnuTLS allocate outside the funnel and are not "
                       "failed", "the harness checks every allocation it requests itself "
                       "(strings, optlists) like an application must"]
    exe = build.ensure_world("asan")
    jobs = []
    counts = {}
    for name in SCENARIOS:
        res = run_one(exe, name, 0)
        if res["crash"] is not None or res["rc"] != 0 or not res["fresh"]:
            raise common.Inconclusive("counting run of scenario %s failed: %r" %
                                      (name, (res.get("rc"), res.get("err", "")[-300:])))
        n = res["allocs"][0]["allocs"]
        counts[name] = n
        ks = list(range(1, n + 1))
        for i in range(0, len(ks), 12):
            jobs.append((name, ks[i:i + 12], exe))
        if n <= 150:
            if tier == "quick":
                pairs = [(a, b) for a in range(1, n + 1, 7) for b in range(a + 1, n + 1, 11)]
            else:
                pairs = [(a, b) for a in range(1, n + 1) for b in range(a + 1, n + 1, 2)]
            for i in range(0, len(pairs), 12):
                jobs.append((name, pairs[i:i + 12], exe))
    tot = dict(runs=0, failures_injected=0, canary_ok=0)
    for st, sigs, vios in common.parallel_map(work, jobs):
        for k, v in st.items():
            tot[k] += v
        run.nontrivial |= sigs
        run.merge(vios)
    run.evaluations = tot["runs"]
    run.extra.update(tot)
    run.extra["allocations_per_scenario"] = counts
    run.exhaustive = True      # every single k of every scenario in both tiers
    run.sample({"scenario": "exchange", "k": 17, "meaning": "17th coap_malloc_type/"
                "coap_realloc_type call of the process returns NULL"})
    run.require("failures_injected", tot["failures_injected"], 200)
    return run.finish()
