"""C12 - sessions map 1:1 to peers, live while referenced; everything is
released.  Raw peers against a server node in the closed world; a session-map
monitor over events + allocator shadow table + ASan/LSan at exit."""
from .. import build, common, world
from ..refs import coapwire as cw

EP4 = "10.0.0.1:5683"
EP6 = "[fd00::1]:5683"
NEW, DEL = 0x4001, 0x4002


def peer_addr(i):
    if i % 5 == 4:
        return "[fd00::5:%x]:%d" % (i // 5 + 1, 40000 + i)
    # same address / different port for some
    return "10.0.5.%d:%d" % (i // 3 + 1, 40000 + (i % 3))


class Sess:
    def __init__(self, sid, remote, t):
        self.sid, self.remote, self.created = sid, remote, t
        self.last = t
        self.apprefs = 0
        self.observers = {}      # resource path -> token of the (single) observation
        self.asyncs = set()
        self.queued = set()
        self.deleted = None
        self.notif_mids = {}
        self.latest_reg = {}
        self.last_notif = {}

    def pins(self):
        p = []
        if self.apprefs:
            p.append("app-reference")
        if self.observers:
            p.append("observation")
        if self.asyncs:
            p.append("async-entry")
        if self.queued:
            p.append("queued-message")
        return p


def drop_obs(s, tokh):
    for k in [k for k, v in s.observers.items() if v == tokh]:
        del s.observers[k]


class Monitor:
    def __init__(self, run, witness, timeout_ms, max_idle, stats):
        self.run, self.witness, self.timeout, self.max_idle = run, witness, timeout_ms, max_idle
        self.stats = stats
        self.live = {}           # sid -> Sess
        self.by_remote = {}      # remote -> sid (live)
        self.dead = {}
        self.new_count = {}
        self.del_count = {}
        self.teardown = False
        self.pending_del = []    # DELs awaiting classification (eviction needs the NEW after)
        self.tok_peer = {}
        self.tok_path = {}

    def vio(self, rule, text, **kw):
        self.run.violation(rule, dict(self.witness, **kw), text)

    def on_event(self, sim, ev):
        k = ev["e"]
        t = ev.get("t", sim.now)
        if k == "event" and ev["code"] == NEW:
            sid, remote = ev["sess"], ev["remote"]
            self.new_count[sid] = self.new_count.get(sid, 0) + 1
            self.stats["sessions_created"] += 1
            if self.new_count[sid] > 1:
                self.vio("second-new-event-for-session", "session %d" % sid)
            if remote in self.by_remote:
                self.vio("second-session-for-same-peer",
                         "peer %s already has live session %d, new session %d" %
                         (remote, self.by_remote[remote], sid))
            # DELs that happened in this same step and are not otherwise justified are evictions
            self._classify_pending(evicting_for=sid, t=t, family=remote.startswith("["))
            s = Sess(sid, remote, t)
            self.live[sid] = s
            self.by_remote[remote] = sid
        elif k == "event" and ev["code"] == DEL:
            sid = ev["sess"]
            self.del_count[sid] = self.del_count.get(sid, 0) + 1
            s = self.live.get(sid)
            if s is None:
                self.vio("delete-event-for-unknown-or-deleted-session",
                         "DEL for session %d (DEL count %d)" % (sid, self.del_count[sid]))
                return
            self.stats["sessions_deleted"] += 1
            pins = s.pins()
            if pins and not self.teardown:
                self.vio("session-deleted-while-referenced/%s" % pins[0],
                         "session %d (%s) deleted at %d while pinned by %r" %
                         (sid, s.remote, t, pins), session=sid)
            elif not self.teardown and t - s.last < self.timeout:
                # idle accounting is per endpoint (one IPv4, one IPv6 endpoint here)
                self.pending_del.append((s, t, self._oldest_idle(
                    exclude=None, family=s.remote.startswith("["))))
            elif not self.teardown:
                self.stats["reclaimed_after_timeout"] += 1
            s.deleted = t
            del self.live[sid]
            if self.by_remote.get(s.remote) == sid:
                del self.by_remote[s.remote]
            self.dead[sid] = s
        elif k == "req":
            sid = ev["sess"]
            s = self.live.get(sid)
            tok = ev["tok"]
            if s is None:
                self.vio("handler-saw-deleted-or-unknown-session",
                         "request token %s handled on session %d which is not live" % (tok, sid))
                return
            want = self.tok_peer.get(tok)
            if want and s.remote != want:
                self.vio("request-handled-on-another-peers-session",
                         "request from %s handled on session %d of %s" % (want, sid, s.remote))
            if ev["res"] == "s":
                s.asyncs.add(tok)
            self.stats["handler_calls"] += 1
        elif k == "appref" and "sess" in ev:
            s = self.live.get(ev["sess"])
            if s:
                s.apprefs += 1
        elif k == "rx":
            s = self.live.get(self.by_remote.get(ev["from"]))
            if s:
                s.last = t
                b = bytes.fromhex(ev["b"])
                if len(b) >= 4:
                    typ, mid = (b[0] >> 4) & 3, (b[2] << 8) | b[3]
                    if typ in (2, 3):
                        s.queued.discard(mid)
                    if typ == 3 and mid in s.notif_mids:
                        # coap_cancel(): everything still queued under that token goes too
                        tk = s.notif_mids[mid]
                        for q in [q for q in s.queued if s.notif_mids.get(q) == tk]:
                            s.queued.discard(q)
                    if typ == 3 and mid in s.notif_mids and s.last_notif.get(
                            s.notif_mids[mid]) == mid:
                        # a Reset naming the most recent notification of that observation
                        # cancels it (one naming an older notification is C11's business)
                        drop_obs(s, s.notif_mids[mid])
        elif k == "wire":
            s = self.live.get(self.by_remote.get(ev["to"]))
            if s:
                s.last = t
                b = bytes.fromhex(ev["b"])
                try:
                    m = cw.decode(b, "udp")
                except Exception:
                    return
                tokh = m["token"].hex()
                if m["type"] == 0:
                    s.queued.add(m["mid"])
                if m["code"] >= 64:
                    s.asyncs.discard(tokh)
                    if any(n == 6 for n, _ in m["options"]) and m["code"] == 0x45:
                        # one observation per (session, resource, request options): a new
                        # registration (piggybacked reply to the CON GET) with another token
                        # replaces the entry; notifications do not register anything
                        pth = self.tok_path.get(tokh)
                        if m["type"] == 2 and pth is not None:
                            s.observers[pth] = tokh
                            s.latest_reg[pth] = tokh
                        elif pth is not None and s.latest_reg.get(pth) == tokh and \
                                m["mid"] not in s.notif_mids:
                            # (a NEW notification; a retransmission of one sent before a
                            # deregistration proves nothing)
                            # a notification under the current registration shows that the
                            # library still holds the observation (e.g. a Reset that named an
                            # older notification did not cancel it)
                            s.observers[pth] = tokh
                        s.notif_mids[m["mid"]] = tokh
                        s.last_notif[tokh] = m["mid"]
                    elif tokh in s.observers.values() and m["code"] >= 0x80:
                        drop_obs(s, tokh)
        elif k == "nack" and ev.get("n") == 0:
            s = self.live.get(ev["sess"])
            if s:
                s.queued.discard(ev.get("cbmid"))
                # a notification that was given up takes the observer - and what else is
                # queued under its token - with it (coap_cancel by token, no further NACK)
                tk = s.notif_mids.get(ev.get("cbmid"))
                if tk is not None and tk in s.observers.values():
                    # (only while the observation still exists: after an explicit
                    # deregistration there is no observer to remove, and the other
                    # notifications already queued run to their own give-up)
                    for q in [q for q in s.queued if s.notif_mids.get(q) == tk]:
                        s.queued.discard(q)
                drop_obs(s, ev.get("tok"))

    def _oldest_idle(self, exclude, family=None):
        idle = [s for s in self.live.values() if not s.pins() and s is not exclude and
                (family is None or s.remote.startswith("[") == family)]
        if not idle:
            return None
        return min(idle, key=lambda s: s.last)

    def _classify_pending(self, evicting_for=None, t=None, family=None):
        evictions = []
        for s, td, oldest in self.pending_del:
            if evicting_for is not None and td == t and self.max_idle > 0 and \
                    s.remote.startswith("[") == family:
                evictions.append((s, oldest))
            else:
                self.vio("idle-session-deleted-early",
                         "session %d deleted at %d, %d ms after its last activity (timeout %d "
                         "ms), not an eviction" % (s.sid, td, td - s.last, self.timeout))
        self.pending_del = []
        if evicting_for is None or self.max_idle <= 0:
            return
        idle_now = [x for x in self.live.values() if not x.pins() and
                    x.remote.startswith("[") == family]
        idle_before = len(idle_now) + len(evictions)
        if idle_before >= self.max_idle:
            if len(evictions) != 1:
                self.vio("idle-limit-reached-without-single-eviction",
                         "new peer arrived with %d idle sessions on the endpoint (limit %d): %d "
                         "sessions evicted" % (idle_before, self.max_idle, len(evictions)))
            for s, oldest in evictions:
                self.stats["evicted"] += 1
                older = [x for x in idle_now if x.last < s.last]
                if older:
                    o = min(older, key=lambda x: x.last)
                    self.vio("evicted-session-not-the-oldest-idle",
                             "idle limit %d: session %d (last active %d) evicted while session "
                             "%d (last active %d) was older" %
                             (self.max_idle, s.sid, s.last, o.sid, o.last))
        else:
            for s, oldest in evictions:
                self.vio("idle-session-deleted-early",
                         "session %d evicted with only %d idle sessions (limit %d)" %
                         (s.sid, idle_before, self.max_idle))

    def checkpoint(self, now):
        self._classify_pending()
        for s in self.live.values():
            # (a handler that takes `slack` ms stamps the session that much later than the
            # arrival the model knows of)
            overdue = not s.pins() and now - s.last > self.timeout + 1 + getattr(self, "slack", 0)
            # the pins may have gone only during the last timer step: give the library one
            # more coap_io_prepare_io (the next checkpoint) before calling it overdue
            if overdue and not getattr(s, "overdue_seen", False):
                s.overdue_seen = True
                continue
            if not overdue:
                s.overdue_seen = False
                continue
            if True:
                self.vio("idle-session-not-reclaimed",
                         "session %d idle since %d still alive at %d (timeout %d ms)" %
                         (s.sid, s.last, now, self.timeout), session=s.sid)

    def finish(self):
        self._classify_pending()
        for sid, c in self.new_count.items():
            if self.del_count.get(sid, 0) != 1:
                self.vio("session-without-exactly-one-delete-event",
                         "session %d: %d NEW, %d DEL events after teardown" %
                         (sid, c, self.del_count.get(sid, 0)))


def scenario(exe, r, run, stats, witness):
    timeout_s = r.choice([1, 30, 300])
    max_idle = r.choice([0, 0, 1, 3, 10])
    npeers = r.choice([1, 3, 8, 20, 50])
    nsteps = r.choice([10, 30, 60, 120])
    w = world.World(exe, seed=r.getrandbits(30))
    sim = world.Sim(w, latency=2)
    witness["script"] = w.script          # the live list: complete when the witness is written
    mon = Monitor(run, witness, timeout_s * 1000, max_idle, stats)
    sim.on_event.append(mon.on_event)
    kw = {"session_timeout": timeout_s}
    if max_idle:
        kw["max_idle"] = max_idle
    sim.add_node(0, **kw)
    sim.cmd("ep 0 udp %s" % EP4)
    sim.cmd("ep 0 udp %s" % EP6)
    sim.cmd("res 0 %s body=fixed:70" % b"p".hex())
    sim.cmd("res 0 %s body=counter obs=1" % b"o".hex())
    sim.cmd("res 0 %s body=counter obs=1" % b"q".hex())
    sim.cmd("res 0 %s body=counter obs=1 flags=2" % b"c".hex())     # Confirmable notifications
    nstart = r.choice([1, 1, 2, 3])
    if nstart > 1:
        sim.cmd("ctx 0 srv_nstart=%d" % nstart)
    pending_notifs = {}
    # (the handler of the deferred resource may take a few ms: virtual time passes inside
    # the library call that runs it, so "now" sampled before the call is stale after it)
    busy = r.choice([0, 0, 1, 5, 40])
    mon.slack = 2 * busy
    sim.cmd("res 0 %s body=fixed:73 sep=%d busy=%d" % (b"s".hex(), r.choice([200, 5000]), busy))
    sim.cmd("res 0 %s body=fixed:72 sref=1" % b"r".hex())
    silent = set(i for i in range(npeers) if r.random() < 0.2)

    rst_next = set()

    def mkpeer(i):
        def peer(sm, frm, to, data):
            if len(data) < 4:
                return
            typ, mid = (data[0] >> 4) & 3, (data[2] << 8) | data[3]
            if i in rst_next and typ in (0, 1) and data[1] == 0x45:
                # reject the next notification (CON or NON) with a Reset
                try:
                    if any(n == 6 for n, _ in cw.decode(data, "udp")["options"]):
                        rst_next.discard(i)
                        sm.inject(to, frm, bytes([0x70, 0, mid >> 8, mid & 255]), 2)
                        return
                except Exception:
                    pass
            if typ == 0 and i not in silent:
                sm.inject(to, frm, bytes([0x60, 0, mid >> 8, mid & 255]), 2)
            elif typ == 0 and data[1] == 0x45:
                # a silent peer remembers the Confirmable notifications it left unanswered
                lst = pending_notifs.setdefault(i, [])
                if mid not in lst:
                    lst.append(mid)
        return peer

    for i in range(npeers):
        sim.peers[peer_addr(i)] = mkpeer(i)
    seq = [0]

    def request(i, path, observe=None, typ=0):
        seq[0] += 1
        tok = bytes([0xC0, i, seq[0] & 255, seq[0] >> 8])
        mon.tok_peer[tok.hex()] = peer_addr(i)
        mon.tok_path[tok.hex()] = path
        opts = [(11, path)]
        if observe is not None:
            opts.append((6, bytes([observe]) if observe else b""))
        m = cw.msg(1, type=typ, mid=(0x3000 + seq[0]) & 0xffff, token=tok, options=opts)
        ep = EP6 if peer_addr(i).startswith("[") else EP4
        sim.inject(peer_addr(i), ep, cw.encode(m, "udp"))
        return tok

    tj = [10, 999, 1000, 1001, 29999, 30000, 30001, 299999, 300001, 5001]
    teardown_at = r.randrange(nsteps) if r.random() < 0.4 else nsteps
    obs_tokens = {}
    for step in range(nsteps):
        if step == teardown_at:
            break
        x = r.random()
        i = r.randrange(npeers)
        if x < 0.45:
            request(i, r.choice([b"p", b"p", b"r", b"s", b"nope"]), typ=r.choice([0, 0, 1]))
        elif x < 0.58:
            pth = r.choice([b"o", b"o", b"q", b"c", b"c"])
            obs_tokens[(i, pth)] = request(i, pth, observe=0)
        elif x < 0.68:
            sim.cmd("notify 0 %s" % r.choice(["o", "o", "q", "c", "c"]))
            if r.random() < 0.4:
                sim.cmd("notify 0 c")      # a second one while the first may be unanswered
        elif x < 0.74:
            sim.cmd("apprelease 0 all")
            for s in mon.live.values():
                s.apprefs = 0
        elif x < 0.79 and obs_tokens:
            # deregister explicitly
            j, pth = r.choice(sorted(obs_tokens))
            seq[0] += 1
            m = cw.msg(1, type=0, mid=(0x3000 + seq[0]) & 0xffff, token=obs_tokens.pop((j, pth)),
                       options=[(11, pth), (6, b"\x01")])
            ep = EP6 if peer_addr(j).startswith("[") else EP4
            sim.inject(peer_addr(j), ep, cw.encode(m, "udp"))
            sid = mon.by_remote.get(peer_addr(j))
            if sid in mon.live:
                drop_obs(mon.live[sid], m["token"].hex())
        elif x < 0.86:
            rst_next.add(i)
        elif x < 0.93 and pending_notifs:
            # a silent peer resets the OLDEST notification it left unanswered (others with the
            # same token may be in flight behind it)
            j = r.choice(sorted(pending_notifs))
            lst = pending_notifs[j]
            if lst:
                mid = lst.pop(0)
                ep = EP6 if peer_addr(j).startswith("[") else EP4
                sim.inject(peer_addr(j), ep, bytes([0x70, 0, mid >> 8, mid & 255]))
        else:
            pass
        dt = r.choice(tj) if r.random() < 0.35 else r.choice([3, 10, 50])
        sim.run(until=sim.elapsed() + dt, quiesce=False)
        sim.prepare_all()
        mon.checkpoint(sim.now)
        stats["steps"] += 1
    mon.teardown = True
    evs, rc, err = w.close()
    for ev in evs:
        mon.on_event(sim, ev)
    mon.finish()
    if rc is None:
        run.violation("teardown-hang", witness, "teardown did not finish")
    elif rc != 0:
        s = common.sanitizer_signature(err) or ("exit-rc%s" % rc)
        run.violation("teardown/%s" % s, dict(witness, stderr=err[-4000:]), err[-1500:])
    for ev in evs:
        if ev.get("e") == "shadow":
            if ev["live"]:
                run.violation("leak/types-%s" % ev.get("bytype", "?"), witness,
                              "allocator shadow table not empty after teardown: %r" % ev)
            if ev["badfree"]:
                run.violation("bad-free", witness, "%r" % ev)
            stats["allocations"] += ev["allocs"]
    sig = (timeout_s, max_idle, npeers, nsteps, teardown_at < nsteps, len(silent) > 0)
    return w, sig


def self_delete_case(exe, r, run, stats, witness):
    """resources that come into being on demand (unknown-resource handler) and are deleted by
    their own DELETE handler, as in the coap-server example: the library must not look at the
    resource again once the handler has returned - unicast and multicast requests, with and
    without per-resource multicast handling, observers present or not"""
    w = world.World(exe, seed=r.getrandbits(30))
    sim = world.Sim(w, latency=1)
    witness["script"] = w.script
    kw = {"mcast_per_resource": 1} if r.random() < 0.6 else {}
    sim.add_node(0, **kw)
    sim.cmd("ep 0 udp %s" % EP4)
    sim.cmd("res 0 - kind=unknown dyn=1 flags=%d" % r.choice([0, 0x8, 0x8 | 0x40, 0x8 | 0x80]))
    peer = "10.0.5.9:41000"
    sim.peers[peer] = lambda *a: None
    mid = 100
    for k in range(r.choice([1, 2, 4])):
        name = b"d%d" % k
        mid += 1
        sim.inject(peer, EP4, cw.encode(cw.msg(3, type=0, mid=mid, token=bytes([1, k]),
                                               options=[(11, name)], payload=b"x"), "udp"))
        sim.run(until=sim.elapsed() + 5, quiesce=False)
        if r.random() < 0.4:
            mid += 1
            sim.inject(peer, EP4, cw.encode(cw.msg(1, type=0, mid=mid, token=bytes([2, k]),
                                                   options=[(6, b""), (11, name)]), "udp"))
            sim.run(until=sim.elapsed() + 5, quiesce=False)
        mid += 1
        mc = r.random() < 0.5
        sim.inject(peer, "224.0.1.187:5683" if mc else EP4, cw.encode(
            cw.msg(4, type=1 if mc else r.choice([0, 1]), mid=mid, token=bytes([3, k]),
                   options=[(11, name)] + ([(258, bytes([r.choice([2, 8, 26])]))]
                                           if r.random() < 0.3 else [])), "udp"))
        sim.run(until=sim.elapsed() + 6000, quiesce=False)
        stats["self_deletions"] = stats.get("self_deletions", 0) + sum(
            1 for e in sim.log if e["e"] == "req" and e.get("code") == 4 and e["res"] == name.decode())
    world.teardown_check(run, "C12", w, witness)
    return w, ("self-delete", bool(kw))


def work(job):
    items, exe = job
    run = common.Run("C12", "quick", "exploration")
    stats = dict(sessions_created=0, sessions_deleted=0, reclaimed_after_timeout=0, evicted=0,
                 handler_calls=0, steps=0, allocations=0)
    sigs = set()
    n = 0
    for it in items:
        r = common.rng("c12-%d" % it)
        witness = {"item": it, "seed": common.seed()}
        w = None
        try:
            if it % 12 == 11:
                w, sig = self_delete_case(exe, r, run, stats, witness)
            else:
                w, sig = scenario(exe, r, run, stats, witness)
            sigs.add(sig)
        except world.WorldCrash as e:
            world.crash_violation(run, "C12", e, witness)
        except common.Inconclusive:
            stats["inconclusive"] = stats.get("inconclusive", 0) + 1
        n += 1
    return n, sigs, run.export(), stats


def main(tier):
    run = common.Run("C12", tier, "exploration")
    run.rule = ("histories of requests from 1..50 raw peers (same address/different port, IPv4 "
                "and IPv6 endpoints) to plain / observable / separate-response / reference-taking "
                "resources, notifications, application release, deregistration, virtual-time "
                "jumps to 1 ms before / at / after the 1, 30 and 300 s session timeouts, "
                "max_idle_sessions 0/1/3/10, teardown at a random step; one case in twelve: "
                "resources created on demand and deleted by their own DELETE handler (unicast / "
                "multicast, per-resource multicast handling on/off, observers); distinct_nontrivial = "
                "distinct (timeout, idle limit, peers, length, early teardown, silent peers)")
    run.assumptions = ["monitor's pin model: application reference, observation, pending async "
                       "entry, unacknowledged CON queued by the server",
                       "'reclaimed after the timeout' is judged at the first coap_io_prepare_io "
                       "at or after the deadline"]
    exe = build.ensure_world("asan")
    total = 1500 if tier == "quick" else 25000
    chunk = 6
    jobs = [(list(range(i, min(total, i + chunk))), exe) for i in range(0, total, chunk)]
    stats = {}
    for n, sigs, vios, st in common.parallel_map(work, jobs):
        run.evaluations += n
        run.nontrivial |= sigs
        run.merge(vios)
        for k, v in st.items():
            stats[k] = stats.get(k, 0) + v
    run.extra.update(stats)
    run.sample({"example": "peers 8, timeout 30 s, idle limit 3, 60 steps, teardown at step 41"})
    run.require("sessions_created", stats.get("sessions_created", 0), 1000)
    run.require("reclaimed_after_timeout", stats.get("reclaimed_after_timeout", 0), 100)
    run.require("evicted", stats.get("evicted", 0), 50)
    run.require("self_deletions", stats.get("self_deletions", 0), 20)
    return run.finish()
