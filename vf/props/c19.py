"""C19 - (D)TLS sessions exchange application data only after an authenticated
handshake.  Client node and server node in the closed world, real GnuTLS on
both sides running on the virtual clock (GnuTLS's own timers are pointed at it),
DTLS over the scripted datagram network, TLS over the relayed virtual stream.
A credential model says whether both sides accept; monitors over handler calls,
NACKs, session state samples and every byte on the wire judge the rest."""
from .. import build, common, world
from ..refs import coapwire as cw

SRV = "10.0.0.2:5684"
STRANGER = "10.0.5.5:5000"
K0 = b"secretkey-0123"
KEY_VARIANTS = {
    "equal": lambda k: k,
    "one-byte-different": lambda k: k[:-1] + bytes([k[-1] ^ 1]),
    "prefix": lambda k: k[:-1],
    "longer": lambda k: k + b"4",
    "first-byte-different": lambda k: bytes([k[0] ^ 0x80]) + k[1:],
    "empty": lambda k: b"",
    "other": lambda k: b"another-key-entirely",
}
ESTABLISHED = 4


def hx(b):
    return b.hex() if b else "-"


class Cfg:
    pass


UNKNOWN_IDS = [b"carol", b"alic", b"alicea", b"Alice", b"bo"]
UNKNOWN_SNIS = [b"c.example", b"a.example.org", b"example.a", b"a.exampl", b"a.e", b"b.examplf"]


def gen_server(r, proto=None):
    s = Cfg()
    s.proto = proto or r.choice(["dtls", "dtls", "tls"])
    s.hint = r.choice([b"", b"hint-one", b"hint-two"])
    s.key = r.choice([K0, b"\x01\x02\xff\x00\x7f-binary-key", b"k"])
    s.ids = None
    s.snis = None
    mode = r.random()
    if 0.3 <= mode < 0.6 or r.random() < 0.15:
        s.ids = {b"alice": K0, b"bob": b"bobs-own-key-000", b"dave": b"\xaa\xbb\xcc\xdd"}
    if 0.6 <= mode < 0.85 or r.random() < 0.15:
        s.snis = {b"a.example": (b"hint-a", b"key-for-a-0000"),
                  b"b.example": (b"hint-b", b"key-for-b-1111")}
        if r.random() < 0.3:
            s.snis[b""] = (b"hint-none", b"key-for-none-22")
    s.want_ih = mode >= 0.85 or r.random() < 0.1
    return s


def gen_client(r, s, force_ok=None):
    c = Cfg()
    c.sni = None
    c.ih = None
    c.ident = r.choice([b"alice", b"bob", b"client-identity-with-a-longer-name"])
    want_ok = r.random() < 0.45 if force_ok is None else force_ok
    variant = "equal" if want_ok else r.choice([v for v in KEY_VARIANTS if v != "equal"])
    c.note = [variant]
    if s.ids is not None:
        if not want_ok and r.random() < 0.5:
            c.ident = r.choice(UNKNOWN_IDS)
            variant = r.choice(["equal", "other"])
            c.note = ["unknown-identity", variant]
        else:
            c.ident = r.choice(sorted(s.ids))
    if s.snis is not None:
        c.sni = r.choice([None, b"a.example", b"b.example", b"B.Example"])
        if not want_ok and r.random() < 0.5:
            c.sni = r.choice(UNKNOWN_SNIS)
            variant = r.choice(["equal", variant])
            c.note = ["unknown-sni", variant]
        if want_ok and c.sni is None and b"" not in s.snis:
            c.sni = b"a.example"
    elif r.random() < 0.1:
        c.sni = b"a.example"        # the server has no SNI callback: SNI is ignored
    if s.want_ih and r.random() < 0.8:
        c.ih = {}
        for h in (b"hint-one", b"hint-a", b"hint-b", b"hint-none", b""):
            if r.random() < 0.7:
                c.ih[h] = None
        c.note.append("ih-callback")
    base = server_key(s, c, c.ident)
    if base is None:
        # no entry on the server: the client uses the key of the nearest real entry, so
        # that only the name / identity check stands between it and the handler
        base = K0
        if s.snis is not None and sni_entry(s, c) is None:
            base = s.snis[b"a.example"][1] if (c.sni or b"").lower().startswith(b"a") or \
                not c.sni else s.snis[b"b.example"][1]
            if s.ids is not None:
                base = s.ids.get(c.ident, K0)
        elif s.ids is not None:
            base = s.key
    c.key = KEY_VARIANTS[variant](base)
    if c.ih is not None:
        hint = server_hint(s, c)
        for h in list(c.ih):
            k = server_key(s, c, c.ident, hint_override=h) or K0
            c.ih[h] = (c.ident, KEY_VARIANTS[variant](k) if h == hint else k)
    return c


def sni_entry(s, c):
    if s.snis is None:
        return (s.hint, s.key)
    name = (c.sni or b"").lower()
    for k, v in s.snis.items():
        if k.lower() == name:
            return v
    return None


def server_hint(s, c):
    e = sni_entry(s, c)
    return e[0] if e else None


def server_key(s, c, ident, hint_override=None):
    e = sni_entry(s, c)
    if hint_override is not None and s.snis is not None:
        for v in s.snis.values():
            if v[0] == hint_override:
                e = v
    if e is None:
        return None
    if s.ids is not None:
        return s.ids.get(ident)
    return e[1]


def verdict(s, c):
    """'ok' both sides accept; 'fail' they must not; 'either' not judged"""
    e = sni_entry(s, c)
    if e is None:
        return "fail", "the server has no entry for the SNI %r" % (c.sni,)
    hint = e[0]
    ident, key = c.ident, c.key
    if c.ih is not None:
        got = c.ih.get(hint)
        if got is None:
            return "fail", "the client rejects the identity hint %r" % hint
        ident, key = got
    skey = s.ids.get(ident) if s.ids is not None else e[1]
    if skey is None:
        return "fail", "the server does not know the identity %r" % ident
    if not key or not skey:
        return "either", "empty key"
    if key == skey:
        return "ok", "matching"
    return "fail", "the keys differ"


def dtls_records(data):
    """parse a datagram as DTLS records; None when it is not a clean sequence"""
    out, pos = [], 0
    while pos < len(data):
        if pos + 13 > len(data):
            return None
        typ = data[pos]
        ver = data[pos + 1:pos + 3]
        epoch = int.from_bytes(data[pos + 3:pos + 5], "big")
        ln = int.from_bytes(data[pos + 11:pos + 13], "big")
        if typ not in (20, 21, 22, 23, 24, 25) or ver[0] != 0xfe:
            return None
        if pos + 13 + ln > len(data):
            return None
        out.append((typ, epoch, ln))
        pos += 13 + ln
    return out


def tls_records(stream):
    out, pos = [], 0
    while pos + 5 <= len(stream):
        typ = stream[pos]
        if typ not in (20, 21, 22, 23) or stream[pos + 1] != 3:
            return None
        ln = int.from_bytes(stream[pos + 3:pos + 5], "big")
        out.append((typ, ln))
        pos += 5 + ln
    return out


def cli_wit(c, v, why):
    return {"id": c.ident.decode(), "key": c.key.hex(), "sni": c.sni and c.sni.decode(),
            "ih": c.ih and dict((h.decode(), (i.decode(), k.hex())) for h, (i, k) in c.ih.items()),
            "expected": v, "because": why, "note": c.note}


def scenario(exe, r, run, stats, idx, proto=None, force_ok=None):
    s = gen_server(r, proto)
    ncli = r.choice([1, 1, 2, 3])
    clients = []
    for j in range(ncli):
        # later sessions lean towards failing ones: what an earlier, accepted session left
        # behind on the server must not let them in
        f = force_ok if j == 0 else (None if r.random() < 0.5 else False)
        if ncli > 1 and j == 0 and force_ok is None and r.random() < 0.6:
            f = True
        clients.append(gen_client(r, s, f))
    w = world.World(exe, seed=r.getrandbits(30), cmd_timeout=60)
    sim = world.Sim(w, latency=r.choice([1, 3, 20]))
    wit = {"proto": s.proto,
           "server": {"hint": s.hint.hex(), "key": s.key.hex(),
                      "ids": s.ids and dict((k.decode(), x.hex()) for k, x in s.ids.items()),
                      "snis": s.snis and dict((k.decode(), (h.decode(), x.hex()))
                                              for k, (h, x) in s.snis.items())},
           "clients": [cli_wit(c, *verdict(s, c)) for c in clients], "script": w.script,
           "scenario_seed": idx, "forced": [proto, force_ok]}
    try:
        return _scenario(s, clients, w, sim, r, run, stats, wit)
    except world.WorldCrash as e:
        world.crash_violation(run, "crash/%s" % s.proto, e, wit)
    finally:
        if not w.closed:
            w.close(kill=True)


def _scenario(s, clients, w, sim, r, run, stats, wit):
    stream = s.proto == "tls"
    if stream:
        chunk = r.choice([None, None, 1, 7, 100])

        def chunker(data):
            if not chunk:
                return [(0, data)]
            return [(i // chunk, data[i:i + chunk]) for i in range(0, len(data), chunk)]
        sim.enable_stream_relay(chunker)
    # half of the clients let libcoap handle block-wise transfers: requests with an Observe
    # option then have library state (lg_crcv) from the moment they are submitted
    blockmode = r.random() < 0.5
    if blockmode:
        sim.add_node(0, block_mode=1)
    else:
        sim.add_node(0)
    sim.add_node(1)
    line = "psk 1 hint=%s key=%s" % (hx(s.hint), hx(s.key))
    if s.ids is not None:
        line += " ids=" + ",".join("%s:%s" % (hx(k), hx(x)) for k, x in sorted(s.ids.items()))
    if s.snis is not None:
        line += " snis=" + ",".join("%s:%s:%s" % (hx(k), hx(h), hx(x))
                                    for k, (h, x) in sorted(s.snis.items()))
    if not any(e["e"] == "psk" and e["ok"] for e in sim.cmd(line)):
        stats["server_setup_refused"] += 1
        return
    sim.cmd("ep 1 %s %s" % (s.proto, SRV))
    sim.cmd("res 1 %s body=fixed:%s methods=1,2" % (b"r".hex(), b"RESPONSE-BODY-7f3a".hex()))

    # faults on the datagram network
    plan = r.choice(["none", "none", "handshake-loss", "handshake-loss", "handshake-dup",
                     "any-loss", "any-dup"]) if not stream else "none"
    wit["network"] = plan
    fr = common.rng("c19f-%d" % r.getrandbits(30))
    p = r.choice([0.1, 0.25, 0.4])
    appdata_seen = set()

    def fault(sm, i, ev):
        b = bytes.fromhex(ev["b"])
        recs = dtls_records(b)
        pair = frozenset((ev["from"], ev["to"]))
        if recs and any(t == 23 for t, _, _ in recs):
            appdata_seen.add(pair)
        phase_ok = plan.startswith("any") or pair not in appdata_seen
        if plan == "none" or not phase_ok:
            return None
        x = fr.random()
        if plan.endswith("loss") and x < p:
            return []
        if plan.endswith("dup") and x < p:
            return [(sm.latency, b), (sm.latency + fr.choice([0, 1, 30, 250]), b)]
        return None
    sim.fault = fault

    gap = r.choice([0, 60, 900])
    sess = []          # per client session: dict
    markers = [b"RESPONSE-BODY-7f3a"]
    inj = []

    def open_session(j, c):
        def go(sm):
            line = "sess 0 %d %s %s psk_id=%s psk_key=%s" % (j, s.proto, SRV, hx(c.ident), hx(c.key))
            if c.sni is not None:
                line += " sni=%s" % hx(c.sni)
            if c.ih is not None:
                tab = c.ih or {b"zz-never-sent": (b"x", b"y")}
                line += " ih=" + ",".join("%s:%s:%s" % (hx(h), hx(i), hx(k))
                                          for h, (i, k) in sorted(tab.items()))
            evs = sm.cmd(line)
            S = sess[j]
            if not any(e["e"] == "sess" and e["ok"] for e in evs):
                stats["client_session_refused"] += 1
                S["refused"] = True
                return
            S["addr"] = [e["local"] for e in evs if e["e"] == "sess"][0]
            S["t0"] = sm.now
            for m in S["msgs"]:
                if m["when"] == 0:
                    submit(j, m)(sm)
                else:
                    sm.call_at(sm.now + m["when"], submit(j, m))
            # an ICMP "port unreachable" reaches the client's socket while the handshake runs (the
            # server's port was closed for an instant, a router hiccup): libcoap tells the
            # application and carries on - what is queued is still delivered, or NACKed
            if not stream and r.random() < 0.25:
                when = r.choice([1, 3, 8, 20, 60, 250])
                addr = S["addr"]
                stats["icmp_during_handshake"] = stats.get("icmp_during_handshake", 0) + 1
                inj.append({"from": SRV, "to": addr, "icmp": 1, "tok": "-", "spoof": 1, "when": when,
                            "sess": j})
                sm.call_at(sm.now + when, lambda s2, addr=addr: s2.cmd(
                    "deliver %s %s - icmp=1" % (SRV, addr)) if not sess[j].get("released") else None)
            # cleartext injections around this session
            if not stream and r.random() < 0.7:
                for k in range(r.choice([1, 2, 4])):
                    frm = r.choice([STRANGER, S["addr"]])
                    when = r.choice([0, 2, 5, 11, 30, 120, 600])
                    tok = bytes([0xE0 + k, j, r.getrandbits(8)])
                    data = cw.encode(cw.msg(r.choice([1, 2]), type=r.choice([0, 1]),
                                            mid=r.getrandbits(16), token=tok,
                                            options=[(11, b"r")], payload=b"INJECTED-CLEARTEXT"),
                                     "udp")
                    inj.append({"from": frm, "to": SRV, "tok": tok.hex(), "when": when, "sess": j})
                    sm.inject(frm, SRV, data, delay=when)
                if r.random() < 0.5 and S["msgs"]:
                    m = r.choice(S["msgs"])
                    when = r.choice([1, 6, 14, 50, 500])
                    data = cw.encode(cw.msg(69, type=1, mid=r.getrandbits(16),
                                            token=bytes.fromhex(m["tok"]),
                                            payload=b"SPOOFED-RESPONSE"), "udp")
                    inj.append({"from": SRV, "to": S["addr"], "tok": m["tok"], "when": when,
                                "spoof": 1, "sess": j})
                    sm.inject(SRV, S["addr"], data, delay=when)
        return go

    def submit(j, m):
        def go(sm):
            if sess[j].get("released"):
                return
            line = "send 0 %d type=%d code=%d token=%s opts=11=72" % (j, m["type"], m["code"],
                                                                      m["tok"])
            if m["code"] == 2:
                line += " payload=%s" % m["marker"].hex()
            else:
                line += ",15=%s" % m["marker"].hex()     # Uri-Query carries the marker
                if blockmode and m["type"] == 0 and m.get("observe"):
                    line = line.replace("opts=11=72", "opts=6=,11=72")
            evs = sm.cmd(line)
            m["accepted"] = any(e["e"] == "sent" and e.get("mid", -1) != -1 for e in evs)
            m["t"] = sm.now
            sess[j]["submitted"].append(m)
        return go

    for j, c in enumerate(clients):
        nmsg = r.choice([0, 1, 2, 3, 5])
        msgs = []
        for i in range(nmsg):
            marker = b"SECRET-PAYLOAD-%d-%02d-%08x" % (j, i, r.getrandbits(32))
            msgs.append({"i": i, "type": r.choice([0, 0, 0, 1]), "code": r.choice([1, 2]),
                         "tok": bytes([0xC0 + i, j, r.getrandbits(8)]).hex(), "marker": marker,
                         "when": r.choice([0, 0, 0, 1, 4, 9, 15, 40, 400]),
                         "observe": r.random() < 0.5})
            markers.append(marker)
        msgs.sort(key=lambda m: (m["when"], m["i"]))
        v, why = verdict(s, c)
        sess.append({"c": c, "v": v, "why": why, "msgs": msgs, "submitted": [], "states": []})
        wit["clients"][j]["messages"] = [dict(m, marker=m["marker"].decode()) for m in msgs]
        if j == 0:
            open_session(0, c)(sim)
        else:
            sim.call_at(sim.now + j * gap + j, open_session(j, c))
    wit["injected"] = inj

    # run, sampling the client sessions' state
    horizon = 6000 + (len(clients) - 1) * gap
    t = 0
    while t < horizon:
        t += 25 if t < 500 + (len(clients) - 1) * gap else 500
        sim.run(until=t, quiesce=False)
        for e in sim.cmd("peek 0"):
            if e["e"] == "psess" and e.get("client") and 0 <= e["sess"] < len(sess):
                sess[e["sess"]]["states"].append(e["state"])
    # give up: release the client sessions, then tear everything down
    for j, S in enumerate(sess):
        if "addr" in S:
            S["released"] = True
            sim.cmd("release 0 %d" % j)
    sim.run(until=sim.elapsed() + 3000, quiesce=False)
    sim.cmd("freenode 0")
    sim.run(until=sim.elapsed() + 200, quiesce=False)

    log = sim.log
    stats["scenarios"] += 1
    lossy = plan.startswith("any")
    inj_toks = set(i["tok"] for i in inj if not i.get("spoof"))
    all_reqs = [e for e in log if e["e"] == "req" and e.get("n") == 1]

    # E: injected cleartext never reaches a handler
    for e in all_reqs:
        if e["tok"] in inj_toks:
            run.violation("cleartext-request-reached-handler/%s" % s.proto, wit,
                          "injected cleartext CoAP request (token %s) was handed to the server's "
                          "handler on a %s endpoint" % (e["tok"], s.proto))
    for e in log:
        if e["e"] == "rsp" and e.get("n") == 0 and e.get("phex") == b"SPOOFED-RESPONSE".hex():
            run.violation("cleartext-response-reached-handler/%s" % s.proto, wit,
                          "injected cleartext response (token %s) was handed to the client's "
                          "response handler" % e["tok"])
    # B: nothing in clear on the wire
    if stream:
        conns = set(e["conn"] for e in log if e["e"] == "swrite")
        for conn in conns:
            for side in (0, 1):
                data = b"".join(bytes.fromhex(e["b"]) for e in log
                                if e["e"] == "swrite" and e["init"] == side and e["conn"] == conn)
                stats["wire_bytes"] += len(data)
                if data and tls_records(data) is None:
                    run.violation("stream-not-tls-records/%s" % ("client" if side else "server"),
                                  wit, "bytes written to the TLS connection are not a sequence of "
                                  "TLS records: %s..." % data[:40].hex())
                for mk in markers:
                    if mk in data:
                        run.violation("application-data-in-clear/tls", wit,
                                      "%r appears unencrypted in the TLS stream" % mk)
    else:
        for e in log:
            if e["e"] != "wire":
                continue
            data = bytes.fromhex(e["b"])
            stats["wire_bytes"] += len(data)
            stats["datagrams"] += 1
            if dtls_records(data) is None:
                what = "cleartext-coap" if data and (data[0] >> 6) == 1 else "not-dtls-records"
                run.violation("%s-on-dtls-wire/%s" % (what, "from-client" if e["n"] == 0
                                                       else "from-server"), wit,
                              "datagram %s -> %s is not a sequence of DTLS records: %s"
                              % (e["from"], e["to"], data[:48].hex()))
            for mk in markers:
                if mk in data:
                    run.violation("application-data-in-clear/dtls", wit,
                                  "%r appears unencrypted in a datagram %s -> %s"
                                  % (mk, e["from"], e["to"]))
    keys = []
    for j, S in enumerate(sess):
        if S.get("refused") or "addr" not in S:
            continue
        c, v, why = S["c"], S["v"], S["why"]
        mytoks = set(m["tok"] for m in S["msgs"])
        reqs = [e for e in all_reqs if e["tok"] in mytoks]
        rsps = [e for e in log if e["e"] == "rsp" and e.get("n") == 0 and e.get("sess") == j]
        # (COAP_NACK_ICMP_ISSUE, reason 4, is a notice - the message stays queued or in flight
        # and gets its outcome later -, not an outcome: DESIGN 7.1)
        nacks = [e for e in log if e["e"] == "nack" and e.get("n") == 0 and e.get("sess") == j
                 and e.get("reason") != 4
                 and "tok" in e]
        established = any(st == ESTABLISHED for st in S["states"])
        stats["%s/%s" % (s.proto, v)] = stats.get("%s/%s" % (s.proto, v), 0) + 1
        stats["sessions"] += 1
        stats["handler_calls"] += len(reqs) + len(rsps)
        stats["nacks"] += len(nacks)
        stats["state_samples"] += len(S["states"])
        loc = "%s/%s%s" % (s.proto, "+".join(c.note), "/later-session" if j else "")
        acc = [m for m in S["submitted"] if m.get("accepted")]
        cons = [m for m in acc if m["type"] == 0]
        w1 = dict(wit, session=j)
        keys.append((s.proto, v, tuple(c.note), plan, bool(acc), j > 0))
        if v == "fail":
            stats["judged_fail"] += 1
            if reqs:
                run.violation("request-delivered-without-authentication/%s" % loc, w1,
                              "server handler ran %d time(s) for session %d although %s"
                              % (len(reqs), j, why))
            if rsps:
                run.violation("response-delivered-without-authentication/%s" % loc, w1,
                              "client response handler ran on session %d although %s" % (j, why))
            if established:
                run.violation("session-established-without-authentication/%s" % loc, w1,
                              "client session %d observed ESTABLISHED although %s" % (j, why))
            for m in cons:
                n = sum(1 for e in nacks if e["tok"] == m["tok"])
                stats["nack_accounted"] += 1
                if n != 1:
                    run.violation("queued-con-nack-count-%s/%s" % ("0" if n == 0 else "many",
                                                                   s.proto), w1,
                                  "CON request token %s queued on a session that never "
                                  "authenticated was reported by %d NACKs" % (m["tok"], n))
        elif v == "ok":
            stats["judged_ok"] += 1
            got = [e["tok"] for e in reqs]
            want = [m["tok"] for m in sorted(acc, key=lambda m: (m["t"], m["i"]))]
            if got or not acc:
                stats["established_ok"] += 1
            if not got and not rsps and acc and lossy:
                stats["not_judged_lossy"] = stats.get("not_judged_lossy", 0) + 1
            elif not got and not rsps and acc:
                stats["abandoned"] += 1
                if plan == "none":
                    run.violation("handshake-failed-with-matching-credentials/%s" % loc, w1,
                                  "no request of session %d was delivered on a loss-free network "
                                  "although credentials match" % j)
                for m in cons:
                    n = sum(1 for e in nacks if e["tok"] == m["tok"])
                    if n != 1:
                        run.violation("queued-con-nack-count-%s/%s/abandoned" %
                                      ("0" if n == 0 else "many", s.proto), w1,
                                      "handshake abandoned; CON token %s reported by %d NACKs"
                                      % (m["tok"], n))
            elif not lossy:
                # What was queued while the handshake ran is delivered in submission order
                # (the delay queue is flushed front to back, a Confirmable that NSTART holds
                # keeps everything behind it waiting).  A message submitted AFTER the session
                # came up is a different matter: a NON goes out at once and may pass what is
                # still held (C08), a CON joins the end of the queue.  So: total order among
                # the queued ones, and order among all Confirmables.
                typ = dict((m["tok"], m["type"]) for m in acc)
                if stream:
                    queued = set(typ)      # reliable transports: no NSTART, one queue
                else:
                    te = None
                    for e in log:
                        if e["e"] == "wire" and e["from"] == S["addr"]:
                            recs = dtls_records(bytes.fromhex(e["b"]))
                            if recs and any(t_ == 23 for t_, _, _ in recs):
                                te = e["t"]
                                break
                    queued = set(m["tok"] for m in acc if te is not None and m["t"] < te)
                stats["queued_during_handshake"] = stats.get("queued_during_handshake", 0) + \
                    len(queued)
                for label, sel in (("queued", lambda t_: t_ in queued),
                                   ("confirmable", lambda t_: typ.get(t_) == 0)):
                    g = [t_ for t_ in got if sel(t_)]
                    wnt = [t_ for t_ in want if sel(t_)]
                    if g != wnt:
                        kind = "order" if sorted(g) == sorted(wnt) else (
                            "duplicate" if len(g) > len(set(g)) else "missing")
                        run.violation("queued-delivery-%s/%s/%s" % (kind, s.proto, label), w1,
                                      "%s requests reached the server handler as %r, submitted "
                                      "as %r" % (label, g, wnt))
                g = sorted(t_ for t_ in got)
                if g != sorted(want):
                    kind = "duplicate" if len(got) > len(set(got)) else "missing"
                    run.violation("queued-delivery-%s/%s/all" % (kind, s.proto), w1,
                                  "requests reached the server handler as %r, submitted as %r"
                                  % (got, want))
                for m in acc:
                    n = sum(1 for e in rsps if e["tok"] == m["tok"])
                    k = sum(1 for e in nacks if e["tok"] == m["tok"])
                    stats["responses_accounted"] += 1
                    if m["type"] == 0 and (n != 1 or k):
                        run.violation("response-count/%s" % s.proto, w1,
                                      "CON token %s: %d responses, %d NACKs" % (m["tok"], n, k))
                for e in rsps:
                    if e.get("phex") not in (b"RESPONSE-BODY-7f3a".hex(), None, ""):
                        run.violation("response-body-altered/%s" % s.proto, w1, "%r" % e)
        else:
            stats["not_judged_either"] += 1
    evs, rc, err = w.close()
    if rc not in (0, None):
        sg = common.sanitizer_signature(err) or ("exit-rc%s" % rc)
        run.violation("teardown/%s/%s" % (s.proto, sg), dict(wit, stderr=err[-3000:]), err[-1500:])
    return keys


def work(job):
    exe, seeds, tier = job
    run = common.Run("C19", tier, "exploration")
    stats = dict(scenarios=0, sessions=0, handler_calls=0, nacks=0, state_samples=0, wire_bytes=0, datagrams=0,
                 judged_fail=0, judged_ok=0, not_judged_either=0, nack_accounted=0,
                 responses_accounted=0, established_ok=0, abandoned=0, server_setup_refused=0,
                 client_session_refused=0)
    seen = set()
    for sd, proto, force in seeds:
        r = common.rng("c19-%d" % sd)
        for k in scenario(exe, r, run, stats, sd, proto, force) or []:
            seen.add(k)
    return stats, seen, run.export()


def main(tier):
    run = common.Run("C19", tier, "exploration")
    run.rule = ("client node <-> server node, real GnuTLS both sides on the virtual clock; DTLS over "
                "the scripted datagram network, TLS over the relayed stream (re-segmented). "
                "Credential matrix: client key = server's key for that client {equal, one byte "
                "different, first byte different, prefix, longer, empty, other}; server identity "
                "table {known, unknown, prefix/extension/case variants}; SNI table {none, matching, "
                "case variant, unknown, no-SNI entry}; client identity-hint callback {hint known, "
                "unknown}. 0..5 CON/NON requests with marker payloads queued at session creation, "
                "during and after the handshake; loss/duplication in the handshake phase or "
                "throughout; cleartext CoAP injected at the DTLS endpoint from a stranger and from "
                "the client's address, spoofed cleartext responses to the client. Monitors: no "
                "handler call / ESTABLISHED sample unless the model says both sides accept; every "
                "datagram is a clean DTLS record sequence (stream: TLS records) and no marker "
                "appears in clear; each queued CON on a failing session NACKed exactly once by "
                "session release; matching credentials: delivered in submission order exactly "
                "once, one response each")
    run.assumptions = ["PSK only (GnuTLS back-end as built); PKI/RPK not exercised",
                       "two empty keys: outcome not judged", "exactly-once is judged only when "
                       "the network is loss-free after the handshake (libcoap has no server-side "
                       "de-duplication; that is C07's finding)"]
    exe = build.ensure_world("asan")
    n = 2000 if tier == "quick" else 12000
    base = common.seed() * 100000
    seeds = []
    for i in range(n):
        proto = None
        force = None
        if i % 10 == 0:
            proto, force = "dtls", False
        elif i % 10 == 1:
            proto, force = "tls", False
        elif i % 10 == 2:
            proto, force = "dtls", True
        seeds.append((base + i, proto, force))
    jobs = [(exe, seeds[i:i + 5], tier) for i in range(0, len(seeds), 5)]
    tot = {}
    for st, seen, vios in common.parallel_map(work, jobs):
        for k, v in st.items():
            tot[k] = tot.get(k, 0) + v
        run.nontrivial |= seen
        run.merge(vios)
    run.evaluations = tot.get("sessions", 0)
    run.extra.update(tot)
    run.sample({"proto": "dtls", "server": {"ids": {"alice": K0.hex()}},
                "clients": [{"id": "alice", "key": KEY_VARIANTS["prefix"](K0).hex(),
                             "expected": "fail", "queued": ["CON GET", "NON POST"]}],
                "network": "handshake-loss"})
    run.require("judged_fail", tot.get("judged_fail", 0), 40)
    run.require("judged_ok", tot.get("judged_ok", 0), 30)
    run.require("established_ok", tot.get("established_ok", 0), 20)
    run.require("nack_accounted", tot.get("nack_accounted", 0), 30)
    run.require("responses_accounted", tot.get("responses_accounted", 0), 30)
    return run.finish()
