"""C04 - in-place message edits change only what they name.
Edit sequences (insert / update / remove option, token replacement, duplicate
with drop filter) on built and parsed PDUs; after every step the accessor dump
must equal the list model, and the result must serialise and re-parse to it."""
import itertools

from .. import build, common, gen, pduprog, pdumodel as pm
from ..refs import coapwire as cw

EDGE_D = [0, 1, 12, 13, 14, 268, 269, 270]
EDGE_L = [0, 1, 12, 13, 14, 268, 269, 270]


def value_for(r, num, want_len=None):
    if num in cw.OPT_LEN:
        return gen.rbytes(r, gen.legal_len(r, num))
    if want_len is None:
        x = r.random()
        want_len = r.randint(0, 12) if x < 0.5 else r.choice(EDGE_L) if x < 0.95 else \
            r.randint(271, 1500)
    return gen.rbytes(r, want_len)


def start_program(r):
    """returns (steps, model-state or None for parsed, parsed_expect)"""
    proto = "udp"
    m = gen.gen_message(r, proto, allow_huge=r.random() < 0.05)
    if m["code"] == 0:
        m = dict(m, code=1)
    if r.random() < 0.5:
        # built
        need = len(cw.encode(gen.strip(m), "udp"))
        size = r.choice([0, 0, 0, need + 8, need + 300, need + 2000, 1152])
        steps = [("init", m["type"], m["code"], m["mid"], size), ("tok", m["token"])]
        for n, v in m["options"]:
            steps.append(("opt", n, v))
        if m["payload"]:
            steps.append(("data", m["payload"]))
        return steps, None
    wire = cw.encode(gen.strip(m), proto)
    maxsize = r.choice(["0", "0", "0", "len", str(len(wire) + 40), "70000"])
    st = ("parse", proto, maxsize, wire)
    exp = (m["type"], m["code"], m["mid"], m["token"], tuple(m["options"]), m["payload"])
    return [st], exp


def edit_steps(r, state, count):
    steps = []
    s = state.copy()
    for _ in range(count):
        x = r.random()
        opts = s.options
        if x < 0.30:
            # insert relative to a neighbour
            i = r.randint(0, len(opts))
            prev = opts[i - 1][0] if i > 0 else 0
            if i < len(opts):
                nxt = opts[i][0]
                num = max(prev, nxt - r.choice(EDGE_D + [nxt - prev]))
            else:
                num = min(65535, prev + r.choice(EDGE_D + [300, 5000]))
            if r.random() < 0.15:
                num = r.choice(gen.KNOWN_OPTS)
            val = value_for(r, num)
            steps.append(("ins", num, val))
            s.insert(num, val)
        elif x < 0.55:
            if opts and r.random() < 0.85:
                num = r.choice(opts)[0]
            else:
                num = r.choice([r.randint(0, 65535), 2049, 11, 6, 65535])
            val = value_for(r, num)
            steps.append(("upd", num, val))
            if s.has(num):
                for k, (n, _) in enumerate(s.options):
                    if n == num:
                        s.options[k] = (n, val)
                        break
            else:
                s.insert(num, val)
        elif x < 0.80:
            if opts and r.random() < 0.9:
                num = r.choice(opts)[0]
            else:
                num = r.randint(0, 65535)
            steps.append(("rem", num))
            for k, (n, _) in enumerate(s.options):
                if n == num:
                    del s.options[k]
                    break
        elif x < 0.93:
            tl = gen.token_len(r, allow_huge=r.random() < 0.03)
            tok = gen.rbytes(r, tl)
            steps.append(("utok", tok))
            s.token = tok
        else:
            tok = gen.rbytes(r, r.choice([0, 1, 4, 8]))
            if r.random() < 0.4 or not opts:
                drop = None
            else:
                drop = sorted(set(r.choice(opts)[0] for _ in range(r.randint(1, 3))))
                if r.random() < 0.3:
                    drop.append(r.randint(0, 65535))
                # coap_opt_filter_t holds at most 2 numbers > 255 and 6 below
                longs = [n for n in drop if n > 255][:2]
                shorts = [n for n in drop if n <= 255][:6]
                drop = sorted(set(longs + shorts))
            steps.append(("dup", tok, drop))
            s.token = tok
            s.payload = b""
            if drop:
                s.options = [(n, v) for n, v in s.options if n not in set(drop)]
    return steps


def random_programs(r, n):
    out = []
    for _ in range(n):
        steps, exp = start_program(r)
        # model of the start for neighbour-relative generation
        st = pm.State(0, 1, 0)
        if exp is not None:
            st.type, st.code, st.mid, st.token = exp[0], exp[1], exp[2], exp[3]
            st.options, st.payload = list(exp[4]), exp[5]
        else:
            for s_ in steps:
                if s_[0] == "init":
                    st = pm.State(s_[1], s_[2], s_[3])
                elif s_[0] == "tok":
                    st.token = s_[1]
                elif s_[0] == "opt":
                    st.insert(s_[1], s_[2])
                elif s_[0] == "data":
                    st.payload = s_[1]
        count = r.choice([1, 2, 3, 5, 8, 12, 20, 40])
        ed = edit_steps(r, st, count)
        kinds = tuple(sorted(set(e[0] for e in ed)))
        sig = ("rand", exp is not None, kinds, min(count, 8), bool(st.payload),
               pmcls(len(st.token)))
        out.append({"steps": steps + ed, "final": ["udp", "tcp"], "parsed_expect": exp,
                    "sig": sig})
    return out


def pmcls(v):
    return 0 if v == 0 else 1 if v < 13 else 2 if v < 269 else 3


def exhaustive_programs(tier, shard, nshards):
    D = [1, 12, 13, 14, 268, 269] if tier == "quick" else [1, 2, 12, 13, 14, 268, 269, 270, 600]
    L = [0, 12, 13, 269]
    NEWL = [0, 12, 13, 268, 269]
    INSD = [0, 1, 12, 13, 268, 269]
    out = []
    idx = 0
    for d1, d2, d3 in itertools.product(D, D, D):
        nums = [3000 + d1, 3000 + d1 + d2, 3000 + d1 + d2 + d3]
        ops = []
        for pos in range(3):
            ops.append(("rem", nums[pos]))
            for nl in NEWL:
                ops.append(("upd", nums[pos], bytes([9]) * nl))
        for gap in range(4):
            nxt = nums[gap] if gap < 3 else None
            prev = nums[gap - 1] if gap > 0 else 0
            for dd in INSD:
                num = (nxt - dd) if nxt is not None else prev + dd
                if num < prev:
                    continue
                ops.append(("ins", num, bytes([7]) * L[(idx + dd) % len(L)]))
        for op in ops:
            idx += 1
            if idx % nshards != shard:
                continue
            lens = [L[(idx + k) % len(L)] for k in range(3)]
            steps = [("init", 0, 2, 77, 0), ("tok", b"\x01\x02")]
            for k in range(3):
                steps.append(("opt", nums[k], bytes([k + 1]) * lens[k]))
            if idx & 1:
                steps.append(("data", b"payload"))
            steps.append(op)
            sig = ("exh", d1, d2, d3, op[0], op[1] if op[0] != "ins" else (op[1], len(op[2])),
                   len(op[2]) if op[0] == "upd" else 0)
            out.append({"steps": steps, "final": ["udp", "tcp"], "sig": sig})
    return out


def work(job):
    kind, arg, exe = job
    if kind == "random":
        progs = random_programs(common.rng("c04-%d" % arg[0]), arg[1])
    else:
        progs = exhaustive_programs(*arg)
    vios, crashes, agg = pduprog.run_programs(exe, progs)
    sigs = set(p["sig"] for p in progs)
    sample = {"program": pduprog.program_line(progs[len(progs) // 2])[:400]} if progs else None
    return len(progs), sigs, vios, crashes, agg, sample


def main(tier):
    run = common.Run("C04", tier, "exploration")
    run.rule = ("edit sequences of length 1..40 over coap_insert_option / coap_update_option / "
                "coap_remove_option (numbers chosen relative to the neighbours so that the next "
                "option's delta crosses 12/13 and 268/269), coap_update_token (0..65804) and "
                "coap_pdu_duplicate_lkd with/without drop filter, on built and on parsed PDUs "
                "with several max sizes; plus exhaustive single edits on a 3-option PDU over "
                "(neighbour delta classes x position x new size class); after every step the "
                "accessor dump must equal the list model, finally encode->parse on UDP and TCP; "
                "distinct_nontrivial = distinct (origin, edit kinds, length, payload, token "
                "class) / exhaustive-combination signatures")
    run.assumptions = ["vf/pdumodel.py implements the documented semantics (insert after equal "
                       "numbers; update/remove act on the first occurrence; update of a missing "
                       "option inserts)", "model advanced only on reported success"]
    exe = build.ensure_harness("asan", "pure", ["pure.c", "pure_uri.c", "pure_wk.c"])
    nrand, per = (32000, 1000) if tier == "quick" else (1000000, 5000)
    jobs = [("random", (i, per), exe) for i in range(nrand // per)]
    nsh = 8 if tier == "quick" else 32
    jobs += [("exh", (tier, s, nsh), exe) for s in range(nsh)]
    agg = {}
    for n, sigs, vios, crashes, a, sample in common.parallel_map(work, jobs):
        run.evaluations += n
        run.nontrivial |= sigs
        for k, v in a.items():
            agg[k] = agg.get(k, 0) + v
        for rule, w, text in vios:
            run.violation(rule, w, text)
        for sig, w in crashes:
            run.violation("sanitizer/" + sig, w, w.get("stderr", "")[-1200:])
        if sample:
            run.sample(sample)
    run.extra["api_calls_judged"] = agg.get("steps", 0)
    run.extra["calls_accepted"] = agg.get("accepted", 0)
    run.extra["calls_refused"] = agg.get("refused", 0)
    run.extra["start_parse_rejected"] = agg.get("parse_rejected", 0)
    run.require("accepted_edit_calls", agg.get("accepted", 0), 10000)
    return run.finish()
