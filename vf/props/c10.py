"""C10 - a server answers each request datagram once, with the protocol-
prescribed code.  Raw peer injects reference-encoded requests into a server
node of the closed world; the reply and the handler log are compared with the
executable decision table vf/refs/serverspec.py."""
from .. import build, common, world
from ..refs import coapwire as cw, serverspec as S, uri as U

SERVER = "10.0.0.1:5683"
MCAST = "224.0.1.187:5683"
PEER = "10.0.7.1:50000"


def make_table(r):
    res = [
        S.Resource([b"a"], [1, 2, 3, 4, 5, 6, 7], body=b"A-body"),
        S.Resource([b"b", b"c"], [1], body=b"BC"),
        S.Resource([b"obs"], [1], body=b"O", observable=True),
        S.Resource([b"f"], [1, 5], body=b"F"),
        S.Resource([b"x y", b"z/w"], [1, 2], body=b"esc"),
        S.Resource([b"e", b""], [1], body=b"trail"),
        S.Resource([b"c0"], [1, 2], code=0),
        S.Resource([b"c4"], [1, 3], code=0x80, body=b"bad"),
        S.Resource([b"c5"], [1], code=0xA0),
        S.Resource([b"ro"], [1], body=b"R", ropts=[(12, b"\x2a"), (14, b"\x3c")]),
    ]
    if r.random() < 0.5:
        res.append(S.Resource([b"m"], [1], body=b"M", flags=r.choice(
            [0, S.FLAG_HAS_MCAST, S.FLAG_HAS_MCAST | S.FLAG_SUPPRESS_205,
             S.FLAG_HAS_MCAST | S.FLAG_DIS_SUPPRESS_4XX])))
    unknown = r.choice([None, None, {3}])      # coap_resource_unknown_init: PUT
    proxy = r.random() < 0.25
    mpr = r.random() < 0.3
    reg = [2049] if r.random() < 0.2 else []
    return S.Table(res, unknown, proxy, mpr, reg)


def setup(exe, seed, table):
    w = world.World(exe, seed=seed)
    sim = world.Sim(w, latency=0)
    kw = {}
    if table.mcast_per_resource:
        kw["mcast_per_resource"] = 1
    sim.add_node(0, **kw)
    for opt in table.registered:
        sim.cmd("ctx 0 regopt=%d" % opt)
    sim.cmd("ep 0 udp %s" % SERVER)
    for res in table.resources:
        name = U.path_string(res.segments)
        args = ["res 0 %s" % (name.hex() or "-"), "methods=%s" % ",".join(map(str, sorted(res.methods)))]
        if res.code is not None:
            args.append("code=%d" % res.code)
        if res.body:
            args.append("body=fixed:%s" % res.body.hex())
        if res.observable:
            args.append("obs=1")
        if res.flags:
            args.append("flags=%d" % res.flags)
        if res.ropts:
            args.append("ropts=" + ",".join("%d=%s" % (n, v.hex()) for n, v in res.ropts))
        sim.cmd(" ".join(args))
    if table.unknown_methods is not None:
        sim.cmd("res 0 - kind=unknown")
    if table.proxy:
        sim.cmd("res 0 - kind=proxy")
    return w, sim


ELECTIVE_UNKNOWN = [2050, 2052, 65000, 64, 300]
CRITICAL_UNKNOWN = [2051, 2053, 9, 19, 31, 65001, 13, 21]
PATHS = [[b"a"], [b"b", b"c"], [b"obs"], [b"f"], [b"x y", b"z/w"], [b"e", b""], [b"c0"],
         [b"c4"], [b"c5"], [b"ro"], [b"m"], [], [b""], [b"nope"], [b"a", b"b"], [b"b"],
         [b".well-known", b"core"], [b"x y"], [b"x%20y", b"z%2Fw"], [b"A"], [b"a", b""],
         [b"b/c"], [b"e"], [b"", b"a"]]


def gen_request(r, table, k):
    typ = r.choice([0, 0, 0, 1, 1, 2, 3])
    x = r.random()
    if x < 0.78:
        code = r.choice([1, 1, 1, 2, 3, 4, 5, 6, 7])
    elif x < 0.86:
        code = r.randint(8, 31)
    else:
        code = r.choice([0x20, 0x3f, 0xC0, 0xC5, 0xE1, 0xE2, 0xFF])
    opts = []
    segs = r.choice(PATHS)
    for s in segs:
        opts.append((11, s))
    feats = set()
    y = r.random()
    if y < 0.12:
        n = r.choice(CRITICAL_UNKNOWN)
        if n == 2049 or n in table.registered:
            n = 2051
        opts.append((n, common.rng("x%d" % k).randbytes(r.randint(0, 3)) if n not in (19, 31)
                     else b"\x01"))
        feats.add("crit")
    elif y < 0.2:
        n = r.choice([12, 17, 3, 6, 60, 14, 7])
        v = {3: b"h", 7: b"\x16\x33"}.get(n, b"\x01")
        opts += [(n, v), (n, v)]
        feats.add("rep")
    elif y < 0.27:
        n = r.choice([4, 15, 1])
        opts += [(n, b"\x01"), (n, b"\x02")]
        feats.add("legalrep")
    # (the proxy resource of the harness answers for "proxy.example" itself; other.example is
    # an authority it would have to forward to)
    phost = r.choice([b"proxy.example", b"other.example"])
    px = r.random()
    if table.proxy and px < 0.25:
        # proxy requests proper, with the option mixes RFC 7252 5.7.1 distinguishes: unknown
        # critical options that are Safe-to-Forward (13, 21, 65) or Unsafe (19, 31, 67)
        opts[:] = [(11, b"a")] if r.random() < 0.5 else []
        if r.random() < 0.6:
            opts.append((35, b"coap://" + phost + b"/a"))
            feats.add("proxyuri")
        else:
            opts += [(39, b"coap"), (3, phost)]
            feats.add("proxyscheme")
        for _ in range(r.choice([0, 1, 1, 2, 3])):
            n = r.choice([13, 21, 37, 41, 65, 65, 19, 31, 67, 2051])
            opts.append((n, b"\x01"))
            feats.add("crit-safe" if not n & 2 else "crit-unsafe")
        if r.random() < 0.15:
            opts.append((35, b"coap://" + phost + b"/b") if "proxyuri" in feats else (39, b"coap"))
            feats.add("rep")
        if code not in (1, 2, 3, 4):
            code = 1
        if typ not in (0, 1):
            typ = 0
        return (cw.msg(code, type=typ, mid=(0x3000 + k) & 0xffff,
                       token=bytes([0xE1, k & 255, k >> 8]), options=opts, payload=b""),
                False, feats)
    if px < 0.08:
        opts.append((35, b"coap://" + phost + b"/a"))
        feats.add("proxyuri")
    if r.random() < 0.08:
        opts.append((39, b"coap"))
        if r.random() < 0.6:
            opts.append((3, phost))
        feats.add("proxyscheme")
    if r.random() < 0.12:
        opts.append((16, bytes([r.choice([0, 1, 2, 255])])))
        feats.add("hop")
    if r.random() < 0.1:
        opts.append((5, b""))
        feats.add("inm")
    if code == 5 and r.random() < 0.6 or r.random() < 0.1:
        if not any(n == 12 for n, _ in opts):
            opts.append((12, b"\x2a"))
    if r.random() < 0.15:
        opts.append((258, bytes([r.choice([0, 2, 8, 16, 26])]).lstrip(b"\0")))
        feats.add("noresp")
    if r.random() < 0.15:
        opts.append((r.choice(ELECTIVE_UNKNOWN), b"el"))
    if r.random() < 0.1 and 2049 in table.registered:
        opts.append((2049, b"r"))
    if r.random() < 0.06 and not any(n == 6 for n, _ in opts):
        opts.append((6, b""))
    if r.random() < 0.08:
        # Block2 for block 0 with the M bit (which a request must not set: RFC 7959 2.2; a
        # lenient server clears it) or without, followed by other options
        opts.append((23, bytes([r.choice([0x08, 0x0A, 0x0E, 0x02, 0x06])]) if r.random() < 0.8
                     else b""))
        if r.random() < 0.7:
            opts.append((28, bytes([r.choice([0x20, 0x21, 0x05, 0xFF])])))
        feats.add("block2")
    if r.random() < 0.15:
        opts.append((15, b"q=1"))
    if r.random() < 0.1 and not any(n == 17 for n, _ in opts):
        opts.append((17, b""))
    payload = b"" if r.random() < 0.6 else bytes(r.getrandbits(8) for _ in range(r.randint(1, 20)))
    mcast = typ in (0, 1) and r.random() < 0.12
    req = cw.msg(code, type=typ, mid=(0x2000 + k) & 0xffff, token=bytes([0xE0, k & 255, k >> 8]),
                 options=opts, payload=payload)
    return req, mcast, feats


def classify(d):
    typ, code = d["type"], d["code"]
    if typ == 3:
        return ("rst",)
    if code == 0 and typ == 2:
        return ("empty-ack",)
    return ("reply", code)


def run_one(exe, r, nreq, run, stats, witness):
    table = make_table(r)
    w, sim = setup(exe, r.getrandbits(30), table)
    sigs = set()
    try:
        for k in range(nreq):
            req, mcast, feats = gen_request(r, table, k)
            wire = cw.encode(req, "udp")
            mark = len(sim.log)
            sim.inject(PEER, MCAST if mcast else SERVER, wire)
            sim.run(until=sim.elapsed() + (6000 if mcast else 1), quiesce=False)
            evs = sim.log[mark:]
            out = [e for e in evs if e["e"] == "wire" and e["to"] == PEER]
            runs = [e for e in evs if e["e"] == "req"]
            # a proxy that forwards acknowledges a Confirmable request with an Empty ACK (the
            # direct reply) and sends what its handler produced as a separate response, which
            # the peer acknowledges in turn
            separate = None
            if table.proxy and any(n in (35, 39) for n, _ in req["options"]) and len(out) == 2:
                b0, b1 = bytes.fromhex(out[0]["b"]), bytes.fromhex(out[1]["b"])
                if len(b0) == 4 and (b0[0] >> 4) & 3 == 2 and b0[1] == 0 and len(b1) >= 4 and \
                        (b1[0] >> 4) & 3 in (0, 1) and b1[1] >= 64:
                    separate = b1
                    out = out[:1]
            for e in out + ([{"b": separate.hex()}] if separate else []):
                b = bytes.fromhex(e["b"])
                if len(b) >= 4 and (b[0] >> 4) & 3 == 0 and b[1] >= 64:
                    sim.inject(PEER, SERVER, bytes([0x60, 0, b[2], b[3]]))
                    sim.run(until=sim.elapsed() + 1, quiesce=False)
            stats["requests"] += 1
            wit = dict(witness, request=wire.hex(), mcast=mcast, k=k,
                       table={"unknown": sorted(table.unknown_methods or []) if
                              table.unknown_methods is not None else None,
                              "proxy": table.proxy, "mcast_per_resource": table.mcast_per_resource,
                              "registered": sorted(table.registered)})
            if len(out) > 1:
                run.violation("more-than-one-reply", wit, "%d datagrams for one request: %r" %
                              (len(out), [e["b"] for e in out]))
                continue
            reply = None
            if out:
                try:
                    reply = cw.decode(bytes.fromhex(out[0]["b"]), "udp")
                except Exception as ex:
                    run.violation("reply-not-wellformed", wit, "%s: %r" % (out[0]["b"], ex))
                    continue
                stats["replies"] += 1
                if req["type"] == 1 and reply["type"] == 2:
                    run.violation("ack-for-non", wit, "NON request answered with ACK %s"
                                  % out[0]["b"])
                if req["type"] == 0 and reply["type"] in (2, 3) and reply["mid"] != req["mid"]:
                    run.violation("ack-with-wrong-mid", wit, "request mid %d reply mid %d" %
                                  (req["mid"], reply["mid"]))
                if req["type"] == 0 and reply["type"] not in (2, 3) and req["type"] in (0, 1) \
                        and 1 <= req["code"] <= 31 and not mcast:
                    run.violation("con-not-acknowledged", wit, "CON request answered with type "
                                  "%d" % reply["type"])
                if reply["code"] != 0 and reply["token"] != req["token"]:
                    run.violation("token-not-echoed", wit, "request token %s reply token %s" %
                                  (req["token"].hex(), reply["token"].hex()))
            outs, judged = S.admissible(req, table, mcast)
            obs = (classify(reply) if reply else None, len(runs))
            sigs.add((req["type"], min(req["code"], 9) if req["code"] < 32 else req["code"] >> 5,
                      tuple(sorted(feats)), mcast, obs[0][0] if obs[0] else None,
                      obs[0][1] if obs[0] and len(obs[0]) > 1 else None, obs[1]))
            if not judged:
                stats["not_judged"] += 1
                continue
            stats["judged"] += 1
            if outs == S.PROXY_FORWARD:
                stats["proxy_forward_judged"] = stats.get("proxy_forward_judged", 0) + 1
                if separate is not None:
                    try:
                        sp = cw.decode(separate, "udp")
                        if sp["token"] != req["token"]:
                            run.violation("token-not-echoed", wit, "separate response token %s"
                                          % sp["token"].hex())
                    except Exception as ex:
                        run.violation("reply-not-wellformed", wit, "%s: %r" % (separate.hex(), ex))
                if len(runs) != 1 or runs[0]["res"] != "*proxy*":
                    run.violation("proxy-request-not-handed-to-proxy-handler/%s" %
                                  (("got-%d.%02d" % (reply["code"] >> 5, reply["code"] & 31))
                                   if reply else "no-reply"), wit,
                                  "forwarding request %r: handler runs %r, reply %r" %
                                  (req, [e["res"] for e in runs], reply))
                continue
            keys = set(o.key() for o in outs)
            if obs not in keys and mcast and obs[0] == ("rst",):
                run.violation("reset-sent-to-multicast-request", wit,
                              "NON request to a multicast address answered with RST (RFC 7252 "
                              "8.1): %r" % (req,))
                continue
            if obs not in keys:
                want = sorted(keys, key=repr)
                rule = "wrong-reply"
                if obs[1] != 0 and all(k[1] == 0 for k in keys):
                    rule = "handler-ran-unexpectedly"
                elif obs[1] == 0 and all(k[1] == 1 for k in keys):
                    rule = "handler-did-not-run"
                elif obs[1] > 1:
                    rule = "handler-ran-more-than-once"
                exp = "/".join(sorted(set(
                    ("%d.%02d" % (k[0][1] >> 5, k[0][1] & 31)) if k[0] and k[0][0] == "reply"
                    else (k[0][0] if k[0] else "nothing") for k in keys)))
                got = ("%d.%02d" % (obs[0][1] >> 5, obs[0][1] & 31)) if obs[0] and \
                    obs[0][0] == "reply" else (obs[0][0] if obs[0] else "nothing")
                run.violation("%s/expected-%s-got-%s" % (rule, exp, got), wit,
                              "request %r (mcast %s)\nadmissible (reply, handler runs): %r\n"
                              "observed: %r" % (req, mcast, want, obs))
                continue
            stats["outcome_" + (obs[0][0] if obs[0] else "nothing")] = \
                stats.get("outcome_" + (obs[0][0] if obs[0] else "nothing"), 0) + 1
            if obs[1] == 1:
                stats["handler_runs"] += 1
                match = [o for o in outs if o.key() == obs][0]
                ev = runs[0]
                segs = [v for n, v in req["options"] if n == 11]
                if isinstance(match.resource, S.Resource):
                    want_name = U.path_string(match.resource.segments).decode("latin1")
                    if ev["res"] != want_name:
                        run.violation("wrong-resource-handler-ran", wit,
                                      "request path %r ran handler of %r" % (segs, ev["res"]))
                canon = [] if segs == [b""] else segs
                if bytes.fromhex(ev.get("upath", "")) != U.path_string(canon):
                    run.violation("handler-saw-other-path", wit, "segments %r, handler saw %r"
                                  % (segs, bytes.fromhex(ev.get("upath", ""))))
                want_opts = [(n, (bytes([v[0] - 1]) if n == 16 and len(v) == 1 else v))
                             for n, v in req["options"]]
                got_opts = []
                if ev["opts"]:
                    for item in ev["opts"].split(";"):
                        a, b = item.split("=")
                        got_opts.append((int(a), bytes.fromhex(b)))
                # the M bit of a request's Block2 may be cleared by the library before the
                # handler sees it: compare Block2 modulo that bit
                def nb(o):
                    return [(n, (bytes([v[-1] & 0xF7]) if n == 23 and v else v)) if n == 23
                            else (n, v) for n, v in o]
                if nb(got_opts) != nb(want_opts) and not (
                        [x for x in nb(got_opts) if x[0] != 23] ==
                        [x for x in nb(want_opts) if x[0] != 23] and
                        [x for x in got_opts if x[0] == 23] in ([(23, b"")], [(23, b"\x00")])):
                    run.violation("handler-saw-other-options", wit, "request %r\nhandler %r" %
                                  (want_opts, got_opts))
                gotp = bytes.fromhex(ev.get("phex", "")) if ev.get("plen", -1) > 0 else b""
                if gotp != req["payload"]:
                    run.violation("handler-saw-other-payload", wit, "request %s handler %s" %
                                  (req["payload"].hex(), gotp.hex()))
                if reply and reply["code"] != 0 and isinstance(match.resource, S.Resource):
                    if match.resource.body and reply["payload"] != match.resource.body:
                        run.violation("reply-payload-not-what-handler-set", wit,
                                      "handler set %r, wire carries %r" %
                                      (match.resource.body, reply["payload"]))
                    for o in match.resource.ropts:
                        if o not in reply["options"]:
                            run.violation("reply-option-not-what-handler-set", wit,
                                          "handler set option %r, reply has %r" %
                                          (o, reply["options"]))
        witness["script"] = [x for x in w.script if not x.startswith(("peek", "prepare"))][-60:]
        world.teardown_check(run, "C10", w, witness)
    finally:
        if not w.closed:
            w.close(kill=True)
    return sigs


def work(job):
    items, exe, nreq = job
    run = common.Run("C10", "quick", "exploration")
    stats = dict(requests=0, replies=0, judged=0, not_judged=0, handler_runs=0)
    sigs = set()
    n = 0
    for it in items:
        r = common.rng("c10-%d" % it)
        witness = {"item": it, "seed": common.seed()}
        try:
            sigs |= run_one(exe, r, nreq, run, stats, witness)
        except world.WorldCrash as e:
            world.crash_violation(run, "C10", e, witness)
        except common.Inconclusive:
            stats["inconclusive"] = stats.get("inconclusive", 0) + 1
        n += 1
    return n, sigs, run.export(), stats


def main(tier):
    run = common.Run("C10", tier, "exploration")
    run.rule = ("raw peer injects reference-encoded requests: code (0.01-0.07, 0.08-0.31, classes "
                "1/6/7) x type (CON/NON/ACK/RST) x option sets (unknown critical/elective, legal "
                "and illegal repetition, Proxy-Uri, Proxy-Scheme +/- Uri-Host, Hop-Limit "
                "0/1/2/255, If-None-Match, Content-Format, No-Response 0/2/8/16/26, Observe, "
                "Uri-Query) x Uri-Path (existing, escaped, empty segments, .well-known/core, "
                "unknown, near misses) x unicast/multicast x resource tables (unknown-resource "
                "handler, proxy resource, per-resource multicast flags, registered options); "
                "evaluations = requests; distinct_nontrivial = distinct (type, code class, "
                "features, multicast, observed outcome) tuples")
    run.assumptions = ["vf/refs/serverspec.py (DESIGN.md appendix A) returns a SET of admissible "
                       "outcomes; precedence between simultaneous error conditions is not judged",
                       "ACK/RST-typed and response-class 'requests': only 'at most one datagram' "
                       "is judged; requests with proxy options on a server with a proxy resource: "
                       "4.02 for Unsafe unknown critical options and illegal repetitions, and plain "
                       "forwarding requests (foreign authority, at most Safe-to-Forward unknown "
                       "critical options) reach the proxy handler once (Empty ACK + separate "
                       "response); other proxy requests: only 'at most one direct reply'"]
    exe = build.ensure_world("asan")
    nworld, nreq = (1200, 60) if tier == "quick" else (4000, 100)
    chunk = 5
    jobs = [(list(range(i, min(nworld, i + chunk))), exe, nreq) for i in range(0, nworld, chunk)]
    stats = {}
    for n, sigs, vios, st in common.parallel_map(work, jobs):
        run.nontrivial |= sigs
        run.merge(vios)
        for k, v in st.items():
            stats[k] = stats.get(k, 0) + v
    run.evaluations = stats.get("requests", 0)
    run.extra.update(stats)
    run.sample({"example_request": "CON GET /a with unknown critical option 2051 -> ACK 4.02",
                "worlds": nworld, "requests_per_world": nreq})
    run.require("judged", stats.get("judged", 0), 2000)
    run.require("handler_runs", stats.get("handler_runs", 0), 300)
    run.require("proxy_forward_judged", stats.get("proxy_forward_judged", 0), 100)
    return run.finish()
