"""C06 - confirmable messages are retransmitted on schedule and end in one
outcome.  Closed-world runs (virtual clock, scripted network, seeded or pinned
PRNG); an offline monitor over the wire trace judges every CON message."""
import itertools

from .. import build, common, world
from ..refs import coapwire as cw

NACK_TOO_MANY, NACK_RST = 0, 2
PEER = "10.0.9.%d:5683"


def hdr(b):
    return (b[0] >> 4) & 3, b[1], (b[2] << 8) | b[3]


def empty(typ, mid):
    return bytes([0x40 | (typ << 4), 0, mid >> 8, mid & 255])


class Params:
    def __init__(self, at=2000, arf=1500, mr=4, pin=None):
        self.at, self.arf, self.mr, self.pin = at, arf, mr, pin

    def t_bounds(self):
        eps = (self.at / 1000.0 + self.arf / 1000.0 + 1) * 1000 / 64.0 + 2
        lo = self.at - eps
        hi = self.at * self.arf / 1000.0 + eps
        if self.pin is not None:
            mid = self.at * (1 + (self.arf / 1000.0 - 1) * self.pin / 256.0)
            lo, hi = max(lo, mid - eps), min(hi, mid + eps)
        return lo, hi


def check_schedule(run, sim, params_of, witness, stats):
    """Offline monitor.  params_of(sender_addr) -> Params or None (not judged)."""
    tx = {}
    rx = {}
    nacks = {}
    sess_addr = {}
    ep_addr = {}
    accepted = []
    pending_mid = {}
    for ev in sim.log:
        k = ev["e"]
        if k == "bound":
            ep_addr[ev["n"]] = ev["addr"]
        elif k == "sess" and ev.get("ok"):
            sess_addr[(ev["n"], ev["sid"])] = (ev["local"], ev["remote"])
        elif k == "event" and ev["code"] == 0x4001:
            sess_addr[(ev["n"], ev["sess"])] = (ep_addr.get(ev["n"]), ev["remote"])
        elif k in ("wire", "wirefail"):
            # a write the socket refused (failsend) is a transmission the library made at
            # that instant and the network lost: the schedule runs on from it
            b = bytes.fromhex(ev["b"])
            if len(b) >= 4 and (b[0] >> 6) == 1:
                typ, code, mid = hdr(b)
                if typ == 0:
                    tx.setdefault((ev["from"], ev["to"], mid), []).append((ev["t"], b))
                    if k == "wirefail":
                        stats["failed_writes"] = stats.get("failed_writes", 0) + 1
        elif k == "sending":
            pending_mid[(ev["n"], ev["sess"])] = ev.get("pmid")
        elif k == "sent":
            a = sess_addr.get((ev["n"], ev["sess"]))
            if a:
                if ev["mid"] >= 0:
                    accepted.append((a[0], a[1], ev["mid"], ev["t"]))
                else:
                    # coap_send() refused the message (its first write failed): it was not
                    # accepted for sending and nothing more is expected of it
                    stats["refused_by_api"] = stats.get("refused_by_api", 0) + 1
                    tx.pop((a[0], a[1], pending_mid.get((ev["n"], ev["sess"]))), None)
        elif k in ("rx",):
            b = bytes.fromhex(ev["b"])
            if len(b) >= 4 and (b[0] >> 6) == 1:
                typ, code, mid = hdr(b)
                if typ in (2, 3):
                    rx.setdefault((ev["to"], ev["from"], mid), []).append((ev["t"], typ))
                elif typ in (0, 1) and code >= 64:
                    # a separate response: completes the request with its token (as an ACK
                    # with the request's id would)
                    try:
                        rtok = cw.decode(b, "udp")["token"]
                    except Exception:
                        continue
                    for (f2, t2, m2), txs in tx.items():
                        if f2 == ev["to"] and t2 == ev["from"]:
                            try:
                                if cw.decode(txs[0][1], "udp")["token"] == rtok:
                                    rx.setdefault((f2, t2, m2), []).append((ev["t"], 2))
                                    stats["ended_by_separate_response"] = \
                                        stats.get("ended_by_separate_response", 0) + 1
                            except Exception:
                                pass
        elif k == "nack":
            a = sess_addr.get((ev["n"], ev["sess"]))
            if a:
                nacks.setdefault((a[0], a[1], ev["cbmid"]), []).append((ev["t"], ev["reason"]))
    end = sim.now
    for frm, to, mid, t in accepted:
        # "every Confirmable message accepted for sending is transmitted": also one that had
        # to wait for an NSTART slot (the horizon covers every predecessor being given up)
        if params_of(frm) is None or to in getattr(sim, "c06_dropped_peers", ()):
            continue
        stats["accepted"] = stats.get("accepted", 0) + 1
        if (frm, to, mid) not in tx:
            run.violation("accepted-message-never-transmitted",
                          dict(witness, message={"from": frm, "to": to, "mid": mid}),
                          "mid %d accepted by coap_send() at %d, not written to the socket by %d"
                          % (mid, t, end))
        elif tx[(frm, to, mid)][0][0] > t:
            stats["parked_then_sent"] = stats.get("parked_then_sent", 0) + 1
    for (frm, to, mid), txs in sorted(tx.items()):
        p = params_of(frm)
        if p is None or to in getattr(sim, "c06_dropped_peers", ()):
            continue
        stats["con_messages"] += 1
        w = dict(witness, message={"from": frm, "to": to, "mid": mid,
                                   "tx_times": [t for t, _ in txs]})
        times = [t for t, _ in txs]
        if any(b != txs[0][1] for _, b in txs):
            run.violation("retransmission-not-byte-identical", w, "mid %d: %r" %
                          (mid, [b.hex() for _, b in txs]))
        gaps = [b - a for a, b in zip(times, times[1:])]
        stats["retransmissions"] += len(gaps)
        lo, hi = p.t_bounds()
        if gaps:
            if not lo <= gaps[0] <= hi:
                run.violation("first-gap-out-of-range/%s" % ("pinned" if p.pin is not None
                                                             else "seeded"), w,
                              "mid %d first gap %d ms not in [%.0f, %.0f] (ACK_TIMEOUT %d ms, "
                              "ACK_RANDOM_FACTOR %.3f, draw %r)" %
                              (mid, gaps[0], lo, hi, p.at, p.arf / 1000.0, p.pin))
            for i in range(1, len(gaps)):
                if abs(gaps[i] - 2 * gaps[i - 1]) > 1:
                    run.violation("gap-not-doubled", w, "mid %d gaps %r" % (mid, gaps))
                    break
        if len(gaps) > p.mr:
            run.violation("too-many-retransmissions", w, "mid %d: %d retransmissions, "
                          "MAX_RETRANSMIT %d" % (mid, len(gaps), p.mr))
        answers = sorted(x for x in rx.get((frm, to, mid), []) if x[0] >= times[0])
        nk = nacks.get((frm, to, mid), [])
        # when and how does the message end?  earliest of: first matching ACK/RST delivered
        # after the first transmission, the give-up deadline
        due = None
        if len(gaps) >= p.mr:
            due = times[p.mr] + 2 * gaps[p.mr - 1]
        first = answers[0] if answers else None
        if first and due is not None and first[0] > due:
            first = None
        if first and due is not None and abs(first[0] - due) <= 1:
            # answer and give-up deadline coincide: either order is legitimate
            tm = [x for x in nk if x[1] == NACK_TOO_MANY and abs(x[0] - due) <= 1]
            stats["deadline_ties"] = stats.get("deadline_ties", 0) + 1
            if len(tm) > 1:
                run.violation("giveup-outcome-not-exactly-one-nack", w, "mid %d: nacks %r"
                              % (mid, nk))
            continue
        # NACK(RST) calls caused by RSTs that arrive after the message has ended are outside
        # the statement (the peer resets a message id that is no longer pending): not judged
        late_rst_times = set(t for t, typ in answers if typ == 3 and
                             (first is None or t > first[0]))
        nk_judged = [x for x in nk if not (x[1] == NACK_RST and x[0] in late_rst_times)]
        if first:
            t_ans, typ = first
            late = [t for t in times if t > t_ans]
            if late:
                run.violation("transmitted-after-%s" % ("ack" if typ == 2 else "rst"), w,
                              "mid %d answered at %d but transmitted again at %r" %
                              (mid, t_ans, late))
            if typ == 2:
                stats["ended_by_ack"] += 1
                if nk_judged:
                    run.violation("nack-after-ack", w, "mid %d acked at %d, nacks %r" %
                                  (mid, t_ans, nk))
            else:
                stats["ended_by_rst"] += 1
                rs = [x for x in nk_judged if x[1] == NACK_RST and x[0] == t_ans]
                if len(nk_judged) != 1 or len(rs) != 1:
                    run.violation("rst-outcome-not-exactly-one-nack", w,
                                  "mid %d reset at %d, nacks %r" % (mid, t_ans, nk))
        else:
            # never (validly) answered: must be given up on schedule, if the run lasted
            if due is None:
                expected_next = times[-1] + (2 * gaps[-1] if gaps else hi)
                if expected_next + 2 < end:
                    run.violation("retransmission-missing", w, "mid %d: only %d of %d "
                                  "retransmissions by %d (next was due %d)" %
                                  (mid, len(gaps), p.mr, end, expected_next))
                continue
            if due + 2 < end:
                stats["given_up"] += 1
                tm = [x for x in nk_judged if x[1] == NACK_TOO_MANY]
                if len(nk_judged) != 1 or len(tm) != 1:
                    run.violation("giveup-outcome-not-exactly-one-nack", w,
                                  "mid %d: nacks %r" % (mid, nk))
                elif abs(tm[0][0] - due) > 1:
                    run.violation("giveup-at-wrong-time", w, "mid %d: NACK at %d, due %d"
                                  % (mid, tm[0][0], due))


# ------------------------------------------------------------------ scenarios

def scenario_client(exe, r, idx):
    """client node -> raw peers answering per plan"""
    # the session setters accept ACK_TIMEOUT >= 1 s, ACK_RANDOM_FACTOR >= 1, MAX_RETRANSMIT >= 1
    at = r.choice([1000, 2000, 2000, 7300, 2000, 7300, 60000, 255500, 256000, 300000, 1000000])
    arf = r.choice([1000, 1500, 3700])
    mr = r.choice([1, 2, 4, 4, 8])
    if at >= 60000:
        # slow links (the setter takes up to 65535 s): keep the run within a few virtual hours
        mr = min(mr, 2)
    pin = r.choice([0, 255, None])
    nsess = r.choice([1, 1, 2, 3])
    nmsg = r.choice([1, 1, 2, 4])
    # a third of the runs: fewer NSTART slots than messages, so that some wait in the
    # session's delay queue and go out when an earlier exchange ends; a quarter: one
    # datagram write of the node fails (ENOBUFS)
    nstart = 4
    if r.random() < 0.33:
        nstart = r.choice([1, 1, 2])
        nmsg = r.choice([2, 3, 4, 6])
    failsend = r.choice([1, 2, 2, 3, 3, 4, 5, 7]) if r.random() < 0.25 else 0
    p = Params(at, arf, mr, pin)
    w = world.World(exe, seed=r.getrandbits(30))
    sim = world.Sim(w, latency=0)
    sim.timers_first = r.random() < 0.5
    try:
        if pin is not None:
            sim.cmd("pin %d" % pin)
        sim.add_node(0)
        plans = {}
        dropped = set()
        lo, hi = p.t_bounds()
        tmid = (lo + hi) / 2
        if failsend:
            sim.cmd("failsend %d" % failsend)
        for s in range(nsess):
            sim.cmd("sess 0 %d udp %s ack_timeout_ms=%d arf_milli=%d max_retransmit=%d nstart=%d"
                    % (s, PEER % (s + 1), at, arf, mr, nstart))
        msgs = []
        for m in range(nmsg):
            sid = r.randrange(nsess)
            tok = bytes([0xA0 + m, sid])
            kind = r.choice(["never", "ack", "ack", "rst", "wrongmid", "dupack", "sepnon",
                             "non-request-same-mid", "non-response-same-mid-other-token"])
            k = r.randint(0, mr) if kind != "never" else 0
            gap_k = tmid * (2 ** k)
            dchoice = r.choice(["0", "1", "mid", "gap-1", "gap", "gap+1", "late"])
            if pin is None and dchoice in ("gap-1", "gap", "gap+1"):
                dchoice = "mid"
            delay = {"0": 0, "1": 1, "mid": int(gap_k / 2), "gap-1": int(round(gap_k)) - 1,
                     "gap": int(round(gap_k)), "gap+1": int(round(gap_k)) + 1,
                     "late": int(gap_k * 3)}[dchoice]
            plans[tok] = {"kind": kind, "k": k, "delay": delay, "seen": 0, "dchoice": dchoice}
            submit = r.choice([0, 0, 3, 50, int(tmid / 2), int(tmid) + 7])
            msgs.append((submit, sid, tok))

        def peer(sim, frm, to, data):
            typ, code, mid = hdr(data)
            if typ != 0:
                return
            try:
                tok = cw.decode(data, "udp")["token"]
            except Exception:
                return
            pl = plans.get(tok)
            if not pl:
                return
            kth = pl["seen"]
            pl["seen"] += 1
            if pl["kind"] == "never" or kth != pl["k"]:
                return
            d = pl["delay"]
            if pl["kind"] == "ack":
                sim.inject(to, frm, empty(2, mid), d)
            elif pl["kind"] == "rst":
                sim.inject(to, frm, empty(3, mid), d)
            elif pl["kind"] == "wrongmid":
                # message ids no message of this run uses
                sim.inject(to, frm, empty(2, mid ^ 0x8000), d)
                sim.inject(to, frm, empty(3, mid ^ 0x4000), d + 1)
            elif pl["kind"] == "sepnon":
                # the answer comes as a separate Non-confirmable response (own message id, the
                # request's token): it ends the exchange like an ACK would
                sim.inject(to, frm, cw.encode(cw.msg(0x45, type=1, mid=(mid ^ 0x2aaa) & 0xffff,
                                                     token=tok, payload=b"s"), "udp"), d)
            elif pl["kind"] == "non-request-same-mid":
                # a Non-confirmable REQUEST of the peer that happens to use the same message id
                # (ids are per sender): neither ACK nor RST nor a response - nothing ends
                sim.inject(to, frm, cw.encode(cw.msg(1, type=1, mid=mid, token=b"\x5a",
                                                     options=[(11, b"zz")]), "udp"), d)
            elif pl["kind"] == "non-response-same-mid-other-token":
                # a Non-confirmable response (to something else: its token is nobody's) whose
                # message id, drawn from the peer's own id space, equals the pending one
                sim.inject(to, frm, cw.encode(cw.msg(0x45, type=1, mid=mid, token=b"\x5b\x5b",
                                                     payload=b"x"), "udp"), d)
            elif pl["kind"] == "dupack":
                sim.inject(to, frm, empty(2, mid), d)
                sim.inject(to, frm, empty(2, mid), d + 10)
                sim.inject(to, frm, empty(3, mid), d + 20)

        for s in range(nsess):
            sim.peers[PEER % (s + 1)] = peer
        if nsess > 1 and r.random() < 0.3:
            # the application drops one of the sessions while messages are pending: the others,
            # which share the send queue with it, keep their schedule
            dsid = r.randrange(nsess)
            dropped.add(PEER % (dsid + 1))
            sim.call_at(sim.now + r.choice([1, 60, int(tmid / 2), int(tmid) + 3, int(tmid * 3)]),
                        lambda sm, dsid=dsid: sm.cmd("disconnect 0 %d" % dsid))
        for submit, sid, tok in msgs:
            sim.call_at(sim.now + submit, lambda sm, sid=sid, tok=tok: sm.cmd(
                "send 0 %d type=0 code=1 token=%s opts=11=61" % (sid, tok.hex())))
        total = hi * (2 ** (mr + 1)) + 20000
        late = max(pl["delay"] for pl in plans.values())
        sim.run(horizon=int(total + late) * (nmsg if nstart < 4 else 1) + 600000)
        sig = ("client", at, arf, mr, pin, nsess, nstart, failsend,
               tuple(sorted((pl["kind"], pl["k"], pl["dchoice"]) for pl in plans.values())),
               sim.timers_first)
        # (messages of the dropped session are not judged: what a disconnect does to them is
        # not part of this statement; `params_of` sees the sender address only, so the drop is
        # passed through the simulation object)
        sim.c06_dropped_peers = dropped
        return sim, w, (lambda a: p if a.startswith("10.0.0.") else None), sig
    except Exception:
        w.close(kill=True)
        raise


def scenario_server(exe, r, idx):
    """server node sending separate CON responses to raw clients"""
    at = r.choice([1000, 2000])
    arf = r.choice([1000, 1500])
    mr = r.choice([1, 4])
    pin = r.choice([0, 255, None])
    p = Params(at, arf, mr, pin)
    w = world.World(exe, seed=r.getrandbits(30))
    sim = world.Sim(w, latency=0)
    try:
        if pin is not None:
            sim.cmd("pin %d" % pin)
        sim.add_node(0, srv_ack_timeout_ms=at, srv_arf_milli=arf, srv_max_retransmit=mr)
        sim.cmd("ep 0 udp 10.0.0.1:5683")
        sim.cmd("res 0 %s sep=%d body=fixed:%s" % (b"s".hex(), r.choice([0, 30, 500]),
                                                   b"late".hex()))
        kind = r.choice(["never", "ack", "rst", "stranger-ack", "stranger-rst"])
        k = r.randint(0, mr)
        state = {"seen": 0}
        client = "10.0.8.1:40001"
        stranger = "10.0.8.2:40001"

        def peer(sim, frm, to, data):
            typ, code, mid = hdr(data)
            if typ != 0 or code == 0:
                return
            kth = state["seen"]
            state["seen"] += 1
            if kth != k or kind == "never":
                return
            if kind == "ack":
                sim.inject(to, frm, empty(2, mid), 3)
            elif kind == "rst":
                sim.inject(to, frm, empty(3, mid), 3)
            elif kind == "stranger-ack":
                sim.inject(stranger, frm, empty(2, mid), 3)
            elif kind == "stranger-rst":
                sim.inject(stranger, frm, empty(3, mid), 3)

        sim.peers[client] = peer
        sim.peers[stranger] = lambda *a: None
        sim.peers["10.0.8.3:40001"] = lambda *a: None
        req = cw.encode(cw.msg(1, type=0, mid=0x1111, token=b"\x77", options=[(11, b"s")]), "udp")
        sim.inject(client, "10.0.0.1:5683", req)
        mc = r.random() < 0.4
        if mc:
            # a multicast request arrives while the separate response is in flight: its answer
            # is delayed (leisure) and goes through the same send queue as the Confirmable
            sim.cmd("res 0 %s body=fixed:6d" % b"m".hex())
            for j in range(r.choice([1, 2])):
                # (from a third peer: a session's local address follows the last datagram, and
                # the virtual sockets would show the Confirmable's retransmission as coming
                # "from" the group address, which a real stack never does)
                sim.inject("10.0.8.3:40001", "224.0.1.187:5683", cw.encode(
                    cw.msg(1, type=1, mid=0x2200 + j, token=bytes([0x78, j]), options=[(11, b"m")]),
                    "udp"), r.choice([40, 600, 1200, 2600, 5000]))
        lo, hi = p.t_bounds()
        sim.run(horizon=int(hi * (2 ** (mr + 1))) + 700000)
        sig = ("server", at, arf, mr, pin, kind, k, mc)
        return sim, w, (lambda a: p if a == "10.0.0.1:5683" else None), sig
    except Exception:
        w.close(kill=True)
        raise


def scenario_drops(exe, subset, nfirst, seed):
    """client node <-> echoing server node, drop exactly `subset` of the first
    nfirst datagrams (wire order, both directions)"""
    p = Params(2000, 1500, 4, None)
    w = world.World(exe, seed=seed)
    sim = world.Sim(w, latency=5)
    try:
        sim.add_node(0)
        sim.add_node(1)
        sim.cmd("ep 1 udp 10.0.0.2:5683")
        sim.cmd("res 1 %s body=fixed:%s" % (b"e".hex(), b"pong".hex()))
        sim.cmd("sess 0 0 udp 10.0.0.2:5683")
        sim.fault = lambda sm, i, ev: [] if i in subset else None
        sim.cmd("send 0 0 type=0 code=1 token=c1 opts=11=65")
        sim.run(horizon=400000)
        sig = ("drops", nfirst, tuple(sorted(subset)))
        return sim, w, (lambda a: p), sig
    except Exception:
        w.close(kill=True)
        raise


def work(job):
    kind, arg, exe, seedtag = job
    run = common.Run("C06", "quick", "exploration")   # local collector
    stats = dict(con_messages=0, retransmissions=0, ended_by_ack=0, ended_by_rst=0, given_up=0)
    sigs = set()
    n = 0
    samples = []
    items = arg
    for it in items:
        r = common.rng("c06-%s-%s" % (seedtag, it))
        witness = {"scenario": kind, "item": it, "seed": common.seed()}
        sim = w = None
        try:
            if kind == "client":
                sim, w, pf, sig = scenario_client(exe, r, it)
            elif kind == "server":
                sim, w, pf, sig = scenario_server(exe, r, it)
            else:
                nfirst, mask = it
                subset = set(i for i in range(nfirst) if mask >> i & 1)
                sim, w, pf, sig = scenario_drops(exe, subset, nfirst, 1 + common.seed())
            witness["script"] = w.script[-400:]
            check_schedule(run, sim, pf, witness, stats)
            world.teardown_check(run, "C06", w, witness)
            sigs.add(sig)
            n += 1
            if len(samples) < 1:
                samples.append({"scenario": kind, "signature": repr(sig)[:300],
                                "wire_events": sum(1 for e in sim.log if e["e"] == "wire")})
        except world.WorldCrash as e:
            world.crash_violation(run, "C06", e, witness)
            n += 1
        except common.Inconclusive as e:
            stats["inconclusive"] = stats.get("inconclusive", 0) + 1
        finally:
            if w is not None and not w.closed:
                w.close(kill=True)
    return n, sigs, run.export(), stats, samples


def main(tier):
    run = common.Run("C06", tier, "exploration")
    run.rule = ("closed-world executions: (a) client -> raw peers with ACK/RST/never/wrong-mid/"
                "duplicate-answer plans at the k-th transmission and delays 0, 1, mid-gap, "
                "deadline-1/deadline/deadline+1, late; ACK_TIMEOUT (1 s .. 1000 s) x ACK_RANDOM_FACTOR x "
                "MAX_RETRANSMIT x jitter draw pinned 0/255/seeded; 1-3 sessions, up to 4 "
                "messages sharing one send queue, a third of the runs with NSTART 1-2 and up to "
                "6 messages (some wait for a slot), a quarter with one failed datagram write "
                "(ENOBUFS) which counts as a transmission made and lost; both tie-break orders; (b) server separate CON "
                "responses incl. answers from a stranger address; (c) every drop subset of the "
                "first N datagrams between two libcoap nodes; distinct_nontrivial = distinct "
                "scenario signatures (parameters, plan, drop set)")
    run.assumptions = ["harness/wraps.c virtual sockets and clock are the trusted base",
                       "Q6 fixed-point rounding of ACK_TIMEOUT/ACK_RANDOM_FACTOR is allowed for "
                       "in the bounds on T", "keep-alive (ping_timeout capping) is off"]
    exe = build.ensure_world("asan")
    if tier == "quick":
        ncli, nsrv, nfirst = 4000, 1000, 8
    else:
        ncli, nsrv, nfirst = 20000, 4000, 10
    jobs = []
    chunk = 10 if tier == "quick" else 50
    for i in range(0, ncli, chunk):
        jobs.append(("client", list(range(i, min(ncli, i + chunk))), exe, "cli"))
    for i in range(0, nsrv, chunk):
        jobs.append(("server", list(range(i, min(nsrv, i + chunk))), exe, "srv"))
    masks = list(range(1 << nfirst))
    for i in range(0, len(masks), chunk):
        jobs.append(("drops", [(nfirst, m) for m in masks[i:i + chunk]], exe, "drp"))
    stats = {}
    for n, sigs, vios, st, samples in common.parallel_map(work, jobs):
        run.evaluations += n
        run.nontrivial |= sigs
        for k, v in st.items():
            stats[k] = stats.get(k, 0) + v
        run.merge(vios)
        for s in samples:
            run.sample(s)
    run.extra.update(stats)
    run.extra["drop_subsets_enumerated"] = "all %d subsets of the first %d datagrams" % (
        1 << nfirst, nfirst)
    run.require("retransmissions", stats.get("retransmissions", 0), 500)
    run.require("given_up", stats.get("given_up", 0), 30)
    run.require("ended_by_ack", stats.get("ended_by_ack", 0), 50)
    run.require("ended_by_rst", stats.get("ended_by_rst", 0), 20)
    run.require("parked_then_sent", stats.get("parked_then_sent", 0), 50)
    run.require("failed_writes", stats.get("failed_writes", 0), 50)
    return run.finish()
