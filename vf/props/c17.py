"""C17 - persisted observe state survives a kill at any point and is restored.

One closed-world server process with coap_persist_startup() on a scratch
directory, raw Python peers as clients.  A history (create / delete dynamic
resources, register / cancel observations, notify) is played once to count the
stdio + rename calls the persistence code makes (ld --wrap, harness/persist.c),
then once per call ordinal k with the process dying right before call k.  After
each death an independent parser judges the three files against the envelope
[state before the interrupted step, state after it]; a fresh process restarts on
the surviving files and must restore resources and observations and continue the
Observe sequence above everything sent before the death.  A second level kills
the restarting process at each of its own persistence calls and restarts again."""
import os
import re
import shutil
import struct
import tempfile
from .. import build, common, world
from ..refs import coapwire as cw

EP = "10.0.0.1:5683"
STATIC = "s"
NPEERS = 3
NAMES = ["a", "b", "c/d"]


def peer_addr(i):
    return "10.0.7.%d:%d" % (i + 1, 42000 + i)


def path_opts(name):
    return [(11, seg.encode()) for seg in name.split("/")]


# -- model -------------------------------------------------------------------
class Model:
    def __init__(self):
        self.dyn = {}        # name -> creating datagram
        self.obs = {}        # (peer index, name) -> token hex
        self.cnt = set()     # names with a saved counter

    def copy(self):
        m = Model()
        m.dyn, m.obs, m.cnt = dict(self.dyn), dict(self.obs), set(self.cnt)
        return m

    def exists(self, name):
        return name == STATIC or name in self.dyn

    def after(self, step, pkt=None, tok=None):
        m = self.copy()
        k = step[0]
        if k == "create":
            if step[1] not in m.dyn:
                m.dyn[step[1]] = pkt
        elif k == "delete":
            if step[1] in m.dyn:
                del m.dyn[step[1]]
                for key in [key for key in m.obs if key[1] == step[1]]:
                    del m.obs[key]
                m.cnt.discard(step[1])
        elif k == "observe":
            if m.exists(step[2]):
                m.obs[(step[1], step[2])] = tok
                m.cnt.add(step[2])
        elif k == "cancel":
            m.obs.pop((step[1], step[2]), None)
        return m

    def obs_ids(self):
        return set((peer_addr(p), tok, name) for (p, name), tok in self.obs.items())


def gen_history(r):
    steps = []
    m = Model()
    n = r.choice([5, 8, 12, 16])
    while len(steps) < n:
        x = r.random()
        dyn = sorted(m.dyn)
        live = dyn + [STATIC]
        if x >= 0.95 and dyn:
            # the application registers an observable resource of its own through the API, at
            # a moment of its choosing (not from inside the unknown-resource handler)
            st = ("appres", "app%d" % sum(1 for s_ in steps if s_[0] == "appres"))
        elif x < 0.22 or (not dyn and x < 0.5):
            st = ("create", r.choice(NAMES))
        elif x < 0.32 and dyn:
            st = ("delete", r.choice(dyn), r.choice(["request", "request", "api"]))
        elif x < 0.6:
            st = ("observe", r.randrange(NPEERS), r.choice(live if r.random() < 0.9 else NAMES))
        elif x < 0.72 and m.obs:
            p, name = r.choice(sorted(m.obs))
            st = ("cancel", p, name, r.choice(["get1", "rst"]))
        else:
            st = ("notify", r.choice(live), r.choice([1, 1, 2, 3, 5, 11]))
        steps.append(st)
        m = m.after(st, b"", "00")
    return steps


CANON = [
    [("create", "a"), ("create", "b"), ("create", "c/d"), ("observe", 0, "a"), ("observe", 1, "b"),
     ("notify", "a", 3), ("notify", "b", 2)],
    [("observe", 0, STATIC), ("observe", 1, STATIC), ("notify", STATIC, 11), ("cancel", 0, STATIC, "get1"),
     ("notify", STATIC, 2)],
    [("create", "a"), ("observe", 0, "a"), ("observe", 1, "a"), ("observe", 2, "a"), ("notify", "a", 2),
     ("cancel", 1, "a", "rst"), ("notify", "a", 1), ("delete", "a", "request")],
    [("create", "a"), ("create", "b"), ("observe", 0, "b"), ("delete", "a", "api"), ("create", "a"),
     ("observe", 2, "a"), ("notify", "a", 5), ("notify", "b", 5)],
    # a resource with an observer goes away while later-registered observations stay
    [("create", "a"), ("create", "b"), ("observe", 0, "a"), ("observe", 1, "b"), ("observe", 2, STATIC),
     ("notify", "a", 1), ("delete", "a", "request"), ("notify", "b", 2), ("notify", STATIC, 1)],
    [("create", "c/d"), ("observe", 1, "c/d"), ("observe", 0, STATIC), ("observe", 0, "c/d"),
     ("create", "b"), ("observe", 2, "b"), ("delete", "c/d", "api"), ("notify", "b", 4),
     ("cancel", 2, "b", "rst"), ("observe", 1, "b")],
]


# -- the files, read independently ---------------------------------------------
class Torn(Exception):
    pass


def read_file(pdir, name):
    try:
        with open(os.path.join(pdir, name), "rb") as f:
            return f.read()
    except FileNotFoundError:
        return b""


def _take(data, pos, n, what):
    if pos + n > len(data):
        raise Torn("%s: record cut short at byte %d of %d (%s)" % (what, pos, len(data), what))
    return data[pos:pos + n], pos + n


def parse_dyn(data, lay):
    out, pos = [], 0
    while pos < len(data):
        b, pos = _take(data, pos, lay["sz_proto"], "proto")
        proto = int.from_bytes(b, "little")
        b, pos = _take(data, pos, 8, "name length")
        n = struct.unpack("<q", b)[0]
        if not 0 <= n <= 0x10000:
            raise Torn("name length %d" % n)
        name, pos = _take(data, pos, n, "name")
        b, pos = _take(data, pos, 8, "packet length")
        n = struct.unpack("<q", b)[0]
        if not 0 <= n <= 0x10000:
            raise Torn("packet length %d" % n)
        pkt, pos = _take(data, pos, n, "packet")
        out.append((proto, name.decode("latin1"), pkt))
    return out


def addr_str(b, lay):
    sa = b[lay["off_sa"]:]
    fam = int.from_bytes(sa[0:2], "little")
    if fam != 2:
        return "af%d" % fam
    return "%d.%d.%d.%d:%d" % (sa[4], sa[5], sa[6], sa[7], int.from_bytes(sa[2:4], "big"))


def parse_obs(data, lay):
    out, pos = [], 0
    while pos < len(data):
        _key, pos = _take(data, pos, lay["sz_key"], "key")
        b, pos = _take(data, pos, lay["sz_proto"], "proto")
        proto = int.from_bytes(b, "little")
        listen, pos = _take(data, pos, lay["sz_addr"], "listen address")
        tup, pos = _take(data, pos, lay["sz_tuple"], "address tuple")
        b, pos = _take(data, pos, 8, "packet length")
        n = struct.unpack("<q", b)[0]
        if not 0 <= n <= 0x10000:
            raise Torn("packet length %d" % n)
        pkt, pos = _take(data, pos, n, "packet")
        b, pos = _take(data, pos, 8, "oscore length")
        n = struct.unpack("<q", b)[0]
        osc = None
        if n != -1:
            if not 0 <= n <= 0x10000:
                raise Torn("oscore length %d" % n)
            osc, pos = _take(data, pos, n, "oscore info")
        try:
            m = cw.decode(pkt, "udp")
        except (cw.Reject, cw.Either) as e:
            raise Torn("stored request does not parse: %s" % e)
        path = "/".join(v.decode("latin1") for n_, v in m["options"] if n_ == 11)
        obsv = [v for n_, v in m["options"] if n_ == 6]
        if m["code"] not in (1, 5) or obsv != [b""]:
            raise Torn("stored request is not an observe registration")
        out.append({"proto": proto, "listen": addr_str(listen, lay),
                    "remote": addr_str(tup[:lay["off_local"]], lay),
                    "local": addr_str(tup[lay["off_local"]:], lay),
                    "tok": m["token"].hex(), "path": path, "oscore": osc})
    return out


CNT_LINE = re.compile(rb"([^ \n]+) (\d+)\n")


def parse_cnt(data):
    out, pos = {}, 0
    while pos < len(data):
        m = CNT_LINE.match(data, pos)
        if not m:
            raise Torn("counter file: malformed line at byte %d: %r" % (pos, data[pos:pos + 40]))
        name = m.group(1).decode("latin1")
        if name in out:
            raise Torn("counter file: %r listed twice" % name)
        out[name] = int(m.group(2))
        pos = m.end()
    return out


def judge_files(pdir, lay, B, A, where, cnt_floor, out):
    """B, A: model before / after the step in progress (B is A at a boundary).
    Appends (signature, text) to out; returns the parsed state."""
    parsed = {}
    for fname, parser in (("dyn", lambda d: parse_dyn(d, lay)), ("obs", lambda d: parse_obs(d, lay)),
                          ("cnt", parse_cnt)):
        data = read_file(pdir, fname)
        try:
            parsed[fname] = parser(data)
        except Torn as e:
            out.append(("torn-file/%s/%s" % (fname, where), "%s file: %s" % (fname, e)))
            parsed[fname] = None
    d = parsed["dyn"]
    if d is not None:
        names = [x[1] for x in d]
        must = set(B.dyn) & set(A.dyn)
        may = set(B.dyn) | set(A.dyn)
        if len(set(names)) != len(names):
            out.append(("duplicate-record/dyn/%s" % where, "dyn file lists %r" % names))
        for n in sorted(must - set(names)):
            out.append(("lost-record/dyn/%s" % where,
                        "dynamic resource %r (created, not deleted) is not in the file; file has %r"
                        % (n, names)))
        for n in sorted(set(names) - may):
            out.append(("stale-record/dyn/%s" % where,
                        "deleted resource %r is still in the file" % n))
        for proto, n, pkt in d:
            want = A.dyn.get(n) or B.dyn.get(n)
            if want is not None and (pkt != want or proto != 1):
                out.append(("wrong-record/dyn/%s" % where,
                            "record for %r holds proto %d packet %s, the creating request was %s"
                            % (n, proto, pkt.hex(), want.hex())))
    o = parsed["obs"]
    if o is not None:
        ids = [(x["remote"], x["tok"], x["path"]) for x in o]
        must = B.obs_ids() & A.obs_ids()
        may = B.obs_ids() | A.obs_ids()
        if len(set(ids)) != len(ids):
            out.append(("duplicate-record/obs/%s" % where, "obs file lists %r" % ids))
        for i in sorted(must - set(ids)):
            out.append(("lost-record/obs/%s" % where,
                        "active observation %r is not in the file; file has %r" % (i, ids)))
        for i in sorted(set(ids) - may):
            out.append(("stale-record/obs/%s" % where,
                        "cancelled observation %r is still in the file" % (i,)))
        for x in o:
            if x["listen"] != EP or x["local"] != EP or x["proto"] != 1:
                out.append(("wrong-record/obs/%s" % where, "record %r" % x))
    c = parsed["cnt"]
    if c is not None:
        # which resources have a saved counter is the library's business; a counter that was
        # in the file at the last step boundary and whose resource the step does not delete
        # must still be there
        must = B.cnt & A.cnt & set(cnt_floor)
        may = B.cnt | A.cnt
        for n in sorted(must - set(c)):
            out.append(("lost-record/cnt/%s" % where,
                        "counter of %r was in the file before this step and is gone; file has %r"
                        % (n, c)))
        for n in sorted(set(c) - may):
            out.append(("stale-record/cnt/%s" % where, "counter of deleted %r still in the file" % n))
        for n in must & set(c):
            if n in cnt_floor and c[n] < cnt_floor[n]:
                out.append(("counter-went-back/cnt/%s" % where,
                            "saved counter of %r fell from %d to %d" % (n, cnt_floor[n], c[n])))
    return parsed


# -- one server process -----------------------------------------------------------
class Killed(Exception):
    def __init__(self, ev):
        self.ev = ev


class Server:
    def __init__(self, exe, pdir, freq, killat=0, poplog=False):
        self.w = world.World(exe, seed=17, cmd_timeout=30)
        self.sim = world.Sim(self.w, latency=2)
        self.rx = []
        self.rst = set()
        self.mid = [0x1000 * (i + 1) for i in range(NPEERS)]
        self.tokc = 0
        self.pdir = pdir
        self.lay = None
        self.startup_pops = None
        sim = self.sim
        for i in range(NPEERS):
            sim.peers[peer_addr(i)] = self.on_dgram
        if poplog:
            self.cmd("poplog 1")
        if killat:
            self.cmd("popkill %d" % killat)
        sim.add_node(0)
        self.cmd("ep 0 udp %s" % EP)
        self.cmd("res 0 %s body=counter obs=1" % STATIC.encode().hex())
        self.cmd("res 0 - kind=unknown dyn=1")
        for ev in self.cmd("persist 0 %s freq=%d" % (pdir, freq)):
            if ev["e"] == "persist":
                self.lay = ev
                self.startup_pops = ev["pops"]
                if ev["r"] != 1:
                    raise common.Inconclusive("coap_persist_startup returned %r" % ev["r"])

    def cmd(self, line):
        try:
            return self.sim.cmd(line)
        except world.WorldCrash as e:
            self._killed(e)
            raise

    def _killed(self, e):
        if e.rc == 99:
            k = [ev for ev in e.events if ev.get("e") == "killed"]
            raise Killed(k[-1] if k else {})

    def run(self, ms=300):
        try:
            self.sim.run(until=self.sim.elapsed() + ms, quiesce=False)
        except world.WorldCrash as e:
            self._killed(e)
            raise

    def on_dgram(self, sim, frm, to, data):
        try:
            m = cw.decode(data, "udp")
        except (cw.Reject, cw.Either):
            return
        obs = [v for n, v in m["options"] if n == 6]
        rec = {"t": sim.now, "peer": to, "from": frm, "type": m["type"], "code": m["code"],
               "mid": m["mid"], "tok": m["token"].hex(),
               "obs": int.from_bytes(obs[0], "big") if obs else None}
        self.rx.append(rec)
        if (to, rec["tok"]) in self.rst and m["type"] in (0, 1) and m["code"]:
            self.rst.discard((to, rec["tok"]))
            sim.inject(to, frm, cw.encode(cw.msg(0, type=3, mid=m["mid"]), "udp"))
        elif m["type"] == 0:
            sim.inject(to, frm, cw.encode(cw.msg(0, type=2, mid=m["mid"]), "udp"))

    def request(self, p, code, name, token, options=()):
        self.mid[p] += 1
        pkt = cw.encode(cw.msg(code, type=0, mid=self.mid[p], token=token,
                               options=list(options) + path_opts(name)), "udp")
        return pkt

    def new_token(self, p):
        self.tokc += 1
        return bytes([0xA0 + p, self.tokc & 0xff, self.tokc >> 8])

    def reply_to(self, p, tok, mark):
        for rec in self.rx[mark:]:
            if rec["peer"] == peer_addr(p) and rec["tok"] == tok.hex() and rec["code"]:
                return rec
        return None

    def sent_observe_values(self):
        """Observe values the server put on the wire, per token"""
        out = {}
        for ev in self.sim.log:
            if ev["e"] == "wire" and ev["from"] == EP:
                try:
                    m = cw.decode(bytes.fromhex(ev["b"]), "udp")
                except (cw.Reject, cw.Either):
                    continue
                obs = [v for n, v in m["options"] if n == 6]
                if obs and 64 <= m["code"] < 96:
                    out.setdefault((ev["to"], m["token"].hex()), []).append(
                        int.from_bytes(obs[0], "big"))
        return out

    def kill(self):
        if not self.w.closed:
            self.w.close(kill=True)


def play(srv, steps, model, on_boundary):
    """Plays the history; keeps `model` (dict with 'B', 'A', 'step') current so that a
    Killed exception leaves the envelope of the interrupted step behind."""
    m = model["B"]
    tokens = model["tokens"]
    for idx, st in enumerate(steps):
        model["step"] = idx
        kind = st[0]
        mark = len(srv.rx)
        if kind == "create":
            tok = srv.new_token(0)
            pkt = srv.request(0, 3, st[1], tok)
            a = m.after(st, pkt=pkt)
            model["A"] = a
            srv.sim.inject(peer_addr(0), EP, pkt)
            srv.run()
            rep = srv.reply_to(0, tok, mark)
            if not rep or rep["code"] not in (65, 68):
                raise common.Inconclusive("PUT %s answered %r" % (st[1], rep))
        elif kind == "delete":
            a = m.after(st)
            model["A"] = a
            if st[1] in m.dyn:
                model["deleted"].append(st[1])
            if st[2] == "api":
                srv.cmd("delres 0 %s" % st[1].encode().hex())
                srv.run()
            else:
                tok = srv.new_token(0)
                srv.sim.inject(peer_addr(0), EP, srv.request(0, 4, st[1], tok))
                srv.run()
                rep = srv.reply_to(0, tok, mark)
                if not rep or rep["code"] != 66:
                    raise common.Inconclusive("DELETE %s answered %r" % (st[1], rep))
        elif kind == "observe":
            p, name = st[1], st[2]
            old = m.obs.get((p, name))
            tok = bytes.fromhex(old) if old else srv.new_token(p)
            a = m.after(st, tok=tok.hex())
            model["A"] = a
            tokens[(peer_addr(p), tok.hex())] = name
            srv.sim.inject(peer_addr(p), EP, srv.request(p, 1, name, tok, [(6, b"")]))
            srv.run()
            rep = srv.reply_to(p, tok, mark)
            if m.exists(name):
                if not rep or rep["code"] != 69 or rep["obs"] is None:
                    raise common.Inconclusive("GET+Observe %s answered %r" % (name, rep))
            elif rep and rep["obs"] is not None:
                raise common.Inconclusive("observe on a missing resource accepted")
        elif kind == "cancel":
            p, name, how = st[1], st[2], st[3]
            tokhex = m.obs.get((p, name))
            a = m.after(st)
            model["A"] = a
            if tokhex:
                if how == "get1":
                    srv.sim.inject(peer_addr(p), EP,
                                   srv.request(p, 1, name, bytes.fromhex(tokhex), [(6, b"\x01")]))
                    srv.run()
                else:
                    srv.rst.add((peer_addr(p), tokhex))
                    srv.cmd("notify 0 %s" % name)
                    srv.run()
                    if (peer_addr(p), tokhex) in srv.rst:
                        raise common.Inconclusive("no notification to reset for %r" % (st,))
        elif kind == "appres":
            a = m
            model["A"] = a
            srv.cmd("res 0 %s body=counter obs=1" % st[1].encode().hex())
            srv.run()
        elif kind == "notify":
            a = m
            model["A"] = a
            if m.exists(st[1]):
                for _ in range(st[2]):
                    srv.cmd("notify 0 %s" % st[1])
                    srv.run(100)
        m = a
        model["B"] = m
        model["A"] = m
        model["step"] = idx + 1
        on_boundary(idx, st)


def premax_of(srv, model):
    """highest Observe value sent per resource name (current incarnation only: values
    belonging to tokens whose observation the model still holds)"""
    vals = srv.sent_observe_values()
    best = {}
    live = model["B"].obs_ids() | model["A"].obs_ids()
    for (peer, tok), vs in vals.items():
        name = model["tokens"].get((peer, tok))
        if name is None or (peer, tok, name) not in live:
            continue
        best[name] = max(best.get(name, -1), max(vs))
    return best


def new_model():
    m = Model()
    return {"B": m, "A": m, "step": 0, "tokens": {}, "deleted": []}


def step_label(steps, model):
    i = model["step"]
    if model["B"] is model["A"] or i >= len(steps):
        return "at-rest"
    st = steps[i]
    return "during-%s%s" % (st[0], "-" + st[-1] if st[0] in ("delete", "cancel") else "")


# -- restart ------------------------------------------------------------------------
def restart_verify(exe, pdir, freq, B, A, premax, where, out, stats, killat=0):
    """Restart on pdir.  Returns 'killed' when killat hit during the restart, else 'ok'."""
    srv = None
    try:
        try:
            srv = Server(exe, pdir, freq, killat=killat)
        except Killed:
            return "killed", None
        if killat:
            srv.cmd("popkill 0")
        evs = srv.cmd("peekobs 0")
        res = set(bytes.fromhex(e["res"]).decode("latin1") for e in evs if e["e"] == "pres")
        subs = set((e["remote"], e["tok"], bytes.fromhex(e["res"]).decode("latin1"))
                   for e in evs if e["e"] == "psub")
        stats["restarts"] += 1
        must_r = (set(B.dyn) & set(A.dyn)) | {STATIC}
        may_r = set(B.dyn) | set(A.dyn) | {STATIC}
        for n in sorted(must_r - res):
            out.append(("restart/resource-not-restored/%s" % where,
                        "dynamic resource %r existed before the kill and does not exist after "
                        "restart; restored: %r" % (n, sorted(res))))
        for n in sorted(res - may_r):
            out.append(("restart/deleted-resource-back/%s" % where,
                        "resource %r had been deleted and exists again after restart" % n))
        must_o = set(i for i in (B.obs_ids() & A.obs_ids()))
        may_o = B.obs_ids() | A.obs_ids()
        for i in sorted(must_o - subs):
            out.append(("restart/observation-not-restored/%s" % where,
                        "observation %r was active before the kill and is not re-established; "
                        "re-established: %r" % (i, sorted(subs))))
        for i in sorted(subs - may_o):
            out.append(("restart/cancelled-observation-back/%s" % where,
                        "observation %r had been cancelled and is active after restart" % (i,)))
        # in a third of the restarts an observer refreshes its registration (same token) before
        # anything is notified: the Observe value of that reply is one "sent after restart" too
        import zlib
        cand = sorted(must_o & subs)
        if cand and zlib.crc32(("%s/%d/%r" % (where, killat, cand)).encode()) % 3 == 0:
            peer, tok, name = cand[zlib.crc32(where.encode()) % len(cand)]
            p = int(peer.split(":")[0].split(".")[3]) - 1
            mark = len(srv.rx)
            srv.sim.inject(peer, EP, srv.request(p, 1, name, bytes.fromhex(tok), [(6, b"")]))
            srv.run()
            rec = srv.reply_to(p, bytes.fromhex(tok), mark)
            pm = premax.get(name)
            if rec is not None and rec["obs"] is not None and rec["code"] == 0x45 and pm is not None:
                stats["refresh_values_compared"] = stats.get("refresh_values_compared", 0) + 1
                if not rec["obs"] > pm:
                    out.append(("restart/observe-value-not-greater/refresh-reply/%s" % where,
                                "the reply to a registration refresh after restart carries Observe "
                                "%d for %r; %d had been sent before the kill" %
                                (rec["obs"], (peer, tok, name), pm)))
        # the client keeps receiving notifications without re-registering
        first = {}
        for rnd in range(2):
            mark = len(srv.rx)
            for n in sorted(res):
                srv.cmd("notify 0 %s" % n)
            srv.run(400)
            got = {}
            for rec in srv.rx[mark:]:
                if rec["obs"] is not None and rec["from"] == EP:
                    got.setdefault((rec["peer"], rec["tok"]), []).append(rec["obs"])
            for (peer, tok, name) in sorted(must_o & subs):
                vs = got.get((peer, tok))
                if not vs:
                    out.append(("restart/no-notification/%s" % where,
                                "restored observation %r received nothing on notify round %d"
                                % ((peer, tok, name), rnd)))
                    continue
                stats["notifications_after_restart"] += 1
                if rnd == 0:
                    first[(peer, tok)] = vs[0]
                    pm = premax.get(name)
                    if pm is not None:
                        stats["observe_values_compared"] += 1
                        if not vs[0] > pm:
                            out.append(("restart/observe-value-not-greater/%s" % where,
                                        "first Observe value after restart for %r is %d; %d had "
                                        "been sent before the kill" % ((peer, tok, name), vs[0], pm)))
                elif (peer, tok) in first and not vs[0] > first[(peer, tok)]:
                    out.append(("restart/observe-value-not-increasing/%s" % where,
                                "%r: %d then %d" % ((peer, tok, name), first[(peer, tok)], vs[0])))
            # an observation whose cancellation or whose resource's deletion was interrupted
            # may or may not be back; when it is back and is notified, the value rule holds for
            # it as for any other ("greater than any sent before the crash")
            if rnd == 0:
                for (peer, tok, name) in sorted((may_o - must_o) & subs):
                    vs = got.get((peer, tok))
                    pm = premax.get(name)
                    if vs and pm is not None:
                        stats["observe_values_compared"] += 1
                        if not vs[0] > pm:
                            out.append(("restart/observe-value-not-greater/%s" % where,
                                        "first Observe value after restart for %r (its removal "
                                        "was interrupted) is %d; %d had been sent before the "
                                        "kill" % ((peer, tok, name), vs[0], pm)))
            for (peer, tok), vs in got.items():
                if not any(i[0] == peer and i[1] == tok for i in may_o):
                    out.append(("restart/notification-to-non-observer/%s" % where,
                                "%s token %s received Observe %r after restart" % (peer, tok, vs)))
        srv.cmd("persist_stop 0")
        evs, rc, err = srv.w.close()
        if rc not in (0, None):
            s = common.sanitizer_signature(err) or ("exit-rc%s" % rc)
            out.append(("restart/teardown/%s" % s, err[-1500:]))
        return "ok", srv.startup_pops
    except Killed:
        return "killed", None
    except world.WorldCrash as e:
        s = "hang" if e.hang else (common.sanitizer_signature(e.stderr) or "abort-rc%s" % e.rc)
        out.append(("restart/crash/%s" % s, (e.stderr or "")[-1500:]))
        return "crash", None
    finally:
        if srv:
            srv.kill()


# -- jobs -------------------------------------------------------------------------
def count_run(job):
    """plays the history without a kill; returns per-op list and boundary findings"""
    exe, hid, steps, freq = job
    run = common.Run("C17", "quick", "fault_enumeration")
    pdir = tempfile.mkdtemp(prefix="vf-c17-")
    out = []
    ops = []
    stats = dict(restarts=0, notifications_after_restart=0, observe_values_compared=0)
    srv = None
    try:
        srv = Server(exe, pdir, freq, poplog=True)
        lay = dict((k, srv.lay[k]) for k in ("sz_key", "sz_proto", "sz_addr", "sz_tuple", "off_local",
                                             "off_sa"))
        model = new_model()
        floor = {}

        def boundary(idx, st):
            where = "at-rest-after-%s" % st[0]
            parsed = judge_files(pdir, lay, model["B"], model["B"], where, floor, out)
            if parsed["cnt"]:
                floor.update(parsed["cnt"])
            for n in model["deleted"]:
                floor.pop(n, None)
            del model["deleted"][:]
        play(srv, steps, model, boundary)
        for ev in srv.sim.log:
            if ev["e"] == "pop":
                ops.append((ev["k"], ev["op"], ev["file"]))
        premax = premax_of(srv, model)
        srv.kill()
        restart_verify(exe, pdir, freq, model["B"], model["B"], premax, "after-clean-stop", out, stats)
    except world.WorldCrash as e:
        s = "hang" if e.hang else (common.sanitizer_signature(e.stderr) or "abort-rc%s" % e.rc)
        out.append(("crash/%s" % s, (e.stderr or "")[-1500:]))
    finally:
        if srv:
            srv.kill()
        shutil.rmtree(pdir, ignore_errors=True)
    wit = {"history": steps, "save_freq": freq, "kill": None}
    for sig, text in out:
        run.violation(sig, wit, text)
    return hid, ops, (lay if ops else None), stats, run.export()


def kill_run(job):
    exe, hid, steps, freq, lay, ks, second = job
    run = common.Run("C17", "quick", "fault_enumeration")
    stats = dict(kills=0, restarts=0, notifications_after_restart=0, observe_values_compared=0,
                 second_level_kills=0, mid_step_kills=0)
    seen = set()
    for k in ks:
        pdir = tempfile.mkdtemp(prefix="vf-c17-")
        out = []
        srv = None
        wit = {"history": steps, "save_freq": freq, "kill": k}
        try:
            model = new_model()
            floor = {}

            def boundary(idx, st):
                data = read_file(pdir, "cnt")
                try:
                    floor.update(parse_cnt(data))
                except Torn:
                    pass
                for n in model["deleted"]:
                    floor.pop(n, None)
                del model["deleted"][:]
            killed = None
            try:
                srv = Server(exe, pdir, freq, killat=k)
                play(srv, steps, model, boundary)
            except Killed as kd:
                killed = kd.ev
            if killed is None:
                raise common.Inconclusive("kill point %d of history %s was not reached" % (k, hid))
            stats["kills"] += 1
            where = step_label(steps, model)
            if where != "at-rest":
                stats["mid_step_kills"] += 1
            wit["killed_before"] = killed
            wit["step"] = model["step"]
            seen.add((where, killed.get("op"), killed.get("file")))
            premax = premax_of(srv, model) if srv else {}
            if srv:
                srv.kill()
            B, A = model["B"], model["A"]
            judge_files(pdir, lay, B, A, where, floor, out)
            if second:
                # kill the restarting process at each of its own persistence calls
                probe = tempfile.mkdtemp(prefix="vf-c17-")
                try:
                    shutil.rmtree(probe)
                    shutil.copytree(pdir, probe)
                    st2 = dict(restarts=0, notifications_after_restart=0, observe_values_compared=0)
                    _, n2 = restart_verify(exe, probe, freq, B, A, {}, where, [], st2)
                finally:
                    shutil.rmtree(probe, ignore_errors=True)
                for k2 in range(1, (n2 or 0) + 1):
                    d2 = tempfile.mkdtemp(prefix="vf-c17-")
                    try:
                        shutil.rmtree(d2)
                        shutil.copytree(pdir, d2)
                        r, _ = restart_verify(exe, d2, freq, B, A, premax, where + "+restart-killed",
                                              out, stats, killat=k2)
                        if r == "killed":
                            stats["second_level_kills"] += 1
                            judge_files(d2, lay, B, A, where + "+restart-killed", floor, out)
                            restart_verify(exe, d2, freq, B, A, premax, where + "+restart-killed",
                                           out, stats)
                    finally:
                        shutil.rmtree(d2, ignore_errors=True)
            restart_verify(exe, pdir, freq, B, A, premax, where, out, stats)
        except world.WorldCrash as e:
            s = "hang" if e.hang else (common.sanitizer_signature(e.stderr) or "abort-rc%s" % e.rc)
            out.append(("crash/%s" % s, (e.stderr or "")[-1500:]))
        finally:
            if srv:
                srv.kill()
            shutil.rmtree(pdir, ignore_errors=True)
        done = set()
        for sig, text in out:
            if sig not in done:
                done.add(sig)
                run.violation(sig, wit, text)
    return stats, seen, run.export()


def main(tier):
    run = common.Run("C17", tier, "fault_enumeration")
    run.rule = ("histories of PUT-created / DELETEd dynamic resources, observe registrations and "
                "cancellations (GET Observe=1, RST) by 3 raw peers and notifications on one server "
                "context with coap_persist_startup(dyn, obs, cnt, save_freq); every fopen/fclose/"
                "fread/fgets/fwrite/fprintf/fflush/rename/remove the persistence code makes on those "
                "files is a kill point (ld --wrap; _exit without flushing).  Oracles: (1) at every "
                "step boundary the three files, parsed independently, equal the model exactly; (2) "
                "after a kill each file is a sequence of complete records holding every record "
                "untouched by the interrupted step and nothing that was removed before; (3) a fresh "
                "process on the surviving files lists every surviving resource and observation, "
                "notifies each restored observer without re-registration, first Observe value > "
                "every value on the wire before the kill, second > first; (4) same again with the "
                "restarting process killed at each of its own persistence calls")
    run.assumptions = ["kill = process death (kernel keeps completed writes); power loss / fsync "
                       "ordering is not modelled",
                       "dynamic resources are observable (libcoap persists only those)",
                       "UDP observers only (the library persists only UDP observations)"]
    exe = build.ensure_world("asan")
    r = common.rng("c17")
    hist = []
    freqs = [1, 2, 3, 10]
    for i, steps in enumerate(CANON):
        hist.append(("canon%d" % i, steps, freqs[i % 4]))
        if tier == "thorough":
            for f in (4, 7):
                hist.append(("canon%d-f%d" % (i, f), steps, f))
    nrand = 6 if tier == "quick" else 60
    for i in range(nrand):
        hist.append(("rand%d" % i, gen_history(r), r.choice([1, 2, 3, 4, 5, 7, 10])))
    jobs = [(exe, hid, steps, f) for hid, steps, f in hist]
    counted = {}
    for hid, ops, lay, st, vios in common.parallel_map(count_run, jobs):
        run.merge(vios)
        counted[hid] = (ops, lay)
        run.count("clean_restarts", st["restarts"])
    kjobs = []
    total_ops = 0
    for hid, steps, f in hist:
        ops, lay = counted[hid]
        if not ops:
            continue
        total_ops += len(ops)
        ks = [k for k, op, _ in ops]
        if tier == "quick":
            # a kill before a read leaves the same disk state as the kill after the previous
            # call; quick keeps one read in four
            ks = [k for k, op, _ in ops if op not in ("fread", "fgets") or k % 4 == 0]
        ks.append(len(ops) + 1000000)  # never reached: filtered below
        ks = ks[:-1]
        for i in range(0, len(ks), 10):
            chunk = ks[i:i + 10]
            second = (tier == "thorough" and (i // 10) % 4 == 0) or (tier == "quick" and hid == "canon0"
                                                                      and (i // 10) % 6 == 0)
            kjobs.append((exe, hid, steps, f, lay, chunk, second))
    tot = {}
    seen = set()
    for st, sn, vios in common.parallel_map(kill_run, kjobs):
        for k, v in st.items():
            tot[k] = tot.get(k, 0) + v
        seen |= sn
        run.merge(vios)
    run.evaluations = tot.get("kills", 0) + tot.get("second_level_kills", 0)
    run.extra.update(tot)
    run.extra["histories"] = len(hist)
    run.extra["persistence_calls_counted"] = total_ops
    run.nontrivial |= seen
    run.sample({"history": hist[0][1], "save_freq": hist[0][2],
                "kill": "before persistence call k for every k"})
    run.require("kills", tot.get("kills", 0), 300)
    run.require("mid_step_kills", tot.get("mid_step_kills", 0), 200)
    run.require("notifications_after_restart", tot.get("notifications_after_restart", 0), 200)
    run.require("observe_values_compared", tot.get("observe_values_compared", 0), 100)
    return run.finish()
