"""C01 - wire codec round trip for every API-built message on every transport.
Generated build programs run through the real builder API (ASan+UBSan, exact
size inputs); after every call the accessor dump is compared with a list model,
and the serialisation is compared with an independent encoder/decoder and with
libcoap's own re-parse."""
import itertools

from .. import build, common, gen, pduprog
from ..refs import coapwire as cw

PROTOS = ["udp", "dtls", "tcp", "tls", "ws", "wss"]


def cls(v):
    return 0 if v == 0 else 1 if v < 13 else 2 if v < 269 else 3


def needed_size(m):
    order = m["insert_order"]
    opts = list(m["options"])
    if 0 < m["code"] < 32 and any(n in (35, 39) for n, _ in opts) and not any(n == 16 for n, _ in opts):
        opts = cw.sort_options(opts + [(16, b"\x10")])
    tkl, tokb = cw.encode_token(m["token"])
    n = len(tokb) + len(cw.encode_options(opts))
    if m["payload"]:
        n += 1 + len(m["payload"])
    return n


def build_program(r, m, proto, sizeclass):
    need = needed_size(m)
    if sizeclass == "unbounded":
        size = 0
    elif sizeclass == "exact":
        size = need
    elif sizeclass == "tight":
        size = max(1, need - r.choice([1, 1, 2, 3, 7, 20]))
    else:
        size = need + r.choice([1, 2, 16, 300, 5000])
    steps = [("init", m["type"], m["code"], m["mid"], size)]
    if m["token"] or r.random() < 0.3:
        steps.append(("tok", m["token"]))
    order = list(m["insert_order"])
    x = r.random()
    if x < 0.5:
        r.shuffle(order)
    elif x < 0.6:
        order.sort(key=lambda o: -o[0])
    i = 0
    while i < len(order):
        if r.random() < 0.15 and len(order) - i >= 2:
            k = r.randint(2, min(5, len(order) - i))
            steps.append(("olist", order[i:i + k]))
            i += k
        else:
            steps.append(("opt", order[i][0], order[i][1]))
            i += 1
    if r.random() < 0.08 and m["token"] == b"":
        steps.append(("tok", b"\x01\x02"))          # late token: must be refused, harmless
    if m["payload"]:
        steps.append(("data" if r.random() < 0.7 else "dafter", m["payload"]))
        if r.random() < 0.1:
            steps.append(("opt", r.choice([11, 15, 2049]), b"x"))    # after payload: refused
        if r.random() < 0.05:
            steps.append(("data", b"zz"))                             # second payload: refused
    elif r.random() < 0.2:
        steps.append(("data", b""))
    nums = [n for n, _ in m["options"]]
    deltas = [b - a for a, b in zip([0] + nums, nums)]
    sig = (proto, cls(len(m["token"])) if len(m["token"]) > 8 else len(m["token"]) > 0,
           tuple(sorted(set(cls(d) for d in deltas))),
           tuple(sorted(set(cls(len(v)) for _, v in m["options"]))),
           cls(len(m["payload"])), sizeclass, len(nums) != len(set(nums)))
    return {"steps": steps, "final": [proto], "sig": sig}


def random_programs(r, n):
    out = []
    for _ in range(n):
        proto = r.choice(PROTOS)
        m = gen.gen_message(r, proto, allow_huge=r.random() < 0.15, legal_repeat=r.random() < 0.8)
        # type/mid are API inputs on every transport
        m["type"] = r.randint(0, 3)
        m["mid"] = r.getrandbits(16)
        if m["code"] == 0:
            m["token"], m["options"], m["insert_order"], m["payload"] = b"", [], [], b""
        sc = r.choice(["unbounded", "unbounded", "roomy", "exact", "tight"])
        out.append(build_program(r, m, proto, sc))
    return out


DELTAS_Q = [0, 12, 13, 268, 269]
LENS_Q = [0, 12, 13, 269]
DELTAS_T = [0, 1, 12, 13, 14, 268, 269, 270, 5000]
LENS_T = [0, 1, 12, 13, 268, 269, 270]


def triple_programs(tier, shard, nshards):
    deltas, lens = (DELTAS_Q, LENS_Q) if tier == "quick" else (DELTAS_T, LENS_T)
    out = []
    combos = itertools.product(deltas, deltas, deltas, lens, lens, lens)
    r = common.rng("c01-triples")
    for idx, (d1, d2, d3, l1, l2, l3) in enumerate(combos):
        if idx % nshards != shard:
            continue
        n1 = 3000 + d1
        n2 = n1 + d2
        n3 = n2 + d3
        opts = [(n1, bytes([1]) * l1), (n2, bytes([2]) * l2), (n3, bytes([3]) * l3)]
        perms = list(itertools.permutations(range(3)))
        use = perms if tier != "quick" else [perms[idx % 6]]
        for pm_ in use:
            proto = PROTOS[(idx + pm_[0]) % len(PROTOS)]
            steps = [("init", 0, 1, 0x1234, 0), ("tok", b"\xaa")]
            for k in pm_:
                steps.append(("opt", opts[k][0], opts[k][1]))
            steps.append(("data", b"p"))
            sig = ("triple", d1, d2, d3, l1, l2, l3, pm_ if tier != "quick" else 0)
            out.append({"steps": steps, "final": [proto], "sig": sig})
    return out


def work(job):
    kind, arg, exe = job
    if kind == "random":
        progs = random_programs(common.rng("c01-%d" % arg[0]), arg[1])
    else:
        progs = triple_programs(arg[0], arg[1], arg[2])
    vios, crashes, agg = pduprog.run_programs(exe, progs)
    sigs = set(p["sig"] for p in progs)
    sample = {"program": pduprog.program_line(progs[0])[:300]} if progs else None
    return len(progs), sigs, vios, crashes, agg, sample


# ------------------------------------------------------------------ WebSocket frames
# The pure engine judges the CoAP bytes inside a frame (RFC 8323 s4: Len nibble 0); the
# RFC 6455 frame around them is written by the session layer, so that part runs in the closed
# world: a WebSocket client session sends messages whose serialised sizes sweep the 7-bit /
# 16-bit / 64-bit payload-length forms, and everything the client writes after the upgrade
# request must parse as whole masked binary frames whose payloads decode to those messages.

def ws_frames(job):
    from .. import world
    from . import c05
    idx, sizes, exe = job
    run = common.Run("C01", "quick", "exploration")
    r = common.rng("c01-ws-%d" % idx)
    stats = {"ws_frames": 0, "ws_sizes": 0}
    sigs = set()
    w = world.World(exe, seed=r.getrandbits(30), cmd_timeout=60)
    wit = {"kind": "ws-frames", "sizes": sizes[:40], "script": w.script}
    try:
        w.cmd("node 0")
        w.cmd("ctx 0 max_token=64 csm_max=200000")
        log = list(w.cmd("sess 0 0 ws %s" % c05.WS_CLIENT_PEER))
        conn = [e["conn"] for e in log if e["e"] == "tcp_connect"]
        reqb = b"".join(bytes.fromhex(e["b"]) for e in log if e["e"] == "swrite")
        if not conn or not reqb:
            raise common.Inconclusive("no WebSocket client session")
        csm = cw.msg(0xE1, options=[(2, (200000).to_bytes(3, "big"))])
        key = b""
        for line in reqb.split(b"\r\n"):
            if line.lower().startswith(b"sec-websocket-key:"):
                key = line.split(b":", 1)[1].strip()
        import base64
        import hashlib
        acc = base64.b64encode(hashlib.sha1(key + c05.WS_GUID).digest())
        hello = (b"HTTP/1.1 101 Switching Protocols\r\nUpgrade: websocket\r\nConnection: "
                 b"Upgrade\r\nSec-WebSocket-Accept: " + acc +
                 b"\r\nSec-WebSocket-Protocol: coap\r\n\r\n" + cw.ws_frame(cw.encode(csm, "ws")))
        log = w.cmd("stream %d 1 %s" % (conn[0], hello.hex()))
        written = b"".join(bytes.fromhex(e["b"]) for e in log if e["e"] == "swrite")
        sent = []
        for k, size in enumerate(sizes):
            tok = bytes([0xC0 | (k >> 8) & 0x3f, k & 0xff])
            code = r.choice([2, 3, 1, 5])
            base = 2 + len(tok) + 2 + 1          # header, token, Uri-Path "r", marker
            pl = bytes(r.getrandbits(8) for _ in range(min(size - base, 64)))
            pl = pl + bytes(size - base - len(pl))
            m = cw.msg(code, token=tok, options=[(11, b"r")], payload=pl)
            evs = w.cmd("send 0 0 type=0 code=%d token=%s opts=11=72 payload=%s" %
                        (code, tok.hex(), pl.hex()))
            written += b"".join(bytes.fromhex(e["b"]) for e in evs if e["e"] == "swrite")
            if any(e["e"] == "sent" and e.get("mid", 0) >= 0 for e in evs) or True:
                sent.append(m)
        frames, rest = cw.ws_parse_frames(written)
        data = [f for f in frames if f[1] == 2]
        stats["ws_frames"] += len(data)
        # the client's own CSM comes first
        got = []
        for fin, op, pl in data:
            try:
                got.append(cw.decode(pl, "ws"))
            except Exception as e:        # noqa: BLE001 - any reference-decoder refusal
                got.append(None)
        got = [g for g in got if g is None or g["code"] != 0xE1]
        bad = None
        if rest:
            bad = "bytes that are no whole frame remain at the end (%d)" % len(rest)
        elif any(not fin or op not in (2, 8, 9, 10) for fin, op, _ in frames):
            bad = "a frame with FIN=0 or an opcode that is not binary/close/ping/pong"
        elif len(got) != len(sent):
            bad = "%d messages sent, %d binary frames with a message written" % (len(sent), len(got))
        else:
            for m, g in zip(sent, got):
                if g is None or (g["code"], g["token"], g["options"], g["payload"]) != \
                        (m["code"], m["token"], m["options"], m["payload"]):
                    bad = "the frame for the %d-byte message does not decode to it" % \
                        len(cw.encode(m, "ws"))
                    break
        if bad:
            n = len(cw.encode(sent[min(len(got), len(sent)) - 1], "ws")) if sent else 0
            run.violation("ws-frame-malformed/%s" % ("len-7bit" if n < 126 else "len-16bit"
                                                      if n < 65536 else "len-64bit"), wit, bad)
        for m in sent:
            n = len(cw.encode(m, "ws"))
            sigs.add(("ws-frame", 0 if n < 126 else 1 if n < 65536 else 2, n if n < 140 else
                      n // 4096))
        stats["ws_sizes"] += len(sent)
        evs, rc, err = w.close()
        if rc not in (0, None):
            sg = common.sanitizer_signature(err) or "exit-rc%s" % rc
            run.violation("ws-frames/teardown/%s" % sg, dict(wit, stderr=err[-3000:]), err[-1500:])
    except world.WorldCrash as e:
        world.crash_violation(run, "ws-frames", e, wit)
    finally:
        if not w.closed:
            w.close(kill=True)
    return stats, sigs, run.export()


def main(tier):
    run = common.Run("C01", tier, "exploration")
    run.rule = ("build programs coap_pdu_init -> coap_add_token -> shuffled coap_add_option / "
                "coap_add_optlist_pdu -> coap_add_data(_after), plus exhaustive (delta class x "
                "length class x insertion order) triples; after every call the accessor dump "
                "must equal the list model (advanced only on reported success), the bytes must "
                "equal the reference encoder's and re-parse (reference decoder and "
                "coap_pdu_parse) to the model; distinct_nontrivial = distinct (transport, token "
                "class, delta classes, length classes, payload class, max-size class, "
                "repetition) signatures")
    run.assumptions = ["vf/refs/coapwire.py and vf/pdumodel.py are the trusted model",
                       "refusals are not predicted (the property constrains what a refusal may "
                       "do, not when the API refuses)"]
    exe = build.ensure_harness("asan", "pure", ["pure.c", "pure_uri.c", "pure_wk.c"])
    nrand, per = (24000, 1500) if tier == "quick" else (1200000, 10000)
    jobs = [("random", (i, per), exe) for i in range(nrand // per)]
    nsh = 8 if tier == "quick" else 64
    jobs += [("triples", (tier, s, nsh), exe) for s in range(nsh)]
    agg = {}
    for n, sigs, vios, crashes, a, sample in common.parallel_map(work, jobs):
        run.evaluations += n
        run.nontrivial |= sigs
        for k, v in a.items():
            agg[k] = agg.get(k, 0) + v
        for rule, w, text in vios:
            run.violation(rule, w, text)
        for sig, w in crashes:
            run.violation("sanitizer/" + sig, w, w.get("stderr", "")[-1200:])
        if sample:
            run.sample(sample)
    # RFC 6455 frames around the messages (closed world, WebSocket client session)
    wexe = build.ensure_world("asan")
    edge = list(range(100, 140)) + [65520 + i for i in range(0, 32)]
    wjobs = []
    rr = common.rng("c01-ws-sizes")
    for i in range(4 if tier == "quick" else 32):
        sizes = edge[i % 2::2] if i < 2 else \
            sorted(rr.sample(range(8, 1400), 30) + rr.sample(range(1400, 70000), 6) +
                   [rr.choice([125, 126, 127, 128, 65535, 65536, 65537])])
        wjobs.append((i, sizes, wexe))
    wtot = {}
    for st, sg, vios in common.parallel_map(ws_frames, wjobs):
        for k, v in st.items():
            wtot[k] = wtot.get(k, 0) + v
        run.nontrivial |= sg
        run.merge(vios)
    run.evaluations += wtot.get("ws_sizes", 0)
    run.extra.update(wtot)
    run.require("ws_frames_parsed", wtot.get("ws_frames", 0), 100)
    run.extra["api_calls_judged"] = agg.get("steps", 0)
    run.extra["calls_accepted"] = agg.get("accepted", 0)
    run.extra["calls_refused"] = agg.get("refused", 0)
    run.extra["option_adds"] = agg.get("adds", 0)
    run.extra["option_adds_accepted"] = agg.get("adds_ok", 0)
    run.extra["exhaustive_part"] = "all (delta class x length class) triples for 3 options" + \
        (" x all 6 insertion orders" if tier != "quick" else " (one insertion order each)")
    run.require("option_adds_accepted_at_least_half", agg.get("adds_ok", 0) * 2,
                agg.get("adds", 0))
    run.require("refused_calls_seen", agg.get("refused", 0), 50)
    return run.finish()
