"""C01 - wire codec round trip for every API-built message on every transport.
Generated build programs run through the real builder API (ASan+UBSan, exact
size inputs); after every call the accessor dump is compared with a list model,
and the serialisation is compared with an independent encoder/decoder and with
libcoap's own re-parse."""
import itertools

from .. import build, common, gen, pduprog
from ..refs import coapwire as cw

PROTOS = ["udp", "dtls", "tcp", "tls", "ws", "wss"]


def cls(v):
    return 0 if v == 0 else 1 if v < 13 else 2 if v < 269 else 3


def needed_size(m):
    order = m["insert_order"]
    opts = list(m["options"])
    if 0 < m["code"] < 32 and any(n in (35, 39) for n, _ in opts) and not any(n == 16 for n, _ in opts):
        opts = cw.sort_options(opts + [(16, b"\x10")])
    tkl, tokb = cw.encode_token(m["token"])
    n = len(tokb) + len(cw.encode_options(opts))
    if m["payload"]:
        n += 1 + len(m["payload"])
    return n


def build_program(r, m, proto, sizeclass):
    need = needed_size(m)
    if sizeclass == "unbounded":
        size = 0
    elif sizeclass == "exact":
        size = need
    elif sizeclass == "tight":
        size = max(1, need - r.choice([1, 1, 2, 3, 7, 20]))
    else:
        size = need + r.choice([1, 2, 16, 300, 5000])
    steps = [("init", m["type"], m["code"], m["mid"], size)]
    if m["token"] or r.random() < 0.3:
        steps.append(("tok", m["token"]))
    order = list(m["insert_order"])
    x = r.random()
    if x < 0.5:
        r.shuffle(order)
    elif x < 0.6:
        order.sort(key=lambda o: -o[0])
    i = 0
    while i < len(order):
        if r.random() < 0.15 and len(order) - i >= 2:
            k = r.randint(2, min(5, len(order) - i))
            steps.append(("olist", order[i:i + k]))
            i += k
        else:
            steps.append(("opt", order[i][0], order[i][1]))
            i += 1
    if r.random() < 0.08 and m["token"] == b"":
        steps.append(("tok", b"\x01\x02"))          # late token: must be refused, harmless
    if m["payload"]:
        steps.append(("data" if r.random() < 0.7 else "dafter", m["payload"]))
        if r.random() < 0.1:
            steps.append(("opt", r.choice([11, 15, 2049]), b"x"))    # after payload: refused
        if r.random() < 0.05:
            steps.append(("data", b"zz"))                             # second payload: refused
    elif r.random() < 0.2:
        steps.append(("data", b""))
    nums = [n for n, _ in m["options"]]
    deltas = [b - a for a, b in zip([0] + nums, nums)]
    sig = (proto, cls(len(m["token"])) if len(m["token"]) > 8 else len(m["token"]) > 0,
           tuple(sorted(set(cls(d) for d in deltas))),
           tuple(sorted(set(cls(len(v)) for _, v in m["options"]))),
           cls(len(m["payload"])), sizeclass, len(nums) != len(set(nums)))
    return {"steps": steps, "final": [proto], "sig": sig}


def random_programs(r, n):
    out = []
    for _ in range(n):
        proto = r.choice(PROTOS)
        m = gen.gen_message(r, proto, allow_huge=r.random() < 0.15, legal_repeat=r.random() < 0.8)
        # type/mid are API inputs on every transport
        m["type"] = r.randint(0, 3)
        m["mid"] = r.getrandbits(16)
        if m["code"] == 0:
            m["token"], m["options"], m["insert_order"], m["payload"] = b"", [], [], b""
        sc = r.choice(["unbounded", "unbounded", "roomy", "exact", "tight"])
        out.append(build_program(r, m, proto, sc))
    return out


DELTAS_Q = [0, 12, 13, 268, 269]
LENS_Q = [0, 12, 13, 269]
DELTAS_T = [0, 1, 12, 13, 14, 268, 269, 270, 5000]
LENS_T = [0, 1, 12, 13, 268, 269, 270]


def triple_programs(tier, shard, nshards):
    deltas, lens = (DELTAS_Q, LENS_Q) if tier == "quick" else (DELTAS_T, LENS_T)
    out = []
    combos = itertools.product(deltas, deltas, deltas, lens, lens, lens)
    r = common.rng("c01-triples")
    for idx, (d1, d2, d3, l1, l2, l3) in enumerate(combos):
        if idx % nshards != shard:
            continue
        n1 = 3000 + d1
        n2 = n1 + d2
        n3 = n2 + d3
        opts = [(n1, bytes([1]) * l1), (n2, bytes([2]) * l2), (n3, bytes([3]) * l3)]
        perms = list(itertools.permutations(range(3)))
        use = perms if tier != "quick" else [perms[idx % 6]]
        for pm_ in use:
            proto = PROTOS[(idx + pm_[0]) % len(PROTOS)]
            steps = [("init", 0, 1, 0x1234, 0), ("tok", b"\xaa")]
            for k in pm_:
                steps.append(("opt", opts[k][0], opts[k][1]))
            steps.append(("data", b"p"))
            sig = ("triple", d1, d2, d3, l1, l2, l3, pm_ if tier != "quick" else 0)
            out.append({"steps": steps, "final": [proto], "sig": sig})
    return out


def work(job):
    kind, arg, exe = job
    if kind == "random":
        progs = random_programs(common.rng("c01-%d" % arg[0]), arg[1])
    else:
        progs = triple_programs(arg[0], arg[1], arg[2])
    vios, crashes, agg = pduprog.run_programs(exe, progs)
    sigs = set(p["sig"] for p in progs)
    sample = {"program": pduprog.program_line(progs[0])[:300]} if progs else None
    return len(progs), sigs, vios, crashes, agg, sample


def main(tier):
    run = common.Run("C01", tier, "exploration")
    run.rule = ("build programs coap_pdu_init -> coap_add_token -> shuffled coap_add_option / "
                "coap_add_optlist_pdu -> coap_add_data(_after), plus exhaustive (delta class x "
                "length class x insertion order) triples; after every call the accessor dump "
                "must equal the list model (advanced only on reported success), the bytes must "
                "equal the reference encoder's and re-parse (reference decoder and "
                "coap_pdu_parse) to the model; distinct_nontrivial = distinct (transport, token "
                "class, delta classes, length classes, payload class, max-size class, "
                "repetition) signatures")
    run.assumptions = ["vf/refs/coapwire.py and vf/pdumodel.py are the trusted model",
                       "a refused Proxy-Uri/Proxy-Scheme add may leave the implicit Hop-Limit",
                       "refusals are not predicted (the property constrains what a refusal may "
                       "do, not when the API refuses)"]
    exe = build.ensure_harness("asan", "pure", ["pure.c", "pure_uri.c", "pure_wk.c"])
    nrand, per = (24000, 1500) if tier == "quick" else (1200000, 10000)
    jobs = [("random", (i, per), exe) for i in range(nrand // per)]
    nsh = 8 if tier == "quick" else 64
    jobs += [("triples", (tier, s, nsh), exe) for s in range(nsh)]
    agg = {}
    for n, sigs, vios, crashes, a, sample in common.parallel_map(work, jobs):
        run.evaluations += n
        run.nontrivial |= sigs
        for k, v in a.items():
            agg[k] = agg.get(k, 0) + v
        for rule, w, text in vios:
            run.violation(rule, w, text)
        for sig, w in crashes:
            run.violation("sanitizer/" + sig, w, w.get("stderr", "")[-1200:])
        if sample:
            run.sample(sample)
    run.extra["api_calls_judged"] = agg.get("steps", 0)
    run.extra["calls_accepted"] = agg.get("accepted", 0)
    run.extra["calls_refused"] = agg.get("refused", 0)
    run.extra["option_adds"] = agg.get("adds", 0)
    run.extra["option_adds_accepted"] = agg.get("adds_ok", 0)
    run.extra["exhaustive_part"] = "all (delta class x length class) triples for 3 options" + \
        (" x all 6 insertion orders" if tier != "quick" else " (one insertion order each)")
    run.require("option_adds_accepted_at_least_half", agg.get("adds_ok", 0) * 2,
                agg.get("adds", 0))
    run.require("refused_calls_seen", agg.get("refused", 0), 50)
    return run.finish()
