"""C15 - OSCORE never accepts a replay or reuses a nonce; forgeries leave no
trace.  Recipient side: a libcoap server context in the closed world, the
sender is the independent reference implementation acting as a raw peer (so it
can emit any partial IV).  Sender side: a libcoap client killed and restarted
from the value last handed to the save callback."""
from .. import build, common, world
from ..refs import coapwire as cw, oscore as O
from .c14 import conf_text

SERVER = "10.0.0.2:5683"
PEER = "10.0.0.9:45000"
GAPS = [1, 1, 1, 2, 31, 32, 33, 63, 64, 65, 1000]
# jumps after which an earlier message is a multiple of 2^16 / 2^24 / 2^32 (+ less than a
# window) behind: distances must not be taken modulo a narrower integer type
FAR_GAPS = [2 ** 16, 2 ** 16 + 3, 2 ** 24 + 1, 2 ** 31, 2 ** 32 - 1, 2 ** 32, 2 ** 32 + 1, 2 ** 32 + 8,
            2 ** 32 + 31, 2 ** 33 + 5]


def mkctx(r):
    return {"secret": bytes(r.getrandbits(8) for _ in range(16)),
            "salt": bytes(r.getrandbits(8) for _ in range(8)),
            "client_id": bytes([r.getrandbits(8)]) if r.random() < 0.8 else b"",
            "server_id": b"\x5e", "idctx": None}


def start_server(exe, r, c, b12, win):
    w = world.World(exe, seed=r.getrandbits(30), cmd_timeout=20)
    sim = world.Sim(w, latency=1)
    sim.add_node(1)
    sim.cmd("oscore_server 1 %s" % conf_text(c["secret"], c["salt"], c["server_id"],
                                             c["client_id"], c["idctx"], b12, win))
    sim.cmd("ep 1 udp %s" % SERVER)
    sim.cmd("res 1 %s body=fixed:6f6b" % b"r".hex())
    return w, sim


def build_req(refc, piv, ident, mid, echo=None):
    opts = [(11, b"r")]
    if echo is not None:
        opts.append((252, echo))
    m = {"type": 1, "code": 2, "mid": mid & 0xffff, "token": bytes([0x30 + (ident & 15), ident >> 4 & 255]),
         "options": cw.sort_options(opts), "payload": b"id-%d" % ident}
    return cw.encode(O.protect_request(refc, m, piv), "udp")


SRV_PIVS = {}      # id(world) -> Partial IVs the server's sender context put on the wire


def deliver(w, data):
    evs = w.cmd("deliver %s %s %s" % (PEER, SERVER, data.hex()))
    for e in evs:
        if e["e"] == "wire" and e.get("from") == SERVER:
            try:
                outer = cw.decode(bytes.fromhex(e["b"]), "udp")
                ov = [v for n, v in outer["options"] if n == 9]
                if ov and ov[0]:
                    piv = O.decode_oscore_option(ov[0], strict=False)["piv"]
                    if piv:
                        SRV_PIVS.setdefault(id(w), []).append(
                            (int.from_bytes(piv, "big"), outer["mid"], outer["type"]))
            except Exception:
                pass
    return evs


def run_history(exe, r, c, ops, b12, win, with_forgeries=True):
    """returns (accepted: dict ident -> handler runs, order of verdicts, world, peeks)"""
    w, sim = start_server(exe, r, c, b12, win)
    refc = O.SecCtx(c["secret"], c["salt"], c["idctx"], c["client_id"], c["server_id"])
    sent = {}             # ident -> bytes of a genuine message
    runs = {}
    verdicts = []
    highest = -1
    mid = 100
    echo = None
    ident = 0
    try:
        if b12:
            # Appendix B.1.2: the first request is answered 4.01 + Echo; repeat it with the Echo
            piv0 = 7           # so that the Echo-carrying request may use PIV 0
            d = build_req(refc, piv0, 4095, mid)
            evs = deliver(w, d)
            mid += 1
            if r.random() < 0.5:
                # another request arrives before the Echo exchange is through (pipelined, or an
                # attacker replaying an old one): it is challenged as well, under a new Partial
                # IV of the server's sender context; the client goes on with the latest Echo
                piv0 = 8
                d = build_req(refc, piv0, 4094, mid)
                evs = deliver(w, d)
                mid += 1
            for e in evs:
                if e["e"] == "wire":
                    try:
                        outer = cw.decode(bytes.fromhex(e["b"]), "udp")
                        inner = O.unprotect_response(refc, outer, c["client_id"],
                                                     O.piv_bytes(piv0))
                        ev = [v for n, v in inner["options"] if n == 252]
                        if ev:
                            echo = ev[0]
                    except Exception:
                        pass
            highest = -1
        for op in ops:
            kind = op[0]
            if kind == "fresh":
                piv = highest + op[1]
                ident += 1
                d = build_req(refc, piv, ident, mid, echo)
                echo_used = echo
                echo = None if echo is not None else None
                mid += 1
                sent[ident] = (piv, d)
                highest = max(highest, piv)
                evs = deliver(w, d)
                n = sum(1 for e in evs if e["e"] == "req" and e.get("phex") == (b"id-%d" % ident).hex())
                runs[ident] = runs.get(ident, 0) + n
                verdicts.append(("fresh", ident, piv, n))
            elif kind == "old":
                # a genuine message with a PIV below the highest that was never sent before
                piv = highest - op[1]
                if piv < 0 or any(p == piv for p, _ in sent.values()):
                    continue
                ident += 1
                d = build_req(refc, piv, ident, mid)
                mid += 1
                sent[ident] = (piv, d)
                evs = deliver(w, d)
                n = sum(1 for e in evs if e["e"] == "req" and e.get("phex") == (b"id-%d" % ident).hex())
                runs[ident] = runs.get(ident, 0) + n
                verdicts.append(("old", ident, piv, n))
            elif kind == "replay":
                if not sent:
                    continue
                k = sorted(sent)[op[1] % len(sent)]
                piv, d = sent[k]
                evs = deliver(w, d)
                n = sum(1 for e in evs if e["e"] == "req" and e.get("phex") == (b"id-%d" % k).hex())
                runs[k] = runs.get(k, 0) + n
                verdicts.append(("replay", k, piv, n))
            elif kind == "forge" and with_forgeries:
                choice = op[1]
                piv = {"below": max(0, highest - 3), "equal": max(0, highest), "above": highest + 5,
                       "far": highest + 200, "zero": 0}[choice]
                d = bytearray(build_req(refc, piv, 4000 + len(verdicts), mid))
                mid += 1
                d[-1] ^= 0x5a
                if op[2]:
                    d[-9] ^= 0x01
                evs = deliver(w, bytes(d))
                n = sum(1 for e in evs if e["e"] == "req")
                verdicts.append(("forge", choice, piv, n))
        peek = [e for e in w.cmd("peekosc 1") if e["e"] == "precip"]
        return runs, verdicts, w, peek
    except Exception:
        w.close(kill=True)
        raise


def gen_ops(r, n):
    ops = []
    for _ in range(n):
        x = r.random()
        if x < 0.06:
            ops.append(("fresh", r.choice(FAR_GAPS)))
        elif x < 0.45:
            ops.append(("fresh", r.choice(GAPS)))
        elif x < 0.6:
            ops.append(("old", r.choice([1, 2, 3, 5, 30, 31, 32, 62, 63, 64, 100])))
        elif x < 0.8:
            ops.append(("replay", r.randrange(1000)))
        else:
            ops.append(("forge", r.choice(["below", "equal", "above", "far", "zero"]),
                        r.random() < 0.5))
    return ops


def recipient_case(exe, it, run, stats):
    r = common.rng("c15-%d" % it)
    c = mkctx(r)
    b12 = r.random() < 0.4
    win = r.choice([1, 2, 8, 32, 32, 63])
    ops = gen_ops(r, r.choice([4, 8, 16, 30]))
    if r.random() < 0.3:
        ops.insert(0, ("fresh", 1))
        ops.insert(1, ("replay", 0))          # first message after start, replayed at once
    witness = {"item": it, "seed": common.seed(), "b12": b12, "window": win,
               "ops": [list(o) for o in ops],
               "ctx": {k: (v.hex() if isinstance(v, bytes) else v) for k, v in c.items()}}
    r1 = common.rng("c15w-%d" % it)
    runs, verdicts, w, peek = run_history(exe, r1, c, ops, b12, win, True)
    witness["verdicts"] = verdicts
    world.teardown_check(run, "C15", w, witness)
    cfg = "b12=%s" % ("on" if b12 else "off")
    # the server's own sender context: no Partial IV twice (retransmissions of one message -
    # same message id - aside)
    sp = sorted(set(SRV_PIVS.pop(id(w), [])))
    stats["server_pivs"] = stats.get("server_pivs", 0) + len(sp)
    vals = [p for p, _, _ in sp]
    if len(set(vals)) != len(vals):
        dup = sorted(p for p in set(vals) if vals.count(p) > 1)
        run.violation("sender-partial-iv-reused/server-responses/%s" % cfg, witness,
                      "the server protected distinct messages under Partial IV(s) %r: (piv, mid, "
                      "type) %r" % (dup, sp))
    for ident, n in runs.items():
        stats["genuine"] += 1
        if n > 1:
            first = [v for v in verdicts if v[1] == ident][0]
            # where was the replay relative to the window?
            run.violation("replay-accepted/%s" % cfg, dict(witness, ident=ident),
                          "message id-%d (PIV %d) reached the handler %d times; verdicts %r" %
                          (ident, first[2], n, verdicts))
    for v in verdicts:
        if v[0] == "forge":
            stats["forgeries"] += 1
            if v[3]:
                run.violation("forgery-accepted/%s" % cfg, witness,
                              "a forged message (claimed PIV %d) invoked the handler" % v[2])
    # sanity against the trivial implementation: strictly increasing fresh PIVs are accepted
    hi = -1
    for v in verdicts:
        if v[0] == "fresh":
            if v[2] > hi and v[3] == 0 and not any(
                    x[0] == "forge" for x in verdicts[:verdicts.index(v)]):
                run.violation("fresh-message-rejected/%s" % cfg, witness,
                              "PIV %d above every earlier one was not accepted; verdicts %r" %
                              (v[2], verdicts))
            hi = max(hi, v[2])
    # differential "no trace": the same history without the forgeries
    if any(o[0] == "forge" for o in ops):
        r2 = common.rng("c15w-%d" % it)
        runs2, verdicts2, w2, peek2 = run_history(exe, r2, c, ops, b12, win, False)
        w2.close()
        SRV_PIVS.pop(id(w2), None)
        g1 = [(v[0], v[1], v[2], v[3]) for v in verdicts if v[0] != "forge"]
        g2 = [(v[0], v[1], v[2], v[3]) for v in verdicts2 if v[0] != "forge"]
        stats["differential_pairs"] += 1
        if g1 != g2:
            diff = [(a, b) for a, b in zip(g1, g2) if a != b][:3]
            run.violation("forgery-left-a-trace/%s" % cfg, dict(witness, without_forgeries=g2),
                          "verdicts on genuine messages differ with / without the forgeries: "
                          "%r" % diff)
        elif [(p.get("last_seq"), p.get("window")) for p in peek] != \
                [(p.get("last_seq"), p.get("window")) for p in peek2]:
            stats["state_differs_only"] = stats.get("state_differs_only", 0) + 1
    return (b12, win, len(ops), tuple(sorted(set(o[0] for o in ops))))


def client_forgery_case(exe, it, run, stats):
    """the other direction: a libcoap OSCORE client observes a resource; forged responses
    (right token and source address - both visible on the wire -, a Partial IV of the
    forger's choosing, junk or tampered ciphertext) reach it between genuine notifications.
    They fail authentication and must leave no trace: every later genuine notification
    still reaches the response handler"""
    r = common.rng("c15c-%d" % it)
    c = mkctx(r)
    w = world.World(exe, seed=r.getrandbits(30), cmd_timeout=20)
    sim = world.Sim(w, latency=1)
    witness = {"item": it, "seed": common.seed(), "kind": "client-forgery", "script": w.script}
    try:
        sim.add_node(0, block_mode=1)
        sim.add_node(1, block_mode=1)
        sim.cmd("oscore_server 1 %s" % conf_text(c["secret"], c["salt"], c["server_id"],
                                                 c["client_id"], c["idctx"], False, 32))
        sim.cmd("ep 1 udp %s" % SERVER)
        sim.cmd("res 1 %s body=counter obs=1" % b"o".hex())
        sim.cmd("sess 0 0 udp %s oscore=%s start_seq=%d" % (
            SERVER, conf_text(c["secret"], c["salt"], c["client_id"], c["server_id"], c["idctx"],
                              False, 32), r.choice([0, 5, 300])))
        tok = "c7%02x" % (it & 255)
        sim.cmd("send 0 0 type=0 code=1 token=%s opts=6=,11=6f" % tok)
        sim.run(until=sim.elapsed() + 200, quiesce=False)
        client_addr = [e["local"] for e in sim.log if e["e"] == "sess" and e.get("ok")][0]
        reg_wire = [e["b"] for e in sim.log if e["e"] == "wire" and e["from"] == client_addr and
                    len(e["b"]) > 16]
        reg_wire = reg_wire[0] if reg_wire else None
        delivered = []
        forged = 0
        steps = r.choice([3, 6, 10])
        for k in range(steps):
            mark = len(sim.log)
            sim.cmd("notify 1 o")
            sim.run(until=sim.elapsed() + 300, quiesce=False)
            got = [e for e in sim.log[mark:] if e["e"] == "rsp" and e.get("n") == 0 and
                   e["tok"] == tok]
            delivered.append(len(got))
            genuine = [e for e in sim.log[mark:] if e["e"] == "wire" and e["from"] == SERVER and
                       e["to"] == client_addr]
            if not genuine or r.random() < 0.3:
                continue
            if reg_wire and r.random() < 0.4:
                # the other target: a forged REQUEST at the server, from the client's (spoofed)
                # address, with the observation's token and the client's kid - both readable
                # off the wire -, another Partial IV and junk ciphertext.  It is rejected; the
                # observation it names must go on working
                try:
                    outer = cw.decode(bytes.fromhex(reg_wire), "udp")
                    ov = [v for n, v in outer["options"] if n == 9][0]
                    pl = ov[0] & 7
                    fp = r.choice([b"\x7f\xff", b"\x01", (int.from_bytes(ov[1:1 + pl] or b"\0",
                                                                          "big") + 9).to_bytes(
                        5, "big").lstrip(b"\0") or b"\0"])
                    opts = [(n, (bytes([(ov[0] & 0xF8) | len(fp)]) + fp + ov[1 + pl:]) if n == 9
                             else v) for n, v in outer["options"]]
                    f = cw.msg(outer["code"], type=1, mid=r.getrandbits(16), token=outer["token"],
                               options=opts, payload=bytes(r.getrandbits(8) for _ in range(
                                   r.choice([9, 15, len(outer["payload"])]))))
                    sim.inject(client_addr, SERVER, cw.encode(f, "udp"))
                    sim.run(until=sim.elapsed() + 50, quiesce=False)
                    forged += 1
                    stats["client_forgeries"] = stats.get("client_forgeries", 0) + 1
                    stats["forged_requests_naming_an_observation"] = \
                        stats.get("forged_requests_naming_an_observation", 0) + 1
                except Exception:
                    pass
                continue
            # forge from the last genuine notification on the wire
            try:
                outer = cw.decode(bytes.fromhex(genuine[-1]["b"]), "udp")
            except Exception:
                continue
            piv = r.choice([b"\xff\xff\xff\xff\xff", b"\xff\xff\xff\xff\xfe", b"\x7f\xff",
                            b"\x64", b"\x00", None])
            opts = []
            for n, v in outer["options"]:
                if n == 9:
                    v = (bytes([len(piv)]) + piv) if piv is not None else b""
                opts.append((n, v))
            pl = bytes(r.getrandbits(8) for _ in range(r.choice([3, 9, 20, len(outer["payload"])])))
            f = cw.msg(outer["code"], type=1, mid=(outer["mid"] + 0x4000) & 0xffff,
                       token=outer["token"], options=opts, payload=pl)
            mark = len(sim.log)
            sim.inject(SERVER, client_addr, cw.encode(f, "udp"))
            sim.run(until=sim.elapsed() + 50, quiesce=False)
            forged += 1
            stats["client_forgeries"] = stats.get("client_forgeries", 0) + 1
            if any(e["e"] == "rsp" and e.get("n") == 0 for e in sim.log[mark:]):
                run.violation("forgery-accepted/client-response", witness,
                              "a forged response (Partial IV %r) reached the response handler"
                              % (piv,))
        witness["delivered_per_change"] = delivered
        stats["client_notifications"] = stats.get("client_notifications", 0) + sum(delivered)
        if forged and any(d == 0 for d in delivered[1:]) and delivered[0]:
            first_bad = [i for i, d in enumerate(delivered) if d == 0 and i > 0][0]
            run.violation("forgery-left-a-trace/client-response", witness,
                          "after forged responses the client's handler no longer got the "
                          "genuine notifications: deliveries per resource change %r (first "
                          "missing at change %d)" % (delivered, first_bad))
        world.teardown_check(run, "C15", w, witness)
        return ("client-forgery", steps, forged > 0)
    except world.WorldCrash as e:
        world.crash_violation(run, "C15", e, witness)
    finally:
        if not w.closed:
            w.close(kill=True)


def pending_forgery_case(exe, it, run, stats):
    """a forged message that names a request still in flight: the client's first datagram is
    lost, and before the retransmission a datagram arrives from the server's address with the
    request's message id and token (both readable off the wire), an OSCORE option of the
    forger's choosing and junk ciphertext.  It fails authentication and must leave no trace:
    the request is retransmitted, answered and handed to the response handler once, and the
    next Confirmable request on the session goes out and is answered too"""
    r = common.rng("c15p-%d" % it)
    c = mkctx(r)
    w = world.World(exe, seed=r.getrandbits(30), cmd_timeout=20)
    sim = world.Sim(w, latency=1)
    witness = {"item": it, "seed": common.seed(), "kind": "pending-forgery", "script": w.script}
    try:
        sim.add_node(0, block_mode=1)
        sim.add_node(1, block_mode=1)
        sim.cmd("oscore_server 1 %s" % conf_text(c["secret"], c["salt"], c["server_id"],
                                                 c["client_id"], c["idctx"], False, 32))
        sim.cmd("ep 1 udp %s" % SERVER)
        sim.cmd("res 1 %s body=fixed:%s" % (b"r".hex(), b"hello".hex()))
        sim.cmd("sess 0 0 udp %s oscore=%s start_seq=%d" % (
            SERVER, conf_text(c["secret"], c["salt"], c["client_id"], c["server_id"], c["idctx"],
                              False, 32), r.choice([0, 5, 300])))
        client_addr = [e["local"] for e in sim.log if e["e"] == "sess" and e.get("ok")][0]
        # a first exchange, undisturbed (the session leaves its start-up state)
        sim.cmd("send 0 0 type=0 code=1 token=e0 opts=11=72")
        sim.run(until=sim.elapsed() + 300, quiesce=False)
        if not any(e["e"] == "rsp" and e.get("n") == 0 and e["tok"] == "e0" for e in sim.log):
            raise common.Inconclusive("undisturbed OSCORE exchange did not complete")
        dropped = [0]

        def fault(sm, i, ev):
            if ev["from"] == client_addr and not dropped[0]:
                dropped[0] = 1
                return []
            return None
        sim.fault = fault
        mark = len(sim.log)
        tok = "e1%02x" % (it & 255)
        sim.cmd("send 0 0 type=0 code=%d token=%s opts=11=72" % (r.choice([1, 1, 2]), tok))
        reqw = [e for e in sim.log[mark:] if e["e"] == "wire" and e["from"] == client_addr]
        if not reqw:
            raise common.Inconclusive("request not written")
        outer = cw.decode(bytes.fromhex(reqw[0]["b"]), "udp")
        piv = r.choice([None, b"\x00", b"\x7f", b"\xff\xff\xff\xff\xff"])
        ov = b"" if piv is None else bytes([len(piv)]) + piv
        f = cw.msg(r.choice([0x45, 0x44, 0x84, 0x45]), type=r.choice([2, 2, 2, 0, 1, 3]),
                   mid=outer["mid"], token=outer["token"], options=[(9, ov)],
                   payload=bytes(r.getrandbits(8) for _ in range(r.choice([0, 3, 9, 20]))))
        if f["type"] == 3:
            f = None          # (a Reset with that id ends the exchange by rule: not a forgery case)
        if f is not None:
            sim.inject(SERVER, client_addr, cw.encode(f, "udp"), r.choice([1, 50, 900]))
            stats["forgeries_naming_a_pending_request"] = \
                stats.get("forgeries_naming_a_pending_request", 0) + 1
        sim.run(until=sim.elapsed() + 120000, quiesce=False)
        got = [e for e in sim.log[mark:] if e["e"] == "rsp" and e.get("n") == 0 and e["tok"] == tok]
        nack = [e for e in sim.log[mark:] if e["e"] == "nack" and e.get("n") == 0 and
                e.get("tok") == tok]
        bad = None
        if f is not None and any(e.get("phex") != b"hello".hex() for e in got):
            run.violation("forgery-accepted/client-response", witness,
                          "a forged response naming a pending request reached the handler")
        if len(got) != 1 and not nack:
            bad = "the request in flight got %d responses and no NACK in 120 s" % len(got)
        # the session must still be usable: NSTART slot free, sequence state intact
        mark2 = len(sim.log)
        sim.cmd("send 0 0 type=0 code=1 token=e2 opts=11=72")
        sim.run(until=sim.elapsed() + 120000, quiesce=False)
        if bad is None and not any(e["e"] == "rsp" and e.get("n") == 0 and e["tok"] == "e2"
                                   for e in sim.log[mark2:]):
            bad = "the next Confirmable request on the session was never answered"
        if bad and f is not None:
            run.violation("forgery-left-a-trace/pending-request", witness,
                          "forged %s with the message id of a request in flight: %s" %
                          (["CON", "NON", "ACK", "RST"][f["type"]], bad))
        elif bad:
            run.violation("request-without-forgery-not-concluded", witness, bad)
        world.teardown_check(run, "C15", w, witness)
        return ("pending-forgery", None if f is None else f["type"], piv is None)
    except world.WorldCrash as e:
        world.crash_violation(run, "C15", e, witness)
    finally:
        if not w.closed:
            w.close(kill=True)


def reversal_case(exe, it, run, stats):
    """one security context in both roles: a node that has an OSCORE client session AND serves a
    resource on it (RFC 7252 lets the peer of a session send requests too).  The peer's
    requests and the peer's responses then meet the same recipient context.  Between genuine
    requests the peer's address sends forged responses to the node's outstanding request (its
    token; no Partial IV, or one of the forger's choosing; junk ciphertext): they fail
    authentication and must not change what happens to replays of the requests accepted so
    far - each is still accepted at most once"""
    r = common.rng("c15r-%d" % it)
    c = mkctx(r)
    win = r.choice([1, 2, 8, 32])
    w = world.World(exe, seed=r.getrandbits(30), cmd_timeout=20)
    sim = world.Sim(w, latency=1)
    witness = {"item": it, "seed": common.seed(), "kind": "role-reversal", "window": win,
               "script": w.script}
    peer = "10.0.5.5:5683"
    try:
        sim.add_node(0)
        sim.cmd("res 0 %s body=fixed:6f6b" % b"r".hex())
        sim.peers[peer] = lambda *a: None
        evs = sim.cmd("sess 0 0 udp %s oscore=%s start_seq=0" % (
            peer, conf_text(c["secret"], c["salt"], c["client_id"], c["server_id"], c["idctx"],
                            False, win)))
        xaddr = [e["local"] for e in evs if e["e"] == "sess" and e.get("ok")]
        if not xaddr:
            raise common.Inconclusive("no session")
        xaddr = xaddr[0]
        # the node's own request: stays outstanding (the peer does not answer it)
        sim.cmd("send 0 0 type=1 code=1 token=aa01 opts=11=78")
        sim.run(until=sim.elapsed() + 5, quiesce=False)
        refc = O.SecCtx(c["secret"], c["salt"], c["idctx"], c["server_id"], c["client_id"])
        runs = {}
        sent = {}
        piv, mid = 4, 700
        for step in range(r.choice([4, 8, 14])):
            x = r.random()
            if x < 0.5 or not sent:
                piv += r.choice([1, 1, 2])
                ident = len(sent) + 1
                d = build_req(refc, piv, ident, mid)
                sent[ident] = d
                what = ("fresh", ident)
            elif x < 0.8:
                ident = r.choice(sorted(sent))
                d = sent[ident]
                what = ("replay", ident)
            else:
                fpiv = r.choice([None, None, b"\x64", b"\x01", b"\xff\xff\xff\xff\xff"])
                ov = b"" if fpiv is None else bytes([len(fpiv)]) + fpiv
                d = cw.encode(cw.msg(0x44, type=1, mid=(0x4000 + mid) & 0xffff,
                                     token=bytes.fromhex("aa01"), options=[(9, ov)],
                                     payload=bytes(r.getrandbits(8) for _ in range(
                                         r.choice([9, 12, 30])))), "udp")
                what = ("forged-response", None)
                stats["reversal_forgeries"] = stats.get("reversal_forgeries", 0) + 1
            mid += 1
            mark = len(sim.log)
            sim.inject(peer, xaddr, d)
            sim.run(until=sim.elapsed() + 5, quiesce=False)
            if what[0] != "forged-response":
                n = sum(1 for e in sim.log[mark:] if e["e"] == "req" and
                        e.get("phex") == (b"id-%d" % what[1]).hex())
                runs[what[1]] = runs.get(what[1], 0) + n
            elif any(e["e"] == "rsp" for e in sim.log[mark:]):
                run.violation("forgery-accepted/role-reversal", witness,
                              "a forged response reached the response handler")
            witness.setdefault("steps", []).append(what)
        stats["reversal_requests"] = stats.get("reversal_requests", 0) + len(sent)
        for ident, n in runs.items():
            if n > 1:
                run.violation("replay-accepted/role-reversal", dict(witness, ident=ident),
                              "request id-%d reached the handler %d times; steps %r" %
                              (ident, n, witness.get("steps")))
        if sent and not any(runs.values()):
            run.violation("fresh-message-rejected/role-reversal", witness,
                          "none of %d genuine requests was accepted" % len(sent))
        world.teardown_check(run, "C15", w, witness)
        return ("role-reversal", win, len(sent))
    except world.WorldCrash as e:
        world.crash_violation(run, "C15", e, witness)
    finally:
        if not w.closed:
            w.close(kill=True)


def sender_case(exe, it, run, stats):
    """libcoap client with ssn_freq; killed after a message boundary; restarted from the last
    value handed to the save callback"""
    r = common.rng("c15s-%d" % it)
    c = mkctx(r)
    freq = r.choice([1, 2, 10])
    saved = 0
    pivs = []
    witness = {"item": it, "seed": common.seed(), "ssn_freq": freq, "incarnations": []}
    for inc in range(r.choice([2, 3, 4])):
        if r.random() < 0.3:
            freq = r.choice([1, 2, 4, 10])          # configuration changed between runs
        w = world.World(exe, seed=r.getrandbits(30), cmd_timeout=20)
        sim = world.Sim(w, latency=1)
        try:
            sim.add_node(0)
            # a peer that answers, so that the client's "first exchange" completes (the
            # library blocks a second coap_send() until the first OSCORE response is in)
            sim.add_node(1)
            sim.cmd("oscore_server 1 %s" % conf_text(c["secret"], c["salt"], c["server_id"],
                                                     c["client_id"], c["idctx"], False, 32))
            sim.cmd("ep 1 udp %s" % SERVER)
            sim.cmd("res 1 %s body=fixed:6f6b" % b"r".hex())
            sim.cmd("sess 0 0 udp %s oscore=%s start_seq=%d" % (
                SERVER, conf_text(c["secret"], c["salt"], c["client_id"], c["server_id"],
                                  c["idctx"], False, 32, freq), saved))
            nmsg = r.randint(0, 7)
            last_saved = saved
            used = []
            for k in range(nmsg):
                mark = len(sim.log)
                sim.cmd("send 0 0 type=1 code=1 token=%02x opts=11=72" % (k + 1))
                sim.run(until=sim.elapsed() + 20, quiesce=False)
                for e in sim.log[mark:]:
                    if e.get("n") != 0:
                        continue
                    if e["e"] == "ssn":
                        last_saved = e["seq"]
                    elif e["e"] == "wire":
                        try:
                            outer = cw.decode(bytes.fromhex(e["b"]), "udp")
                            ov = [v for n, v in outer["options"] if n == 9]
                            piv = int.from_bytes(O.decode_oscore_option(ov[0], strict=False)["piv"]
                                                 or b"\0", "big")
                        except Exception:
                            continue
                        used.append(piv)
                        stats["pivs"] += 1
                        if piv >= last_saved:
                            run.violation("partial-iv-not-below-saved-watermark", witness,
                                          "PIV %d used while the last value handed to the save "
                                          "callback was %d (ssn_freq %d)" % (piv, last_saved, freq))
            witness["incarnations"].append({"start": saved, "ssn_freq": freq, "pivs": used,
                                            "last_saved": last_saved})
            pivs.extend(used)
            saved = last_saved
        finally:
            w.close(kill=True)         # the process dies without any orderly shutdown
    if len(set(pivs)) != len(pivs):
        dup = sorted(p for p in set(pivs) if pivs.count(p) > 1)
        run.violation("partial-iv-reused-across-restart", witness,
                      "PIVs %r were used twice: %r" % (dup, witness["incarnations"]))
    return ("sender", freq, len(pivs))


def work(job):
    kind, items, exe = job
    run = common.Run("C15", "quick", "exploration")
    stats = dict(genuine=0, forgeries=0, differential_pairs=0, pivs=0)
    sigs = set()
    n = 0
    for it in items:
        try:
            if kind == "recipient":
                sigs.add(recipient_case(exe, it, run, stats))
            elif kind == "client-forgery":
                sigs.add(client_forgery_case(exe, it, run, stats))
            elif kind == "role-reversal":
                sigs.add(reversal_case(exe, it, run, stats))
            elif kind == "pending-forgery":
                sigs.add(pending_forgery_case(exe, it, run, stats))
            else:
                sigs.add(sender_case(exe, it, run, stats))
        except world.WorldCrash as e:
            world.crash_violation(run, "C15", e, {"kind": kind, "item": it,
                                                  "seed": common.seed()})
        except common.Inconclusive:
            pass
        n += 1
    return n, sigs, run.export(), stats


def main(tier):
    run = common.Run("C15", tier, "exploration")
    run.rule = ("recipient: histories of 4..30 operations over {fresh with gap 1,2,31,32,33,63,64,"
                "65,1000; never-sent older PIV at distance 1..100; replay of any earlier message; "
                "forgery with claimed PIV below/equal/above/far above/0} against replay windows "
                "1,2,8,32,63, Appendix B.1.2 on (the reference performs the Echo exchange) and "
                "off, each history also run without its forgeries; sender: libcoap client with "
                "ssn_freq 1/2/4/10 (also changed between runs), killed after 0..7 messages, "
                "restarted from the last saved value, 2-4 incarnations; client: a libcoap OSCORE client "
                "observing, forged responses (its token, Partial IV 0 .. 2^40-1 or none, junk "
                "ciphertext) between genuine notifications; role reversal: a node with an OSCORE "
                "client session that also serves requests on it, forged responses to its own "
                "outstanding request between genuine requests and replays; distinct_nontrivial = "
                "distinct (B.1.2, window, length, operation kinds) / sender tuples")
    run.assumptions = ["the sender of the recipient-side histories is vf/refs/oscore.py",
                       "no model of the window is used: at-most-once, differential no-trace and "
                       "'strictly increasing is accepted' only"]
    exe = build.ensure_world("asan")
    nrec, nsend = (1200, 500) if tier == "quick" else (20000, 4000)
    chunk = 10
    jobs = [("recipient", list(range(i, min(nrec, i + chunk))), exe) for i in range(0, nrec, chunk)]
    jobs += [("sender", list(range(i, min(nsend, i + chunk))), exe) for i in range(0, nsend, chunk)]
    ncli = 400 if tier == "quick" else 3000
    jobs += [("client-forgery", list(range(i, min(ncli, i + chunk))), exe)
             for i in range(0, ncli, chunk)]
    jobs += [("role-reversal", list(range(i, min(ncli, i + chunk))), exe)
             for i in range(0, ncli, chunk)]
    jobs += [("pending-forgery", list(range(i, min(ncli, i + chunk))), exe)
             for i in range(0, ncli, chunk)]
    stats = {}
    for n, sigs, vios, st in common.parallel_map(work, jobs):
        run.evaluations += n
        run.nontrivial |= sigs
        run.merge(vios)
        for k, v in st.items():
            stats[k] = stats.get(k, 0) + v
    run.extra.update(stats)
    run.sample({"example": "window 32, B.1.2 off: fresh+1, fresh+33, replay #0, forge above, "
                           "old -31, replay #1"})
    run.require("genuine_messages", stats.get("genuine", 0), 1000)
    run.require("forgeries", stats.get("forgeries", 0), 300)
    run.require("sender_pivs", stats.get("pivs", 0), 300)
    run.require("server_pivs", stats.get("server_pivs", 0), 50)
    run.require("client_forgeries", stats.get("client_forgeries", 0), 100)
    run.require("reversal_forgeries", stats.get("reversal_forgeries", 0), 100)
    run.require("reversal_requests", stats.get("reversal_requests", 0), 300)
    run.require("client_notifications", stats.get("client_notifications", 0), 200)
    return run.finish()
