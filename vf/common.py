"""Verdict / evidence / known-findings plumbing shared by all property checks."""
import hashlib
import json
import os
import random
import re
import subprocess
import sys
import time

VERIF = os.path.dirname(os.path.dirname(os.path.abspath(__file__)))
# VERIF_OUT redirects evidence and replay files (used when a check is pointed at a scratch
# tree with VERIF_REPO, so that /verif/evidence only ever describes /repo)
_OUT = os.environ.get("VERIF_OUT") or VERIF
EVIDENCE_DIR = os.path.join(_OUT, "evidence")
REPLAY_DIR = os.path.join(_OUT, "replay")
KNOWN_FILE = os.path.join(VERIF, "known_findings.json")


class Inconclusive(Exception):
    """Harness failure or the run observed too little: exit 2, never a verdict."""


def seed():
    try:
        return int(os.environ.get("VERIF_SEED", "1"))
    except ValueError:
        return 1


def rng(tag=""):
    return random.Random("%d/%s" % (seed(), tag))


def load_known():
    if not os.path.exists(KNOWN_FILE):
        return {}
    data = json.load(open(KNOWN_FILE))
    out = {}
    for f in data.get("findings", []):
        if f.get("status") == "known":
            out[f["signature"]] = f
    return out


class Run:
    """One execution of one property's check."""

    def __init__(self, prop, tier, level):
        self.prop = prop
        self.tier = tier
        self.level = level
        self.t0 = time.time()
        self.known = load_known()
        self.violations = {}       # signature -> (witness, text)
        self.known_hit = {}        # signature -> count
        self.known_witness = {}    # signature -> first (witness, text) met in this run
        self.evaluations = 0
        self.nontrivial = set()
        self.samples = []
        self.extra = {}
        self.assumptions = []
        self.rule = ""
        self.min_required = {}     # name -> (seen, need)
        self.exhaustive = False

    # ---- accounting -------------------------------------------------
    def case(self, signature=None, n=1):
        self.evaluations += n
        if signature is not None:
            self.nontrivial.add(signature)

    def sample(self, obj, limit=6):
        if len(self.samples) < limit:
            self.samples.append(obj)

    def count(self, key, n=1):
        self.extra[key] = self.extra.get(key, 0) + n

    def require(self, name, seen, need):
        self.min_required[name] = (seen, need)

    # ---- violations ---------------------------------------------------
    def violation(self, signature, witness, text=""):
        """Record a violation.  signature = '<prop>/<rule>/<locus>'."""
        if not signature.startswith(self.prop + "/"):
            signature = self.prop + "/" + signature
        if signature in self.known:
            self.known_hit[signature] = self.known_hit.get(signature, 0) + 1
            self.known_witness.setdefault(signature, (witness, text))
            return False
        if signature not in self.violations:
            self.violations[signature] = (witness, text)
        return True

    def export(self):
        """what a worker-side collector hands back to the main Run"""
        return (self.violations, self.known_hit, self.known_witness)

    def merge(self, exported):
        vios, hits, kw = exported
        for sig, v in kw.items():
            self.known_witness.setdefault(sig, v)
        for sig, (wit, text) in vios.items():
            if sig not in self.violations:
                self.violations[sig] = (wit, text)
        for sig, cnt in hits.items():
            self.known_hit[sig] = self.known_hit.get(sig, 0) + cnt

    # ---- finish ---------------------------------------------------------
    def finish(self):
        wall = time.time() - self.t0
        os.makedirs(EVIDENCE_DIR, exist_ok=True)
        for sig, cnt in sorted(self.known_hit.items()):
            print("KNOWN-FINDING: property=%s %s -- %s (seen %d times)" %
                  (self.prop, sig, self.known[sig].get("what", ""), cnt))
        for sig, (witness, text) in sorted(self.known_witness.items()):
            d = os.path.join(REPLAY_DIR, self.prop)
            os.makedirs(d, exist_ok=True)
            h = hashlib.sha1(sig.encode()).hexdigest()[:12]
            with open(os.path.join(d, "known-" + h + ".json"), "w") as f:
                json.dump({"property": self.prop, "signature": sig, "seed": seed(),
                           "tier": self.tier, "explanation": text, "witness": witness,
                           "known_finding": True}, f, indent=1, default=repr)
        vio_lines = []
        for sig, (witness, text) in sorted(self.violations.items()):
            d = os.path.join(REPLAY_DIR, self.prop)
            os.makedirs(d, exist_ok=True)
            h = hashlib.sha1(sig.encode()).hexdigest()[:12]
            path = os.path.join(d, h + ".json")
            with open(path, "w") as f:
                json.dump({"property": self.prop, "signature": sig, "seed": seed(),
                           "tier": self.tier, "explanation": text,
                           "witness": witness}, f, indent=1, default=repr)
            vio_lines.append("VIOLATION property=%s replay=%s" % (self.prop, path))
            print("  signature: %s" % sig)
            if text:
                print("  " + text[:1500].replace("\n", "\n  "))
        short = [(k, v) for k, v in self.min_required.items() if v[0] < v[1]]
        cov = {
            "evaluations": int(self.evaluations),
            "distinct_nontrivial": len(self.nontrivial),
            "rule": self.rule,
            "samples": self.samples,
            "exhaustive": bool(self.exhaustive),
            "known_findings_matched": sorted(self.known_hit),
            "observed_minimums": {k: {"seen": v[0], "required": v[1]}
                                  for k, v in self.min_required.items()},
        }
        cov.update(self.extra)
        ev = {
            "property_id": self.prop,
            "tier": self.tier,
            "seed": seed(),
            "level": self.level,
            "coverage": cov,
            "assumptions": self.assumptions,
            "wall_s": round(wall, 2),
            "violations": len(self.violations),
        }
        with open(os.path.join(EVIDENCE_DIR, self.prop + ".json"), "w") as f:
            json.dump(ev, f, indent=1, default=repr)
        for l in vio_lines:
            print(l)
        if vio_lines:
            print("%s: %d violation signature(s) in %d evaluations (%.1fs)" %
                  (self.prop, len(vio_lines), self.evaluations, wall))
            return 1
        if short:
            print("%s: INCONCLUSIVE - observed too little: %s" % (self.prop, short))
            return 2
        print("%s: held on %d evaluations, %d distinct non-trivial (%.1fs, tier %s, seed %d)"
              % (self.prop, self.evaluations, len(self.nontrivial), wall, self.tier, seed()))
        return 0


# ---------------------------------------------------------------------------
# sanitizer report parsing

_FRAME = re.compile(r"^\s*#(\d+) 0x[0-9a-f]+ in (\S+)(?: (\S+))?", re.M)
_OWN = ("vf_", "run_", "main", "__", "_start", "dump_pdu", "wrap_", "__wrap_", "__real_",
        "put_", "w_", "cmd_", "h_", "ev_")


def sanitizer_signature(stderr):
    """kind + top three libcoap frames (no line numbers) of a sanitizer report,
    or None if there is no report."""
    kind = None
    m = re.search(r"ERROR: (AddressSanitizer|LeakSanitizer): ([\w-]+)", stderr)
    if m:
        kind = "asan-" + m.group(2)
        if m.group(1) == "LeakSanitizer":
            kind = "lsan-leak"
        m2 = re.search(r"^(READ|WRITE) of size", stderr, re.M)
        if m2:
            kind += "-" + m2.group(1).lower()
    else:
        m = re.search(r"runtime error: ([^\n]+)", stderr)
        if m:
            txt = m.group(1)
            txt = re.sub(r"0x[0-9a-f]+", "ADDR", txt)
            txt = re.sub(r"-?\d+", "N", txt)
            kind = "ubsan-" + re.sub(r"[^A-Za-z]+", "-", txt)[:60].strip("-")
        elif "AddressSanitizer:DEADLYSIGNAL" in stderr or "SEGV" in stderr:
            kind = "asan-SEGV"
    if kind is None:
        return None
    frames = []
    # first stack trace only
    i0 = stderr.find("    #0 ")
    first = stderr[i0:] if i0 >= 0 else stderr
    j = first.find("\n\n")
    if j >= 0:
        first = first[:j]
    for m in _FRAME.finditer(first):
        fn = m.group(2)
        if fn.startswith("__interceptor") or fn.startswith("__asan") or fn.startswith("__ubsan"):
            continue
        if fn in ("memcpy", "memmove", "memcmp", "strlen", "malloc", "free", "realloc",
                  "calloc", "memchr", "memset"):
            continue
        if any(fn.startswith(p) for p in _OWN):
            if frames:
                break
            continue
        frames.append(fn)
        if len(frames) == 3:
            break
        if int(m.group(1)) > 12:
            break
    return kind + "/" + ("<".join(frames) if frames else "harness-reads-accessor-result")


# ---------------------------------------------------------------------------
# batch runner for the pure harness

VG_AT = re.compile(r"^==\d+==\s+(?:at|by) 0x[0-9A-Fa-f]+: (\S+)")


def valgrind_signature(stderr):
    """memcheck report -> 'memcheck-<kind>/<top three libcoap frames>' or None"""
    kind = None
    frames = []
    for line in (stderr or "").splitlines():
        m = re.match(r"^==\d+== (Conditional jump|Use of uninitialised|Invalid (?:read|write|free)|"
                     r"Syscall param|Source and destination overlap|Mismatched free|"
                     r"Argument .* of function)", line)
        if m and kind is None:
            kind = m.group(1).lower().replace(" ", "-")
            continue
        if kind is not None:
            f = VG_AT.match(line)
            if f:
                name = f.group(1)
                if not name.startswith(("__wrap_", "vf_", "cmd_", "run_command", "main", "mem", "str",
                                        "do_io")):
                    frames.append(name)
            elif frames and line.strip().endswith("=="):
                break
    if kind is None:
        return None
    return "memcheck-%s/%s" % (kind, "<".join(frames[:3]) or "harness")


class BatchCrash:
    def __init__(self, index, stderr, rc):
        self.index = index
        self.stderr = stderr
        self.rc = rc


MAX_CRASHES_PER_BATCH = 40


def run_batch(exe, lines, timeout=600, env=None):
    """Run the pure harness over `lines`.  Returns (results, crashes) where
    results[i] is the output string for case i (None if it crashed) and crashes
    is a list of BatchCrash.  After a crash the batch continues behind it."""
    results = [None] * len(lines)
    crashes = []
    start = 0
    e = dict(os.environ)
    e.setdefault("ASAN_OPTIONS", "abort_on_error=0:detect_leaks=1:allocator_may_return_null=1:"
                                 "max_allocation_size_mb=512")
    e.setdefault("UBSAN_OPTIONS", "print_stacktrace=1")
    if env:
        e.update(env)
    while start < len(lines):
        if len(crashes) >= MAX_CRASHES_PER_BATCH:
            # do not re-feed the tail for ever; the rest stays unexecuted (None)
            crashes.append(BatchCrash(-2, "TOO-MANY-CRASHES: %d cases not executed"
                                      % (len(lines) - start), 0))
            break
        data = ("\n".join(lines[start:]) + "\n").encode()
        try:
            p = subprocess.run([exe, str(start)], input=data, stdout=subprocess.PIPE,
                               stderr=subprocess.PIPE, env=e, timeout=timeout)
        except subprocess.TimeoutExpired as te:
            out = (te.stdout or b"").decode("latin1")
            done = _fill(results, out)
            idx = done + 1 if done >= start else start
            crashes.append(BatchCrash(min(idx, len(lines) - 1), "TIMEOUT", -9))
            start = idx + 1
            continue
        out = p.stdout.decode("latin1")
        err = p.stderr.decode("latin1")
        last = _fill(results, out)
        if p.returncode == 0:
            break
        m = re.search(r"VF-CASE (-?\d+)", err)
        if m and int(m.group(1)) >= 0:
            idx = int(m.group(1))
        elif m:
            # died after the last case (leak report at exit, teardown crash)
            crashes.append(BatchCrash(-1, err, p.returncode))
            break
        else:
            idx = last + 1 if last >= start else start
            if "LeakSanitizer" in err and last == len(lines) - 1:
                crashes.append(BatchCrash(-1, err, p.returncode))
                break
        idx = max(start, min(idx, len(lines) - 1))
        results[idx] = None
        crashes.append(BatchCrash(idx, err, p.returncode))
        start = idx + 1
    return results, crashes


def _fill(results, out):
    last = -1
    # complete lines only: a line cut short by a crash is not a result
    for ln in out.split("\n")[:-1]:
        if not ln:
            continue
        sp = ln.find(" ")
        if sp < 0:
            continue
        try:
            i = int(ln[:sp])
        except ValueError:
            continue
        if 0 <= i < len(results):
            results[i] = ln[sp + 1:]
            last = i
    return last


def parallel_map(fn, items, workers=16):
    """Run fn over items in worker processes (fork); fn must be picklable at
    module level.  Results in order."""
    import multiprocessing as mp
    if workers <= 1 or len(items) <= 1:
        return [fn(x) for x in items]
    with mp.get_context("fork").Pool(min(workers, len(items))) as pool:
        return pool.map(fn, items, chunksize=1)


def hx(b):
    return b.hex() if b else "-"


def unhx(s):
    return b"" if s in ("-", "", "~") else bytes.fromhex(s)
