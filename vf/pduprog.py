"""Run PDU build/edit programs through harness/pure.c and judge every step
against the list model (used by C01 and C04)."""
from . import common, pdumodel as pm
from .refs import coapwire as cw


def program_line(prog):
    parts = []
    for st in prog["steps"]:
        parts.append(pm.step_line(st))
        parts.append("cdump" if st[0] == "parse" else "dump")
    for proto in prog.get("final", []):
        parts.append("enc:%s" % proto)
        parts.append("reparse:%s" % proto)
    return "P " + " ".join(parts)


def expected_for_proto(state, proto):
    m = state.as_msg()
    if cw.is_stream(proto):
        m["type"] = 0
        m["mid"] = 0
    return m


def judge_program(prog, res):
    """returns (violations [(rule/locus, text)], stats dict)"""
    vios = []
    stats = {"steps": 0, "accepted": 0, "refused": 0, "adds": 0, "adds_ok": 0}
    if res is None:
        return vios, stats
    out = res.split("|")
    state = None
    i = 0
    typ_forced = False
    for st in prog["steps"]:
        if i + 1 >= len(out):
            vios.append(("harness/short-output", "output ended early: %r" % res[:200]))
            return vios, stats
        r, d = out[i], out[i + 1]
        i += 2
        stats["steps"] += 1
        if st[0] == "parse":
            if r != "1":
                # generator only feeds reference-accepted bytes here; C03 judges the verdict
                stats["parse_rejected"] = stats.get("parse_rejected", 0) + 1
                return vios, stats
            t = pm.parse_dump(d)
            state = pm.State(t[0], t[1], t[2])
            state.token, state.options, state.payload = t[3], list(t[4]), t[5]
            want = prog.get("parsed_expect")
            if want is not None and state.key() != want:
                vios.append(("parse-differs/%s" % st[1],
                             "parsed PDU differs from reference decoding\nwant %r\ngot  %r"
                             % (want, state.key())))
            continue
        ok, cands = pm.successors(state, st, r)
        if st[0] in ("opt", "ins", "upd", "olist"):
            stats["adds"] += 1
            stats["adds_ok"] += 1 if ok else 0
        stats["accepted" if ok else "refused"] += 1
        if d == "nopdu" or d == "D null":
            if st[0] == "init" and not ok:
                state = None
                continue
            vios.append(("harness/no-pdu", "no pdu after %r" % (st,)))
            return vios, stats
        got = pm.parse_dump(d)
        match = None
        for c in cands:
            if c is not None and c.key() == got:
                match = c
                break
        if match is None:
            rule = "accepted-step-wrong-state" if ok else "refusal-disturbs"
            vios.append(("%s/%s" % (rule, st[0]),
                         "after step %r (result %s)\nmodel before: %s\nadmissible after: %s\n"
                         "implementation: %r" %
                         (pm.step_line(st)[:200], r, pm.describe(state),
                          " | ".join(pm.describe(c) for c in cands[:3]), got)))
            # resynchronise on what the implementation shows to keep judging later steps
            state = pm.State(got[0], got[1], got[2])
            state.token, state.options, state.payload = got[3], list(got[4]), got[5]
        else:
            state = match
    for proto in prog.get("final", []):
        if i + 1 >= len(out):
            vios.append(("harness/short-output", "output ended early"))
            break
        enc, rep = out[i], out[i + 1]
        i += 2
        if state is None:
            continue
        want = expected_for_proto(state, proto)
        ef = enc.split(" ")
        if ef[0] == "0":
            vios.append(("encode-header-failed/%s" % proto, "coap_pdu_encode_header returned 0 "
                         "for %s" % pm.describe(state)))
            continue
        wire = common.unhx(ef[1])
        if want["code"] == 0 and (want["token"] or want["options"] or want["payload"]):
            continue            # not a message the property speaks about
        st_, info = cw.verdict(wire, proto)
        if st_ == "reject":
            vios.append(("encoding-malformed/%s/%s" % (proto, info),
                         "reference decoder rejects the serialisation (%s): %s" %
                         (info, wire.hex()[:400])))
        elif st_ == "accept" and info != want:
            diff = [k for k in want if info.get(k) != want[k]]
            vios.append(("encoding-decodes-differently/%s/%s" % (proto, ",".join(diff)),
                         "model %r\nreference decoding of the bytes %r" % (want, info)))
        if st_ != "reject":
            try:
                canon = cw.encode(want, proto)
            except ValueError:
                canon = None
            if canon is not None and canon != wire:
                vios.append(("encoding-not-canonical/%s" % proto,
                             "bytes differ from the reference encoder\nwant %s\ngot  %s" %
                             (canon.hex()[:600], wire.hex()[:600])))
        rf = rep.split(" ", 1)
        if rf[0] != "1":
            if st_ == "accept":
                vios.append(("roundtrip-rejected/%s" % proto,
                             "coap_pdu_parse rejects libcoap's own serialisation of %s" %
                             pm.describe(state)))
            continue
        got = pm.parse_dump(rf[1])
        wk = (want["type"], want["code"], want["mid"], want["token"], tuple(want["options"]),
              want["payload"])
        if got != wk:
            vios.append(("roundtrip-differs/%s" % proto,
                         "model    %r\nre-parsed %r" % (wk, got)))
    return vios, stats


def run_programs(exe, progs):
    lines = [program_line(p) for p in progs]
    results, crashes = common.run_batch(exe, lines)
    out = []
    agg = {}
    for pi, (p, res) in enumerate(zip(progs, results)):
        v, s = judge_program(p, res)
        for k, n in s.items():
            agg[k] = agg.get(k, 0) + n
        for rule, text in v:
            out.append((rule, {"program": lines[pi][:6000] if len(out) < 50 else ""}, text))
    crash_out = []
    for cr in crashes:
        if cr.index == -2:
            agg["unexecuted"] = agg.get("unexecuted", 0) + 1
            continue
        sig = common.sanitizer_signature(cr.stderr) or ("abort-rc%d" % cr.rc)
        w = {"stderr": cr.stderr[-3000:]}
        if cr.index >= 0:
            w["program"] = lines[cr.index][:4000]
        crash_out.append((sig, w))
    return out, crash_out, agg
