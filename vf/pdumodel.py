"""Sequential list model of a CoAP PDU under the building / editing API
(C01, C04).  The model is advanced only when the API call reports success;
for a few calls more than one successor state is admissible (implicit
Hop-Limit, partially applied option lists) and the one the implementation
shows is adopted."""
import copy

from . import common
from .refs import coapwire as cw

HOP = (16, b"\x10")


class State:
    __slots__ = ("type", "code", "mid", "token", "options", "payload")

    def __init__(self, type=0, code=0, mid=0):
        self.type, self.code, self.mid = type, code, mid
        self.token = b""
        self.options = []
        self.payload = b""

    def copy(self):
        s = State(self.type, self.code, self.mid)
        s.token = self.token
        s.options = list(self.options)
        s.payload = self.payload
        return s

    def as_msg(self):
        return {"type": self.type, "code": self.code, "mid": self.mid, "token": self.token,
                "options": list(self.options), "payload": self.payload}

    def key(self):
        return (self.type, self.code, self.mid, self.token, tuple(self.options), self.payload)

    def insert(self, num, val):
        i = len(self.options)
        while i > 0 and self.options[i - 1][0] > num:
            i -= 1
        self.options.insert(i, (num, val))

    def has(self, num):
        return any(n == num for n, _ in self.options)

    def size(self):
        tkl, tokb = cw.encode_token(self.token)
        n = len(tokb) + len(cw.encode_options(self.options))
        if self.payload:
            n += 1 + len(self.payload)
        return n


def step_line(st):
    k = st[0]
    if k == "init":
        return "init:%d:%d:%d:%d" % st[1:]
    if k in ("tok", "utok", "data", "dafter"):
        return "%s:%s" % (k, common.hx(st[1]))
    if k in ("opt", "ins", "upd"):
        return "%s:%d:%s" % (k, st[1], common.hx(st[2]))
    if k == "rem":
        return "rem:%d" % st[1]
    if k == "olist":
        return "olist:" + ",".join("%d=%s" % (n, common.hx(v)) for n, v in st[1])
    if k == "dup":
        return "dup:%s:%s" % (common.hx(st[1]), "*" if st[2] is None else
                              (",".join(str(n) for n in st[2]) or "-"))
    if k == "parse":
        return "parse:%s:%s:%s" % (st[1], st[2], common.hx(st[3]))
    if k in ("dump", "cdump"):
        return k
    if k in ("enc", "reparse"):
        return "%s:%s" % (k, st[1])
    raise ValueError(st)


def parse_dump(s):
    f = s.split(" ")
    if f[0] != "D" or len(f) != 7:
        raise ValueError("bad dump %r" % s)
    opts = []
    if f[5] != "-":
        for item in f[5].split(";"):
            k, v = item.split("=")
            opts.append((int(k), common.unhx(v)))
    return (int(f[1]), int(f[2]), int(f[3]), common.unhx(f[4]), tuple(opts), common.unhx(f[6]))


def is_request(code):
    return 0 < code < 32


def _with_option(state, num, val, via_add):
    """candidate successor states for a successful add/insert of (num, val)"""
    cands = []
    base = state.copy()
    implicit = is_request(state.code) and num in (35, 39) and not state.has(16)
    s1 = base.copy()
    s1.insert(num, val)
    cands.append(s1)
    if implicit:
        s2 = base.copy()
        s2.insert(*HOP)
        s2.insert(num, val)
        cands.insert(0, s2)
    return cands


def successors(state, st, res):
    """Given the model state, a step and the implementation's result string,
    return (ok, [candidate states]).  ok says whether the call reported
    success."""
    k = st[0]
    if k == "init":
        ok = res == "1"
        s = State(st[1], st[2], st[3])
        return ok, [s]
    if state is None:
        return False, [None]
    if k == "tok":
        ok = res == "1"
        if not ok:
            return ok, [state]
        s = state.copy()
        s.token = st[1]
        return ok, [s]
    if k == "utok":
        ok = res == "1"
        if not ok:
            return ok, [state]
        s = state.copy()
        s.token = st[1]
        return ok, [s]
    if k in ("opt", "ins"):
        ok = res not in ("0",)
        if ok:
            return ok, _with_option(state, st[1], st[2], k == "opt")
        # refused: nothing may change (that includes the Hop-Limit the builder adds next to a
        # Proxy-Uri/Proxy-Scheme: it goes when the option it was added for is refused)
        return ok, [state]
    if k == "upd":
        ok = res not in ("0",)
        if not ok:
            return ok, [state]
        if state.has(st[1]):
            s = state.copy()
            for i, (n, _) in enumerate(s.options):
                if n == st[1]:
                    s.options[i] = (n, st[2])
                    break
            return ok, [s]
        return ok, _with_option(state, st[1], st[2], False)
    if k == "rem":
        ok = res == "1"
        if not ok:
            return ok, [state]
        s = state.copy()
        for i, (n, _) in enumerate(s.options):
            if n == st[1]:
                del s.options[i]
                break
        else:
            return ok, []      # reported success but nothing to remove
        return ok, [s]
    if k in ("data", "dafter"):
        ok = res == "1"
        if not ok or not st[1]:
            return ok, [state]
        s = state.copy()
        s.payload = st[1]
        return ok, [s]
    if k == "olist":
        ok = res == "1"
        items = sorted(st[1], key=lambda o: o[0])
        cands = []
        # every prefix of the sorted list may have been applied when refused
        prefixes = [len(items)] if ok else list(range(len(items) + 1))
        for p in prefixes:
            states = [state.copy()]
            for num, val in items[:p]:
                nxt = []
                for s0 in states:
                    nxt.extend(_with_option(s0, num, val, False))
                states = nxt[:8]
            cands.extend(states)
        return ok, cands
    if k == "dup":
        ok = res == "1"
        if not ok:
            return ok, [state]
        s = State(state.type, state.code, state.mid)
        s.token = st[1]
        drop = set(st[2] or ())
        s.options = [(n, v) for n, v in state.options if n not in drop]
        cands = [s]
        if (st[2] is not None and is_request(s.code) and not s.has(16)
                and any(n in (35, 39) for n, _ in s.options)):
            # the filtered copy re-adds options one by one through the builder, which
            # applies the RFC 8768 rule (implicit Hop-Limit next to Proxy-Uri/-Scheme)
            s2 = s.copy()
            s2.insert(*HOP)
            cands.append(s2)
        return ok, cands
    raise ValueError(st)


def describe(state):
    if state is None:
        return "None"
    return "type=%d code=%d mid=%d token=%s options=%s payload=%s" % (
        state.type, state.code, state.mid, state.token.hex(),
        [(n, v.hex()) for n, v in state.options], state.payload.hex())
