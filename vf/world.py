"""Driver for the closed world (harness/world.c): process control, the
discrete-event scheduler with virtual time, the in-flight datagram queue and
the fault plan.  Raw peers are Python callables reacting to wire events."""
import heapq
import json
import os
import select
import subprocess
import time

from . import common


class WorldCrash(Exception):
    def __init__(self, stderr, rc, last_cmd, hang=False, events=None):
        Exception.__init__(self, "world died rc=%s during %r" % (rc, last_cmd))
        self.stderr = stderr
        self.rc = rc
        self.last_cmd = last_cmd
        self.hang = hang
        self.events = events or []      # events of the fatal command read before death


ASAN_ENV = {
    "ASAN_OPTIONS": "abort_on_error=0:detect_leaks=1:allocator_may_return_null=1:"
                    "max_allocation_size_mb=256:malloc_context_size=12",
    "UBSAN_OPTIONS": "print_stacktrace=1",
    "LSAN_OPTIONS": "exitcode=23",
}


class World:
    """One harness process."""

    def __init__(self, exe, seed=1, env=None, cmd_timeout=60, argv_prefix=None):
        e = dict(os.environ)
        e.update(ASAN_ENV)
        if env:
            e.update(env)
        self.stderr_path = "/tmp/vf-world-%d-%d.err" % (os.getpid(), id(self) & 0xffffff)
        self.errf = open(self.stderr_path, "wb")
        self.clock = 0          # the harness's virtual clock after the last command
        self.p = subprocess.Popen((argv_prefix or []) + [exe], stdin=subprocess.PIPE,
                                  stdout=subprocess.PIPE, stderr=self.errf, env=e, bufsize=0)
        self.cmd_timeout = cmd_timeout
        self.argv = (argv_prefix or []) + [exe]
        self.env = e
        self.buf = b""
        self.script = []          # every command sent (the replay file)
        self.last_cmd = None
        self.closed = False
        self.cmd("seed %d" % seed)

    def _readline(self):
        # once a hang has been confirmed in this run (crash_violation: a fresh process given the
        # same script did not finish either) the run is a violation whatever follows; later
        # scenarios that stall the same way are given a shorter wait instead of the full one
        tmo = self.cmd_timeout
        if self.argv[0].endswith("vf_world") and hang_confirmed():
            tmo = min(tmo, 15)
        deadline = time.time() + tmo
        while b"\n" not in self.buf:
            left = deadline - time.time()
            if left <= 0:
                wc = WorldCrash(self._stderr(), None, self.last_cmd, hang=True)
                wc.replay = (self.argv, self.env, list(self.script), self.cmd_timeout)
                raise wc
            r, _, _ = select.select([self.p.stdout], [], [], min(left, 5))
            if not r:
                continue
            chunk = os.read(self.p.stdout.fileno(), 1 << 16)
            if not chunk:
                self.p.wait()
                raise WorldCrash(self._stderr(), self.p.returncode, self.last_cmd)
            self.buf += chunk
        line, self.buf = self.buf.split(b"\n", 1)
        return line

    def _stderr(self):
        try:
            self.errf.flush()
            with open(self.stderr_path, "rb") as f:
                return f.read().decode("latin1")
        except OSError:
            return ""

    def cmd(self, line):
        """send one command, return the events it produced"""
        self.last_cmd = line
        self.script.append(line)
        try:
            self.p.stdin.write((line + "\n").encode())
        except (BrokenPipeError, OSError):
            self.p.wait()
            raise WorldCrash(self._stderr(), self.p.returncode, line)
        evs = []
        while True:
            try:
                raw = self._readline()
            except WorldCrash as wc:
                wc.events = evs
                raise
            if not raw:
                continue
            try:
                ev = json.loads(raw)
            except ValueError:
                evs.append({"e": "garbage", "raw": raw.decode("latin1")[:200]})
                continue
            if ev["e"] == "done":
                self.clock = ev.get("t", self.clock)
                return evs
            if ev["e"] == "call":
                continue
            evs.append(ev)

    def close(self, kill=False):
        """quit (teardown + leak report); returns (events, returncode, stderr)"""
        if self.closed:
            return [], self.p.returncode, ""
        self.closed = True
        evs = []
        if kill:
            self.p.kill()
        else:
            try:
                self.p.stdin.write(b"quit\n")
            except (BrokenPipeError, OSError):
                pass
        try:
            out, _ = self.p.communicate(timeout=self.cmd_timeout)
        except subprocess.TimeoutExpired:
            self.p.kill()
            out, _ = self.p.communicate()
            err = self._stderr()
            self._cleanup()
            return evs, None, err + "\nTEARDOWN-HANG"
        except (ValueError, OSError):
            self.p.wait()
            out = b""
        for raw in (self.buf + (out or b"")).split(b"\n"):
            if raw.strip():
                try:
                    evs.append(json.loads(raw))
                except ValueError:
                    pass
        err = self._stderr()
        self._cleanup()
        return evs, self.p.returncode, err

    def _cleanup(self):
        try:
            self.errf.close()
            os.unlink(self.stderr_path)
        except OSError:
            pass

    def __del__(self):
        try:
            if not self.closed:
                self.p.kill()
                self.p.wait()
                self._cleanup()
        except Exception:
            pass


class Sim:
    """Discrete-event scheduler around one World."""

    def __init__(self, world, latency=5):
        self.w = world
        self.now = 1000000          # must match vf_now_ms in wraps.c
        self.t0 = self.now
        self.q = []                 # heap of (time, seq, kind, payload)
        self.seq = 0
        self.latency = latency
        self.peers = {}             # addr -> callable(sim, frm, to, data)
        self.nodes = []
        self.log = []               # all events, in order
        self.wire_index = 0
        self.fault = None           # callable(sim, index, ev) -> list of (delay, bytes) | None
        self.on_event = []          # online monitors: callable(sim, ev)
        self.tcp_listeners = {}     # addr -> node (libcoap listening endpoints)
        self.conn_peer = {}         # (conn, initiator) -> callable(sim, data) for raw stream peers
        self.steps = 0
        self.max_steps = 200000
        self.timers_first = False   # tie-break when a delivery and a library deadline coincide

    # -- commands ---------------------------------------------------------
    def cmd(self, line):
        try:
            evs = self.w.cmd(line)
        except WorldCrash as wc:
            self.log.extend(wc.events)
            raise
        if self.w.clock > self.now:
            # the library waited inside the command (coap_client_delay_first): virtual time
            # went by in the harness
            self.now = self.w.clock
        self._absorb(evs)
        return evs

    def _absorb(self, evs):
        for ev in evs:
            self.log.append(ev)
            k = ev["e"]
            if k == "wire":
                self._on_wire(ev)
            for m in self.on_event:
                m(self, ev)

    def note(self, ev):
        """an event produced by the scheduler itself (delivery to a node / to a raw peer)"""
        self.log.append(ev)
        for m in self.on_event:
            m(self, ev)

    def _on_wire(self, ev):
        idx = self.wire_index
        self.wire_index += 1
        ev["idx"] = idx
        data = bytes.fromhex(ev["b"])
        plan = None
        if self.fault:
            plan = self.fault(self, idx, ev)
        if plan is None:
            plan = [(self.latency, data)]
        ev["plan"] = [(d, len(b)) for d, b in plan]
        for delay, b in plan:
            self.at(self.now + delay, "dgram", (ev["from"], ev["to"], b))

    def at(self, t, kind, payload):
        self.seq += 1
        heapq.heappush(self.q, (t, self.seq, kind, payload))

    def inject(self, frm, to, data, delay=0):
        """a datagram from a raw peer"""
        self.at(self.now + delay, "dgram", (frm, to, data))

    def call_at(self, t, fn):
        self.at(t, "call", fn)

    def add_node(self, n, **kw):
        self.cmd("node %d" % n)
        self.nodes.append(n)
        if kw:
            self.cmd("ctx %d %s" % (n, " ".join("%s=%s" % kv for kv in kw.items())))

    def enable_stream_relay(self, chunker=None):
        """node-to-node TCP/TLS/WS: connection attempts reach the listening node, bytes
        written on one side arrive on the other after the latency.  chunker(bytes) ->
        list of (extra delay, bytes) lets a scenario re-segment the stream."""
        last = {}

        def relay(sim, ev):
            k = ev["e"]
            if k == "tcp_connect":
                line = "tcp_accept %s %s conn=%d" % (ev["remote"], ev["local"], ev["conn"])
                sim.at(sim.now + sim.latency, "call", lambda s, line=line: s.cmd(line))
            elif k == "swrite":
                side = 0 if ev["init"] else 1
                data = bytes.fromhex(ev["b"])
                parts = chunker(data) if chunker else [(0, data)]
                for delay, part in parts:
                    line = "stream %d %d %s" % (ev["conn"], side, part.hex())
                    # a byte stream: never overtake what was written before
                    t = max(sim.now + sim.latency + delay, last.get((ev["conn"], side), 0))
                    last[(ev["conn"], side)] = t
                    sim.at(t, "call", lambda s, line=line: s.cmd(line))
            elif k == "closed" and ev.get("kind") == 3:
                side = 0 if ev["init"] else 1
                line = "stream_close %d %d" % (ev["conn"], side)
                t = max(sim.now + sim.latency, last.get((ev["conn"], side), 0))
                sim.at(t, "call", lambda s, line=line: s.cmd(line))
        self.on_event.append(relay)

    # -- time ---------------------------------------------------------------
    def _advance_to(self, t):
        if t > self.now:
            self.w.cmd("advance %d" % (t - self.now))
            self.now = t

    def _dispatch(self, kind, payload):
        if kind == "dgram":
            frm, to, data = payload
            if to in self.peers:
                self.note({"e": "peer_rx", "t": self.now, "from": frm, "to": to,
                           "b": data.hex()})
                self.peers[to](self, frm, to, data)
            else:
                self.note({"e": "rx", "t": self.now, "from": frm, "to": to, "b": data.hex()})
                self.cmd("deliver %s %s %s" % (frm, to, data.hex() or "-"))
        elif kind == "call":
            payload(self)

    def prepare_all(self):
        """run every node's timer step; returns the smallest timeout (ms) or None"""
        best = None
        for n in self.nodes:
            evs = self.cmd("prepare %d" % n)
            for ev in evs:
                if ev["e"] == "timeout" and ev["ms"] > 0:
                    best = ev["ms"] if best is None else min(best, ev["ms"])
        return best

    def can_exit(self):
        ok = True
        for n in self.nodes:
            for ev in self.cmd("peek %d" % n):
                if ev["e"] == "peek" and not ev["can_exit"]:
                    ok = False
        return ok

    def run(self, until=None, horizon=600000, stop=None, quiesce=True):
        """Run the world.  Advances virtual time only to the next of {datagram
        delivery, scripted call, smallest library timeout}.  Stops at virtual
        time `until` (absolute ms since start) if given, or when quiescent
        (nothing in flight/scripted and every node's coap_can_exit() is true),
        then - if horizon - keeps walking library deadlines up to the horizon
        so that late effects are seen."""
        limit = self.t0 + (until if until is not None else horizon)
        quiet_since = None
        while True:
            self.steps += 1
            if self.steps > self.max_steps:
                raise common.Inconclusive("step budget exhausted (possible livelock)")
            if self.timers_first:
                self.prepare_all()
            while self.q and self.q[0][0] <= self.now:
                _, _, kind, payload = heapq.heappop(self.q)
                self._dispatch(kind, payload)
            if stop and stop(self):
                return "stopped"
            tmo = self.prepare_all()
            if self.q and self.q[0][0] <= self.now:
                continue
            nxt = []
            if self.q:
                nxt.append(self.q[0][0])
            if tmo is not None:
                nxt.append(self.now + tmo)
            if not self.q and quiesce and quiet_since is None and until is None:
                if self.can_exit():
                    quiet_since = self.now
                    self.log.append({"e": "quiescent", "t": self.now})
            if not nxt:
                return "idle"
            t = min(nxt)
            if t > limit:
                self._advance_to(limit)
                return "limit"
            self._advance_to(t)

    def elapsed(self):
        return self.now - self.t0


def _hang_dir():
    d = os.environ.get("VF_HANG_DIR")
    return d if d and os.path.isdir(d) else None


def hang_confirmed():
    d = _hang_dir()
    try:
        return bool(d) and bool(os.listdir(d))
    except OSError:
        return False


def too_many_hangs(limit=6):
    """the run has met `limit` hangs after the first confirmed one: it is a violation already,
    a workload may stop producing more of the same"""
    d = _hang_dir()
    try:
        return bool(d) and len(os.listdir(d)) >= limit
    except OSError:
        return False


def _note_hang():
    d = _hang_dir()
    if d:
        try:
            open(os.path.join(d, "hang-%d-%d" % (os.getpid(), int(time.time() * 1000))), "w").close()
        except OSError:
            pass


def crash_violation(run, prefix, exc, witness):
    """turn a WorldCrash into a violation on `run`"""
    if exc.hang and hang_confirmed():
        _note_hang()
        # a hang of this run has been confirmed by a replay already: no second confirmation
        run.violation("%s/hang" % prefix, witness, "harness process did not answer %r within "
                      "the watchdog (a hang of this run was confirmed by replay before)"
                      % exc.last_cmd)
        return
    if exc.hang:
        # The watchdog is wall-clock time and the machine may be loaded: before a hang is
        # reported the same script is given to a fresh process with five times the time.  If
        # that one finishes, the watchdog fired for lack of CPU: counted, no verdict.
        rp = getattr(exc, "replay", None)
        if rp:
            argv, env, script, tmo = rp
            try:
                subprocess.run(argv, input=("\n".join(script) + "\n").encode(), env=env,
                               stdout=subprocess.DEVNULL, stderr=subprocess.DEVNULL,
                               timeout=max(300, 5 * tmo))
                run.extra["watchdog_fired_but_replay_finished"] = \
                    run.extra.get("watchdog_fired_but_replay_finished", 0) + 1
                return
            except subprocess.TimeoutExpired:
                pass
            except Exception:
                pass
        d = _hang_dir()
        if d:
            try:
                open(os.path.join(d, "hang-%d" % os.getpid()), "w").close()
            except OSError:
                pass
        sig = "%s/hang" % prefix
        run.violation(sig, witness, "harness process did not answer %r within the watchdog, and "
                      "a fresh process given the same script did not finish in five times the "
                      "time" % exc.last_cmd)
        return
    s = (common.sanitizer_signature(exc.stderr) or common.valgrind_signature(exc.stderr)
         or ("abort-rc%s" % exc.rc))
    witness = dict(witness, stderr=exc.stderr[-4000:], last_cmd=exc.last_cmd)
    run.violation("%s/sanitizer/%s" % (prefix, s), witness, exc.stderr[-1500:])


def teardown_check(run, prefix, world, witness, expect_clean=True):
    """quit the world, judge shadow table / LSan / exit code"""
    evs, rc, err = world.close()
    sh = [e for e in evs if e.get("e") == "shadow"]
    ok = True
    if rc is None:
        run.violation("%s/teardown-hang" % prefix, witness, "teardown did not finish")
        return False
    if rc != 0:
        s = common.sanitizer_signature(err) or ("exit-rc%s" % rc)
        run.violation("%s/teardown/%s" % (prefix, s), dict(witness, stderr=err[-4000:]),
                      err[-1500:])
        ok = False
    if expect_clean and sh:
        if sh[0]["live"]:
            run.violation("%s/leak/types-%s" % (prefix, sh[0].get("bytype", "?")), witness,
                          "allocator shadow table not empty after coap_free_context + "
                          "coap_cleanup: %r" % sh[0])
            ok = False
        if sh[0]["badfree"]:
            run.violation("%s/bad-free" % prefix, witness, "free of unknown/freed pointer: %r"
                          % sh[0])
            ok = False
    return ok
